"""C16 - equilibrium compositions (the clauses visible in the shape of the code)."""
import ast
import itertools
from fractions import Fraction as Fr

from ..nf import Rat, C
from ..source import Unsupported, AnchorError
from ..xlate import Interp, Obj, ListV, DictV, Raised, FuncRef, Frame, _RaisedExc
from .common import same, show, opaque_obj, pub

EQ = 'pmutt.equilibrium.Equilibrium'        # the public path; the defining module is found through the re-export


MODEL_FORMS = ('model in the order of the network', 'model in another order with a species more, as a dict',
               'model in another order with a species more, as a list')

# the exit modes of SLSQP as scipy documents them (scipy/optimize/_slsqp_py.py); 0 is the only successful one
SLSQP_MESSAGES = {
    0: 'Optimization terminated successfully',
    1: 'Function evaluation required (f & c)',
    2: 'More equality constraints than independent variables',
    3: 'More than 3*n iterations in LSQ subproblem',
    4: 'Inequality constraints incompatible',
    5: 'Singular matrix E in LSQ subproblem',
    6: 'Singular matrix C in LSQ subproblem',
    7: 'Rank-deficient equality constraint subproblem HFTI',
    8: 'Positive directional derivative for linesearch',
    9: 'Iteration limit reached',
}
OK_ = (True, 0, 7)
# (status, number of iterations; None: as many as the iteration limit handed to the solver). The first one is the
# failure the rule has always used.
FAILURE_MODES = [(9, 7)] + [(st, nit) for st in (1, 2, 3, 4, 5, 6, 7, 8, 9) for nit in (7, None) if (st, nit) != (9, 7)]


class _Members(dict):
    """the methods of a stub object that stands for a library object: asking for a member the stub does not model is
    outside the interpreted fragment, not an AttributeError (the real object has, or may have, the member)"""

    def __init__(self, what):
        dict.__init__(self)
        self.what = what

    def __contains__(self, k):
        if dict.__contains__(self, k):
            return True
        raise Unsupported('member %r of %s is not modelled' % (k, self.what))


class OptimizeResultV(DictV, Obj):
    """scipy.optimize.OptimizeResult: a dict whose items are also its attributes (sol.x is sol['x']); one store for
    both views. Anything else asked of it is refused, never answered with a guessed exception."""

    def __init__(self, name, items):
        DictV.__init__(self, items)
        Obj.__init__(self, name, closed=True)
        self.attrs = self.d
        self.opaque_methods = _Members('scipy.optimize.OptimizeResult')
        for nm in ('get', 'keys', 'values', 'items'):
            dict.__setitem__(self.opaque_methods, nm, _dict_reader(nm))


def _dict_reader(name):
    """the reading methods of the dict an OptimizeResult is"""
    def h(I_, obj, args, kwargs):
        if kwargs or len(args) > (2 if name == 'get' else 0) or (name == 'get' and not args):
            raise Unsupported('OptimizeResult.%s called with these arguments' % name)
        if name == 'get':
            return obj.d.get(obj.nkey(args[0]), args[1] if len(args) > 1 else None)
        if name == 'keys':
            return ListV([obj.okey(k) for k in obj.d])
        if name == 'values':
            return ListV(list(obj.d.values()))
        return ListV([ListV([obj.okey(k), v]) for k, v in obj.d.items()])
    return h


def solver(cap, state, ns):
    """scipy.optimize.minimize as an uninterpreted solver: records what it is given and returns a fresh result with
    the outcome the rule set: state['seq'][j] = (success, status, iterations) for the j-th run asked for during the
    current call of the method under analysis (begin() starts a call), state['outcome'] for every run beyond that
    list. cap holds the record of the last run and, under 'recs', the records of all runs of the current call."""
    def mini(I_, fr, args, kwargs, nd):
        rec = {'fun': args[0] if args else kwargs.get('fun'),
               'x0': args[1] if len(args) > 1 else kwargs.get('x0')}
        if len(args) > 2:
            rec['args'] = args[2]
        rec.update(kwargs)
        opts = rec.get('options')
        maxiter = opts.d.get('maxiter') if isinstance(opts, DictV) else None
        if not (isinstance(maxiter, Rat) and maxiter.is_const()):
            maxiter = C(100)                        # the default of SLSQP
        recs = cap.get('recs', [])
        seq = state.get('seq') or ()
        outcome = seq[len(recs)] if len(recs) < len(seq) else state['outcome']
        success, status, nit = outcome
        k = state['n']
        state['n'] += 1
        sfx = '' if k == 0 else '_call%d' % (k + 1)

        def vec(stem):
            v = ListV([I_.D.sym('%s%d%s' % (stem, i, sfx)) for i in range(ns)])
            v.is_array = True
            v.dtype = 'float'                       # the solver works on float64 vectors
            return v
        # the members an SLSQP result has
        sol = OptimizeResultV('sol', {'x': vec('xsol'), 'success': success, 'status': C(status),
                                      'message': SLSQP_MESSAGES[status], 'fun': I_.D.sym('fsol' + sfx),
                                      'jac': vec('gsol'), 'nit': maxiter if nit is None else C(nit),
                                      'nfev': I_.D.sym('nfev' + sfx), 'njev': I_.D.sym('njev' + sfx)})
        rec['sol'] = sol
        # the amounts of this run as the solver handed them out: what the caller does to the array afterwards (in
        # place, or by assigning to sol.x) is not part of the reference
        rec['x'] = list(sol.d['x'].items)
        rec['outcome'] = outcome
        cap.clear()
        cap.update(rec)
        cap['recs'] = recs + [rec]
        return sol
    return mini


def returned_run(cap, res):
    """index of the run of this call whose amounts are the ones handed out (None: of no run)"""
    mo = pub(res, 'moles') if isinstance(res, Obj) else None
    if not isinstance(mo, ListV):
        return None
    for j, rec in enumerate(cap.get('recs', [])):
        if len(mo) == len(rec['x']) and all(same(a, b) for a, b in zip(mo.items, rec['x'])):
            return j
    return None


def bounds_object(I_, fr, args, kwargs, nd):
    """scipy.optimize.Bounds(lb, ub, keep_feasible=False): the other spelling of the bounds minimize accepts"""
    names = ('lb', 'ub', 'keep_feasible')
    if len(args) > 3 or any(k not in names for k in kwargs) or any(nm in kwargs for nm in names[:len(args)]):
        raise Unsupported('scipy.optimize.Bounds called with these arguments')
    vals = dict(zip(names, args))
    vals.update(kwargs)
    if 'lb' not in vals or 'ub' not in vals:
        raise Unsupported('scipy.optimize.Bounds with an infinite default bound')
    b = Obj('Bounds', closed=True)
    b.attrs.update({'lb': vals['lb'], 'ub': vals['ub'], 'keep_feasible': vals.get('keep_feasible', False)})
    b.opaque_methods = _Members('scipy.optimize.Bounds')
    b.isa = {'Bounds'}
    return b


def lower_bounds(bnds, ns):
    """the lower bound of each of the ns amounts from either spelling (a sequence of (min, max) pairs, a Bounds object
    with scalar or per-amount lb); None if it is neither"""
    if isinstance(bnds, Obj) and 'Bounds' in bnds.isa:
        lb = bnds.attrs['lb']
        if isinstance(lb, Rat):
            return [lb] * ns
        return list(lb.items) if isinstance(lb, ListV) and len(lb) == ns else None
    if isinstance(bnds, ListV) and len(bnds) == ns and all(isinstance(b_, ListV) and len(b_) == 2 for b_ in bnds.items):
        return [b_.items[0] for b_ in bnds.items]
    return None


def build(I, repo, net, form, feed='feed_', sp=None, model=None, tag=''):
    """the problem built through the public constructor: concrete compositions, symbolic feed amounts; the model may
    hold the species in another order than the network and species the network does not name. A second problem
    (feed given) has feed amounts of its own, over the same species objects (sp, model given) or over species objects
    of its own that carry the same names (tag: the Gibbs energies of the two models are different atoms)."""
    D = I.D
    ci = repo.cls(EQ)
    names = [nm for nm, _ in net]
    comps = dict(net)
    if sp is None:
        sp = {}
        for nm, comp in list(net) + [('Xe2', {'Xe': 2})]:
            o = opaque_obj(I, nm + tag, {'get_GoRT': ('T',)})
            o.attrs['elements'] = DictV({e: C(k) for e, k in comp.items()})
            o.attrs['name'] = nm
            sp[nm] = o
    if model is None:
        model = model_of(sp, names, form)
    network = DictV()
    for nm in names:
        network.d[nm] = D.sym(feed + nm)
    eq = I.construct(ci, [], {'model': model, 'network': network}, name='eq' if feed == 'feed_' else 'eq_' + feed)
    return eq, (eq if isinstance(eq, Raised) else None), names, sp, comps, model


def model_of(sp, names, form):
    if form == MODEL_FORMS[0]:
        order = names
    else:
        order = [names[-1], 'Xe2'] + names[:-1]
    model = DictV()
    for nm in order:
        model.d[nm] = sp[nm]
    if form == MODEL_FORMS[2]:
        model = ListV(list(model.d.values()))
    return model


def call_dunder(v):
    """(owner, def) of __call__ when v is an instance of a package class that defines it (found through the MRO)"""
    I = getattr(v, 'interp', None)
    if isinstance(v, Obj) and v.ci is not None and I is not None:
        return I.repo.find_method(v.ci, '__call__', missing_ok=True)
    return None


def is_callable(v):
    """what scipy can call: a function, a bound method, a lambda, a library-made callable (functools.partial), or an
    instance of a class with __call__"""
    return isinstance(v, FuncRef) or hasattr(v, 'pmv_call') or call_dunder(v) is not None or \
        (isinstance(v, Obj) and '__call__' in dict.keys(v.opaque_methods))


def call(fr_, f, args):
    try:
        if call_dunder(f) is not None:
            r = fr_.I.call_method(f, '__call__', list(args), {})
            return r
        return fr_.apply(f, list(args), {}, None)
    except _RaisedExc as e:
        return e.raised


def extra_args(v):
    """scipy: ``args`` defaults to (), anything that is not a tuple is one extra argument"""
    return [] if v is None else list(v.items) if isinstance(v, ListV) and getattr(v, 'is_tuple', False) else [v]


def where(f, owner, fn):
    """(module, node, name) of a callable handed to the solver, for the report; the method under analysis when it is
    a lambda or a library-made callable"""
    if isinstance(f, FuncRef) and isinstance(f.fn, ast.FunctionDef):
        return f.module, f.fn, f.fn.name
    got = call_dunder(f)
    if got is not None:
        return got[0].module, got[1], '%s.%s' % (got[0].name, got[1].name)
    return owner.module, fn, fn.name


def verify(run, I, eq, cap, res, ctx, feed, T, P, label, tag, full=True):
    """one call of get_net_comp: what was handed to the solver is the problem of THIS object at THESE conditions, and
    what is returned is what THIS run of the solver gave. Returns the constant ln(p/P) of the objective (None if the
    objective is not of the expected form). full=False: only what can differ between two calls of unchanged callbacks -
    the result, the value of the objective (Gibbs energies, pressure) and the value of the constraint (feed)."""
    D = I.D
    names, sp, comps, owner, fn = ctx
    ns = len(names)
    key = label + tag
    if isinstance(res, Raised) or not isinstance(res, Obj):
        run.fail('REF.result', 'Equilibrium.get_net_comp', 'result' + tag, '[%s] unexpected result %s'
                 % (key, show(res)), owner.module, fn)
        return None
    if cap.get('sol') is None:
        run.fail('EFFECT.shared-state' if tag else 'DATAFLOW.solver-args', 'Equilibrium.get_net_comp', key,
                 '[%s] a composition is returned although the solver was not asked: %s' % (
                     key, 'what is handed out was remembered from an earlier call or from another object, it is not '
                     'the solution of this problem' if tag else 'nothing is minimised'), owner.module, fn)
        return None
    # the run whose amounts are handed out (a call may ask the solver more than once: restart, polish); the last one
    # when the amounts are those of no run of this call
    j = returned_run(cap, res)
    cap = cap['recs'][j if j is not None else -1]
    x = cap['x']
    tot = x[0]
    for xi in x[1:]:
        tot = tot + xi
    mf = pub(res, 'mole_frac')
    ok = isinstance(mf, ListV) and len(mf) == ns and all(same(a, b / tot) for a, b in zip(mf.items, x))
    run.check(ok, 'REF.mole-fractions', 'Equilibrium.get_net_comp', key,
              'mole fractions are %s, expected x/sum(x) of the solver amounts' % show(mf, 160), owner.module, fn)
    mo = pub(res, 'moles')
    run.check(j is not None and same(pub(res, 'species'), ListV(list(names))),
              'REF.result', 'Equilibrium.get_net_comp', key + ' amounts',
              'returned amounts/species are not the solver\'s x (of a run of this call, as the solver handed it out) '
              'in the species order: %s' % show(mo, 120), owner.module, fn)
    # objective and its Jacobian
    xs = ListV([D.sym('x%d' % i) for i in range(ns)])
    xs.is_array = True
    xs.dtype = 'float'              # the solver hands float64 vectors to the callbacks
    fun, jac, args = cap.get('fun'), cap.get('jac'), cap.get('args')
    extra = extra_args(args)
    if not (is_callable(fun) and (jac is True or is_callable(jac))):
        run.fail('DATAFLOW.solver-args', 'Equilibrium.get_net_comp', key, 'the objective and its analytic Jacobian '
                 'are not handed to the solver (fun and jac callables, or jac=True and fun returning both)',
                 owner.module, fn)
        return None
    fr_ = Frame(I, owner.module, {}, owner, eq)
    out = call(fr_, fun, [xs] + extra)
    if jac is True:
        # scipy splits the pair (value, gradient)
        val, grad = (out.items if isinstance(out, ListV) and len(out) == 2 and not getattr(out, 'is_array', False)
                     else (out, None))
        jfun = fun
    else:
        val, grad, jfun = out, (call(fr_, jac, [xs] + extra) if full else None), jac
    g = [sp[nm].opaque_methods['get_GoRT'](I, sp[nm], [], {'T': T}) for nm in names]
    nT = xs.items[0]
    for xi in xs.items[1:]:
        nT = nT + xi
    # sum x_i (g_i + ln(x_i p / n)) with p = k P: the value minus the sum written with P itself is n ln k
    want = C(0)
    for xi, gi in zip(xs.items, g):
        want = want + xi * (gi + D.ln(xi * P / nT))
    lnk, form_ok, p_ok = None, False, False
    if isinstance(val, Rat):
        lnk = D.d(val - want, 'x0')
        form_ok = (val - want).eq(nT * lnk)
        rest = {a for a in lnk.atoms() if D.kind.get(a) != 'const'}
        pa = P.atoms() | D.ln(P).atoms()
        form_ok = form_ok and rest <= pa and not lnk.has_den()
        p_ok = form_ok and not rest
    m1, n1, nm1 = where(fun, owner, fn)
    run.check(form_ok, 'REF.objective', 'Equilibrium.' + nm1, key,
              'objective is %s, expected sum x_i (g_i + ln(x_i p / n)) with g_i = G_i/RT of species i at T'
              % show(val, 200), m1, n1, sample='[%s] objective == sum x_i(g_i + ln(x_i p/n))' % key)
    m2, n2, nm2 = where(jfun, owner, fn)
    if form_ok:
        # the gradient of that sum, in closed form: d/dx_i = g_i + ln(x_i p / n)  (the terms x_j d ln(x_j/n)/dx_i cancel)
        dval = [gi + D.ln(xi * P / nT) + lnk for xi, gi in zip(xs.items, g)]
    else:
        dval = [D.d(val, 'x%d' % i) for i in range(ns)] if isinstance(val, Rat) else None
    okj = dval is not None and isinstance(grad, ListV) and len(grad) == ns and \
        all(isinstance(gr, Rat) and gr.eq(dv) for gr, dv in zip(grad.items, dval))
    if full or jac is True:
        run.check(okj, 'DERIV.objective-jac', 'Equilibrium.' + nm2, key,
                  'the Jacobian handed to the solver is not the gradient of the objective: %s' % show(grad, 200),
                  m2, n2, sample='[%s] jac_i == d objective / d x_i' % key)
    # pressure in the objective: P (atm) times a constant
    if form_ok:
        run.check(p_ok, 'DATAFLOW.solver-args', 'Equilibrium.get_net_comp', key + ' pressure',
                  'the pressure in the objective handed to the solver is not proportional to P: ln(p/P) = %s'
                  % show(lnk, 120), owner.module, fn)
    # constraints: the element balances, in one dictionary or spread over several; anything else handed over as a
    # constraint changes the set the minimum is taken over and is not judged here
    con = cap.get('constraints')
    cons = list(con.items) if isinstance(con, ListV) else ([] if con is None else [con])
    els = []
    for nm in names:
        els.extend(e for e in comps[nm] if e not in els)
    # one balance per element of the network, in whatever order the elements are kept
    wantc = [sum((xs.items[i] * comps[nm].get(e, 0) - D.sym(feed + nm) * comps[nm].get(e, 0)
                  for i, nm in enumerate(names)), C(0)) for e in els]
    left = list(wantc)
    okc = bool(cons)
    for cd in cons:
        if not (isinstance(cd, DictV) and 'type' in cd.d and 'fun' in cd.d):
            raise Unsupported('a constraint handed to the solver is not a dictionary with type and fun: %s'
                              % show(cd, 80))
        if cd.d['type'] != 'eq':
            raise Unsupported('a constraint of type %s is handed to the solver besides the element balances: whether '
                              'it cuts off the minimum is not decided' % show(cd.d['type'], 40))
        if not is_callable(cd.d['fun']):
            okc = False
            continue
        # scipy calls fun(x, *args) and jac(x, *args) with the 'args' entry of the constraint dictionary
        ca = cd.d.get('args')
        if ca is not None and not isinstance(ca, ListV):
            raise Unsupported("the 'args' entry of a constraint dictionary is not a sequence: %s" % show(ca, 80))
        extra_c = list(ca.items) if ca is not None else []
        cv = call(fr_, cd.d['fun'], [xs] + extra_c)
        vals = list(cv.items) if isinstance(cv, ListV) else [cv]
        okv = bool(vals) and all(isinstance(a, Rat) for a in vals)
        for a in (vals if okv else ()):
            hit = [w for w in left if a.eq(w)]
            if hit:
                left.remove(hit[0])
            else:
                okv = False             # not the balance of an element (that no other entry covers)
        okv = okv and (len(cons) > 1 or not left)
        okc = okc and okv
        m3, n3, nm3 = where(cd.d['fun'], owner, fn)
        run.check(okv, 'REF.constraint', 'Equilibrium.' + nm3, key,
                  'the equality constraint is %s, expected for every element of the network (atoms in x) - (atoms in '
                  'the feed of this object)' % show(cv, 160), m3, n3)
        if not full:
            continue
        cj = cd.d.get('jac')
        jv = call(fr_, cj, [xs] + extra_c) if is_callable(cj) else None
        if isinstance(cv, ListV):
            okjj = isinstance(jv, ListV) and len(jv) == len(cv) and all(
                isinstance(jv.items[j], ListV) and len(jv.items[j]) == ns and
                all(same(jv.items[j].items[i], D.d(cv.items[j], 'x%d' % i)) for i in range(ns))
                for j in range(len(cv)))
        else:
            # a scalar constraint: its gradient, as a vector or as a matrix of one row
            row = jv.items[0] if isinstance(jv, ListV) and len(jv) == 1 and isinstance(jv.items[0], ListV) else jv
            okjj = isinstance(cv, Rat) and isinstance(row, ListV) and len(row) == ns and all(
                same(row.items[i], D.d(cv, 'x%d' % i)) for i in range(ns))
        m4, n4, nm4 = where(cj, owner, fn)
        run.check(okjj, 'DERIV.constraint-jac', 'Equilibrium.' + nm4, key,
                  'the constraint Jacobian is not the derivative of the constraint (M transposed): %s'
                  % show(jv, 160), m4, n4)
    okc = okc and not left
    run.check(okc, 'DATAFLOW.solver-args', 'Equilibrium.get_net_comp', key + ' constraint',
              'the equality constraints handed to the solver are not the element balances of the network, one per '
              'element', owner.module, fn)
    if not full:
        return lnk if p_ok else None
    # bounds
    bnds = cap.get('bounds')
    lbs = lower_bounds(bnds, ns)
    okb = lbs is not None and all(isinstance(b_, Rat) and b_.is_const() and b_.const_value() > 0 for b_ in lbs)
    run.check(okb, 'REF.bounds', 'Equilibrium.get_net_comp', key + ' bounds',
              'amounts are not bounded below by a positive constant for every species: %s' % show(bnds, 120),
              owner.module, fn)
    # x0 has one entry per species
    x0 = cap.get('x0')
    run.check(isinstance(x0, ListV) and len(x0) == ns, 'DATAFLOW.solver-args', 'Equilibrium.get_net_comp',
              key + ' x0', 'initial guess does not have one entry per species', owner.module, fn)
    return lnk if p_ok else None


def begin(cap):
    """a call of the method under analysis starts: no run of the solver has been asked for yet"""
    cap.clear()


def success_instance(run, repo, net, form, label, owner, fn, mode, full, extras):
    """one object asked several times (success, success at other conditions, the first temperature at another
    pressure and the first pressure at another temperature, failure, success again) and a second object with species
    objects of its own under the same names and a feed of its own asked at the conditions of the first call, in one
    interpreter: state that outlives a call or an object (flags, caches, class attributes, module globals) is seen.
    Returns the largest number of solver runs one call asked for."""
    I = Interp(repo)
    D = I.D
    eq, r0, names, sp, comps, model = build(I, repo, net, form)
    if isinstance(r0, Raised):
        run.fail('REF.constructor', 'Equilibrium.__init__', label, '[%s] building the problem raises %s'
                 % (label, r0.exc), owner.module, fn)
        return 0
    ctx = (names, sp, comps, owner, fn)
    cap, state = {}, {'outcome': OK_, 'n': 0}
    I.native['scipy.optimize.minimize'] = solver(cap, state, len(net))
    I.native['scipy.optimize.Bounds'] = bounds_object
    nruns = [0]

    def ask(obj, k, kp=None):
        T, P = D.sym('T%s' % k), D.sym('P%s' % (k if kp is None else kp))
        begin(cap)
        nw = len(I.warnings)
        res = I.call_method(obj, 'get_net_comp', [], {'T': T, 'P': P})
        nruns[0] = max(nruns[0], len(cap.get('recs', ())))
        return T, P, res, isinstance(res, Raised) or len(I.warnings) > nw
    T, P, res, sig = ask(eq, '')
    k1 = verify(run, I, eq, cap, res, ctx, 'feed_', T, P, label, '')
    if not isinstance(res, Raised):
        run.check(not sig, 'PATH.solver-status', 'Equilibrium.get_net_comp', 'success=True',
                  'a warning is raised although the solver succeeded', owner.module, fn)
    # the same object asked again at other conditions: the problem handed over is that of the new conditions
    T2, P2, res2, sig2 = ask(eq, '2')
    k2 = verify(run, I, eq, cap, res2, ctx, 'feed_', T2, P2, label, ', second call at other conditions', full)
    if k1 is not None and k2 is not None:
        run.check(same(k1, k2), 'DATAFLOW.solver-args', 'Equilibrium.get_net_comp',
                  label + ', second call at other conditions pressure',
                  'asked again at (T2, P2) the pressure in the objective is another multiple of P than in the first '
                  'call', owner.module, fn)
    if isinstance(res, Raised) or isinstance(res2, Raised) or not extras:
        return nruns[0]
    # a pressure scan at the first temperature and a temperature scan at the first pressure: one of the two
    # conditions is an old one, the other is new - the problem is that of the pair
    for kt, kp_, how in (('', 'b', ', call at the first temperature and another pressure'),
                         ('b', '', ', call at the first pressure and another temperature')):
        Tb, Pb, resb, _ = ask(eq, kt, kp_)
        if not isinstance(resb, Raised):
            verify(run, I, eq, cap, resb, ctx, 'feed_', Tb, Pb, label, how, False)
        else:
            run.fail('REF.result', 'Equilibrium.get_net_comp', 'result' + how, '[%s] unexpected result %s'
                     % (label + how, show(resb)), owner.module, fn)
    # ... then the solver fails once: signalled although earlier calls succeeded; and the next success is silent
    st, nit = mode
    state['outcome'] = (False, st, nit)
    T3, P3, res3, sig3 = ask(eq, '3')
    run.check(sig3, 'PATH.solver-status', 'Equilibrium.get_net_comp', 'success=False after successful calls',
              'the solver reports failure (status %d, %s) on a later call of an object whose earlier calls '
              'succeeded, and the composition is returned without a warning or an exception'
              % (st, SLSQP_MESSAGES[st]), owner.module, fn)
    state['outcome'] = OK_
    T4, P4, res4, sig4 = ask(eq, '4')
    run.check(not sig4, 'PATH.solver-status', 'Equilibrium.get_net_comp', 'success=True after a failed call',
              'a warning or an exception although the solver succeeded (the call before it had failed)',
              owner.module, fn)
    if not sig4:
        verify(run, I, eq, cap, res4, ctx, 'feed_', T4, P4, label, ', call after a failed call', full)
    # a second object for the same species names: species objects of its own (another thermdat, another level of
    # theory), another feed, the conditions of the first call of the first object
    eq2, r2, _, sp2, _, _ = build(I, repo, net, form, feed='feed2_', tag='#2')
    if isinstance(r2, Raised):
        run.fail('REF.constructor', 'Equilibrium.__init__', label + ', second object',
                 '[%s] building a second problem for the same species names raises %s' % (label, r2.exc),
                 owner.module, fn)
        return nruns[0]
    ctx2 = (names, sp2, comps, owner, fn)
    begin(cap)
    nw = len(I.warnings)
    res5 = I.call_method(eq2, 'get_net_comp', [], {'T': T, 'P': P})
    verify(run, I, eq2, cap, res5, ctx2, 'feed2_', T, P, label, ', second object at the same conditions', full)
    if not isinstance(res5, Raised):
        run.check(len(I.warnings) == nw, 'PATH.solver-status', 'Equilibrium.get_net_comp',
                  'success=True, second object', 'a warning is raised although the solver succeeded (second object)',
                  owner.module, fn)
    # ... and the first object again (its first temperature, its second pressure): still its own species and feed
    begin(cap)
    res6 = I.call_method(eq, 'get_net_comp', [], {'T': T, 'P': P2})
    if not isinstance(res6, Raised):
        verify(run, I, eq, cap, res6, ctx, 'feed_', T, P2, label, ', first object again after the second', False)
    return nruns[0]


def scan_instance(run, repo, net, form, label, owner, fn, full):
    """a pressure scan and a temperature scan at concrete conditions (numbers, so that a table keyed by a temperature
    or a pressure alone is decidable): 500 K at 2 and 30 atm, 800 K at 2 and 30 atm on one object, then a second object
    (species objects and feed of its own) at 500 K and 2 atm. No pair is asked twice of the same object, so every call
    has to ask the solver, for the problem of that pair."""
    I = Interp(repo)
    eq, r0, names, sp, comps, model = build(I, repo, net, form)
    if isinstance(r0, Raised):
        return                      # reported by the other instance
    cap, state = {}, {'outcome': OK_, 'n': 0}
    I.native['scipy.optimize.minimize'] = solver(cap, state, len(net))
    I.native['scipy.optimize.Bounds'] = bounds_object
    eq2, r2, _, sp2, _, _ = build(I, repo, net, form, feed='feed2_', tag='#2')
    plan = [(eq, sp, 'feed_', 500, 2, ''), (eq, sp, 'feed_', 500, 30, ', same temperature at another pressure'),
            (eq, sp, 'feed_', 800, 2, ', first pressure at another temperature'),
            (eq, sp, 'feed_', 800, 30, ', second temperature at the second pressure')]
    if not isinstance(r2, Raised):
        plan.append((eq2, sp2, 'feed2_', 500, 2, ', second object at the first conditions'))
    ks = []
    for obj, sp_, feed, t_, p_, how in plan:
        T, P = C(t_), C(p_)
        begin(cap)
        res = I.call_method(obj, 'get_net_comp', [], {'T': T, 'P': P})
        tag = ', scan at %d K and %d atm%s' % (t_, p_, how)
        if isinstance(res, Raised):
            run.fail('REF.result', 'Equilibrium.get_net_comp', 'result' + tag, '[%s] unexpected result %s'
                     % (label + tag, show(res)), owner.module, fn)
            continue
        ks.append(verify(run, I, obj, cap, res, (names, sp_, comps, owner, fn), feed, T, P, label, tag,
                         full and not how))
    ks = [k for k in ks if k is not None]
    run.check(all(same(k, ks[0]) for k in ks), 'DATAFLOW.solver-args', 'Equilibrium.get_net_comp',
              label + ', scan pressure', 'the pressure in the objective is not the same multiple of P in every call of '
              'the scan', owner.module, fn)


def sequence_instance(run, repo, net, form, label, owner, fn, mode, nruns):
    """a call that asks the solver more than once (restart from another guess, coarse solve + polish): the runs of
    one call have outcomes of their own. Whatever the code does with them, a failure is to be signalled iff the run
    whose amounts are handed out is one that failed. Decided on the first and on a second call of one object."""
    st, nit = mode
    bad = (False, st, nit)
    patterns = [('only the last of %d runs fails' % nruns, [OK_] * (nruns - 1) + [bad]),
                ('only the first of %d runs fails' % nruns, [bad] + [OK_] * (nruns - 1))]
    for j in range(1, nruns - 1):
        patterns.append(('only run %d of %d fails' % (j + 1, nruns), [OK_] * j + [bad] + [OK_] * (nruns - 1 - j)))
    for what, seq in patterns:
        I = Interp(repo)
        D = I.D
        eq, r0, names, sp, comps, model = build(I, repo, net, form)
        if isinstance(r0, Raised):
            return
        cap, state = {}, {'outcome': OK_, 'n': 0, 'seq': seq}
        I.native['scipy.optimize.minimize'] = solver(cap, state, len(net))
        I.native['scipy.optimize.Bounds'] = bounds_object
        for k, nth in (('', 'first'), ('2', 'second')):
            begin(cap)
            nw = len(I.warnings)
            res = I.call_method(eq, 'get_net_comp', [], {'T': D.sym('T' + k), 'P': D.sym('P' + k)})
            if isinstance(res, Raised):
                continue                    # an exception is a signal
            j = returned_run(cap, res)
            if j is None:
                continue                    # amounts of no run: reported by the other instance (REF.result)
            failed = not cap['recs'][j]['outcome'][0]
            sample = '[%s] %s, %s call: run %d of %d is handed out (%s)%s' % (
                label, what, nth, j + 1, len(cap['recs']), 'failed' if failed else 'succeeded',
                ' -> warning' if failed else '')
            if not failed:
                run.ok('PATH.solver-status', 'Equilibrium.get_net_comp', sample)
                continue
            run.check(len(I.warnings) > nw, 'PATH.solver-status', 'Equilibrium.get_net_comp',
                      'success=False in the run that is handed out, ' + what,
                      'get_net_comp asks the solver %d times; when %s (status %d, %s) the amounts handed out are those '
                      'of run %d, which failed, and the composition is returned without a warning or an exception: '
                      'the outcome of that run is not consulted (%s call of the object)'
                      % (len(cap['recs']), what, st, SLSQP_MESSAGES[st], j + 1, nth), owner.module, fn, sample=sample)


def thermdat_instance(run, repo, nlabel, net, mode, full):
    """the documented second constructor, Equilibrium.from_thermdat(thermdat, network), with the thermdat reader as an
    uninterpreted function that returns a fresh model (species objects named by the read) every time it is asked:
    the file of that name is whatever it is at the time of the call (another working directory, an edited file).
    Three objects - the same file name twice, then another name - each must hold the model of its own read: the
    objective handed to the solver has the Gibbs energies of that read's species; a failing run is signalled."""
    I = Interp(repo)
    D = I.D
    ci = repo.cls(EQ)
    owner, fn = repo.find_method(ci, 'from_thermdat')
    gowner, gfn = repo.find_method(ci, 'get_net_comp')
    got = repo.lookup(repo.module('pmutt.io.thermdat'), 'read_thermdat')
    if not (isinstance(got, tuple) and got[0] == 'function'):
        raise AnchorError('pmutt.io.thermdat.read_thermdat not found')
    names = [nm for nm, _ in net]
    comps = dict(net)
    reads = []

    def reader(I_, fr, args, kwargs, nd):
        ps = ('filename', 'format', 'key')
        if len(args) > len(ps) or any(k not in ps for k in kwargs) or any(p_ in kwargs for p_ in ps[:len(args)]):
            raise Unsupported('read_thermdat called with these arguments')
        vals = dict(zip(ps, args))
        vals.update(kwargs)
        fmt, key_ = vals.get('format', 'list'), vals.get('key', 'name')
        if 'filename' not in vals or fmt not in ('list', 'tuple', 'dict') or key_ != 'name':
            raise Unsupported('read_thermdat(format=%r, key=%r)' % (fmt, key_))
        sp = {}
        # a thermdat holds more species than the network names, in an order of its own; a species read from a file has
        # an entry for each of the four element fields of its record, explicit zeros included (C 0 O 1 H 2 N 0)
        fields = []
        for _, comp in net:
            fields.extend(e for e in comp if e not in fields)
        fields = (fields + ['Ar'])[:4] if len(fields) < 4 else fields
        for nm, comp in [(names[-1], comps[names[-1]]), ('Xe2', {'Xe': 2})] + list(net)[:-1]:
            o = opaque_obj(I_, '%s@read%d' % (nm, len(reads) + 1), {'get_GoRT': ('T',)})
            if nm != 'Xe2':
                comp = {e: comp.get(e, 0) for e in fields}
            o.attrs['elements'] = DictV({e: C(k) for e, k in comp.items()})
            o.attrs['name'] = nm
            sp[nm] = o
        reads.append((vals['filename'], sp))
        if fmt == 'dict':
            return DictV(dict(sp))
        out = ListV(list(sp.values()))
        if fmt == 'tuple':
            out.is_tuple = True
        return out
    I.opaque_funcs['%s.%s' % (got[1].name, got[2].name)] = reader
    cap, state = {}, {'outcome': OK_, 'n': 0}
    I.native['scipy.optimize.minimize'] = solver(cap, state, len(net))
    I.native['scipy.optimize.Bounds'] = bounds_object
    con = 'Equilibrium.from_thermdat'
    objs = []
    for k, (fname, positional) in enumerate((('thermdat', False), ('thermdat', True), ('thermdat_b', False))):
        feed = 'feed_' if k == 0 else 'feed%d_' % (k + 1)
        nth = ('first', 'second', 'third')[k]
        label = '%s, %s object built from %r' % (nlabel, nth, fname)
        network = DictV()
        for nm in names:
            network.d[nm] = D.sym(feed + nm)
        n0 = len(reads)
        a, kw = ([fname, network], {}) if positional else ([], {'thermdat': fname, 'network': network})
        eq = I.call_function(owner.module, fn, a, kw, self_obj=ci, owner=owner, name=owner.qual + '.from_thermdat')
        if isinstance(eq, Raised) or not isinstance(eq, Obj):
            run.fail('REF.constructor', con, label, '[%s] from_thermdat does not build the problem: %s'
                     % (label, show(eq, 120)), owner.module, fn)
            return
        if len(reads) == n0:
            run.fail('EFFECT.shared-state', con, '%s object, same file name' % nth if k == 1 else '%s object' % nth,
                     '[%s] the thermdat reader is not asked for this object: the model is not the content of the file '
                     '%r at the time of this call, it was remembered from an earlier call under the name as given '
                     '(another working directory, an edited file)' % (label, fname), owner.module, fn)
            continue
        run.check(all(rd[0] == fname for rd in reads[n0:]), 'DATAFLOW.call-args', con, '%s object file name' % nth,
                  '[%s] the reader is asked for %s' % (label, show([rd[0] for rd in reads[n0:]], 80)), owner.module, fn,
                  sample='[%s] read_thermdat is asked for the file name handed in' % label)
        # the read of this call whose species the object holds (the last one when it holds those of none)
        held = pub(eq, 'model')
        held = list(held.d.values()) if isinstance(held, DictV) else list(held.items) if isinstance(held, ListV) else []
        mine = [rd for rd in reads[n0:] if any(h_ is o for h_ in held for o in rd[1].values())] or [reads[-1]]
        objs.append((eq, feed, mine[-1][1], label))
    # asked after all of them were built, in another order than they were built
    for k, (eq, feed, sp, label) in enumerate(reversed(objs)):
        ctx = (names, sp, comps, gowner, gfn)
        T, P = D.sym('T%d' % k), D.sym('P%d' % k)
        begin(cap)
        nw = len(I.warnings)
        res = I.call_method(eq, 'get_net_comp', [], {'T': T, 'P': P})
        verify(run, I, eq, cap, res, ctx, feed, T, P, label, '', full)
        if not isinstance(res, Raised):
            run.check(len(I.warnings) == nw, 'PATH.solver-status', 'Equilibrium.get_net_comp',
                      'success=True, object built from a thermdat',
                      'a warning is raised although the solver succeeded', gowner.module, gfn)
    if objs:
        st, nit = mode
        state['outcome'] = (False, st, nit)
        eq = objs[-1][0]
        begin(cap)
        nw = len(I.warnings)
        res = I.call_method(eq, 'get_net_comp', [], {'T': D.sym('Tf'), 'P': D.sym('Pf')})
        run.check(isinstance(res, Raised) or len(I.warnings) > nw, 'PATH.solver-status', 'Equilibrium.get_net_comp',
                  'success=False, object built from a thermdat',
                  'the solver reports failure (status %d, %s) for an object built by from_thermdat and the '
                  'composition is returned without a warning or an exception' % (st, SLSQP_MESSAGES[st]),
                  gowner.module, gfn, sample='[%s] failing run on an object built by from_thermdat -> warning or '
                  'exception' % nlabel)


def failure_instance(run, repo, net, form, label, owner, fn, mode, seen, more=True):
    """the solver fails (one documented exit mode of SLSQP) in every run: three calls on one object at different
    conditions and one on a second object - each must be signalled. Returns the largest number of solver runs one
    call asked for."""
    st, nit = mode
    I = Interp(repo)
    D = I.D
    eq, r0, names, sp, comps, model = build(I, repo, net, form)
    if isinstance(r0, Raised):
        return 0                    # reported by the other instance
    cap, state = {}, {'outcome': (False, st, nit), 'n': 0}
    I.native['scipy.optimize.minimize'] = solver(cap, state, len(net))
    I.native['scipy.optimize.Bounds'] = bounds_object
    mode_key = 'success=False, status=%d (%s)' % (st, SLSQP_MESSAGES[st])
    what = '%s, %s' % (mode_key, 'few iterations' if nit is not None else 'as many iterations as the limit handed over')

    nruns = [0]

    def ask(obj, k):
        begin(cap)
        nw = len(I.warnings)
        res = I.call_method(obj, 'get_net_comp', [], {'T': D.sym('T%s' % k), 'P': D.sym('P%s' % k)})
        nruns[0] = max(nruns[0], len(cap.get('recs', ())))
        return isinstance(res, Raised) or len(I.warnings) > nw
    first = ask(eq, '')
    if not first:
        # one finding for "the outcome is not consulted"; a finding of its own for an exit mode that alone is missed
        generic = mode == FAILURE_MODES[0] or seen.get('generic')
        seen['generic'] = seen.get('generic') or mode == FAILURE_MODES[0]
        run.fail('PATH.solver-status', 'Equilibrium.get_net_comp', 'success=False' if generic else mode_key,
                 'the solver reports failure (%s) but the composition is returned without a warning or an exception: '
                 'the outcome of the optimisation is not consulted%s' % (what, '' if generic else ' for this exit mode'),
                 owner.module, fn)
        return nruns[0]
    run.ok('PATH.solver-status', 'Equilibrium.get_net_comp',
           '[%s] minimize(...) -> %s -> warning or exception' % (label, what))
    if not more:
        return nruns[0]
    for k, nth in (('2', 'second'), ('3', 'third')):
        run.check(ask(eq, k), 'PATH.solver-status', 'Equilibrium.get_net_comp',
                  'success=False, %s call on the same object' % nth,
                  'the solver fails again (%s) on the %s call of the same object (other conditions) and this time the '
                  'composition is returned without a warning or an exception' % (what, nth), owner.module, fn,
                  sample='[%s] %s failing call on one object -> warning or exception' % (label, nth))
    eq2, r2, _, _, _, _ = build(I, repo, net, form, feed='feed2_', sp=sp, model=model)
    if isinstance(r2, Raised):
        return nruns[0]
    run.check(ask(eq2, ''), 'PATH.solver-status', 'Equilibrium.get_net_comp', 'success=False, second object',
              'the solver fails (%s) for a second object at conditions at which it had failed for another object, and '
              'the composition is returned without a warning or an exception' % what, owner.module, fn,
              sample='[%s] failing call on a second object -> warning or exception' % label)
    return nruns[0]


def check(run, repo):
    run.explanation = (
        'Narrow claim: the parts of C16 whose truth is in the shape of the code. Equilibrium.get_net_comp is '
        'interpreted with scipy.optimize.minimize as an uninterpreted solver that records what it is given and returns '
        'a result object (a mapping whose items are also attributes, with the members of an SLSQP result): (a) when '
        'the solver fails a warning or an exception must be produced before the result is returned - for every exit '
        'mode SLSQP documents (status 1-9, few iterations and as many as the limit handed over, scipy\'s message), on '
        'the first, second and third failing call of one object, on a second object, and on a failing call after '
        'successful ones; a successful call is silent, also after a failed one; when one call asks the solver several '
        'times (restart, polish) the runs get outcomes of their own (only the last fails, only the first fails, only '
        'one in between) and a signal is due whenever the run whose amounts are handed out is one that failed; (b) the '
        'objective handed over is '
        'sum x_i (g_i + ln(x_i p/n)) with g_i the species\' own G/RT at T in the order of the amounts and p a constant '
        'multiple of P (the same in every call), and the Jacobian handed over (a callable - function, method, lambda, '
        'instance with __call__ - or the second member of the '
        'pair the objective returns with jac=True) is its exact gradient (symbolic differentiation, 2-5 species); (c) '
        'the equality constraints (called with the args entry of their dictionary, like scipy does; one dictionary or '
        'one per element) are the element balances x.M - feed.M-totals '
        'over the element matrix, one per element, their Jacobian is M transposed (the '
        'derivative of the constraint); a constraint of any other type is refused (not judged); (d) the lower bound of every amount is a positive constant; (e) the returned '
        'amounts are the amounts of a run of this call as the solver handed them out (by value; what the caller does to '
        'the solver\'s array in place is not part of the reference) and the mole fractions are x / sum(x) of them. '
        '(b)-(e) are decided for the run that is handed out: in the first call, in a second call of the same object at '
        'other conditions, in a call at the first temperature and another pressure and one at the first pressure and '
        'another temperature (a memo that lacks one of the two; the same as a scan at concrete conditions, 500/800 K '
        'and 2/30 atm, where a table keyed by one number is decidable), in a call after a '
        'failed call, for a second object that has species objects of its own under the same names and a feed of its '
        'own at the conditions of the '
        'first, and for the first object again after that (state shared between calls or objects: caches, flags, class '
        'attributes, module-level tables keyed by species name). The problems are built '
        'through the public constructor for five networks over 1-4 elements with concrete compositions and symbolic '
        'feeds, with the model in the order of the network and in another order with a species the network does not '
        'name (dict and list). (f) Equilibrium.__init__ itself: element list, element matrix (atoms of element j in '
        'species i), feed element totals and molar masses (read through their public names), in both species orders '
        'and with the permuted models. (g) Equilibrium.from_thermdat with the thermdat reader as an uninterpreted '
        'function that returns a fresh model per call: three objects (one file name twice, then another) each hold the '
        'model of their own read - the reader is asked once per object for the name handed in, the objective has the '
        'Gibbs energies of that read; the species of a read carry explicit zero counts like those of a real thermdat - '
        'and a failing run on such an object is signalled. A '
        'warning counts as a signal only if no filter installed by the package (module level, an enclosing '
        'catch_warnings block, or a call made on the way) discards it.')
    run.assumptions = ['scipy.optimize.minimize is an uninterpreted solver; SLSQP behaviour is not modelled',
                       'method, tolerance (ftol) and iteration limit asked of the solver are recorded, not judged']
    run.undecided = ['atom conservation, optimality and order independence of the returned composition as numeric '
                     'facts (SLSQP)', 'reaction equilibrium within solver tolerance',
                     'whether the tolerance / iteration limit asked of SLSQP suffice: the property names no tolerance '
                     '("within solver tolerance") and the package documents none, so no bound separates an adequate '
                     'request from a loose one without running the solver',
                     'SLSQP reporting success away from the optimum (linearly dependent element columns)']
    ci = repo.cls(EQ)
    for m_ in ('get_net_comp', '__init__', 'from_thermdat'):
        run.fn(EQ + '.' + m_)
    owner, fn = repo.find_method(ci, 'get_net_comp')
    thorough = run.tier == 'thorough'
    combos = list(itertools.product(NETWORKS, MODEL_FORMS))
    seen = {}
    nfail = 0
    nruns = 0
    # concrete conditions first (numbers decide what symbols leave open: whether two temperatures are the same key)
    for ic, ((nlabel, net), form) in enumerate(combos):
        if thorough or (ic // len(MODEL_FORMS)) % len(MODEL_FORMS) == ic % len(MODEL_FORMS):
            scan_instance(run, repo, net, form, '%s, %s' % (nlabel, form), owner, fn, thorough)
    for ic, ((nlabel, net), form) in enumerate(combos):
        label = '%s, %s' % (nlabel, form)
        # quick: every exit mode on one of the problems (each problem has at least one); thorough: all on all
        # (the later calls and the second object: with every third mode)
        mine = [(k, m) for k, m in enumerate(FAILURE_MODES) if thorough or k % len(combos) == ic]
        for k, mode in mine:
            nruns = max(nruns, failure_instance(run, repo, net, form, label, owner, fn, mode, seen,
                                                more=thorough or k % 3 == 0))
            nfail += 1
        # quick: the calls after the second and the second object for one form of the model per network (every form
        # on some network), callbacks applied in full on the first call only
        extras = thorough or (ic // len(MODEL_FORMS)) % len(MODEL_FORMS) == ic % len(MODEL_FORMS)
        nruns = max(nruns, success_instance(run, repo, net, form, label, owner, fn,
                                            FAILURE_MODES[(ic + 5) % len(FAILURE_MODES)], thorough, extras))
    run.floor('solver failure instances', nfail, len(FAILURE_MODES))
    if nruns > 1:
        # a call asks the solver more than once: the runs of one call get outcomes of their own
        if nruns > 6:
            raise Unsupported('get_net_comp asks the solver %d times in one call' % nruns)
        for ic, ((nlabel, net), form) in enumerate(combos):
            if thorough or (ic // len(MODEL_FORMS)) % len(MODEL_FORMS) == ic % len(MODEL_FORMS):
                sequence_instance(run, repo, net, form, '%s, %s' % (nlabel, form), owner, fn,
                                  FAILURE_MODES[(ic + 2) % len(FAILURE_MODES)], nruns)
    for k, (nlabel, net) in enumerate(NETWORKS):
        if thorough or k == 2:
            thermdat_instance(run, repo, nlabel, net, FAILURE_MODES[(k + 7) % len(FAILURE_MODES)], thorough)
    constructor(run, repo)


NETWORKS = [
    ('1 element', [('O2', {'O': 2}), ('O3', {'O': 3}), ('O', {'O': 1})]),
    ('2 elements', [('N2', {'N': 2}), ('H2', {'H': 2}), ('NH3', {'N': 1, 'H': 3})]),
    ('3 elements', [('CO', {'C': 1, 'O': 1}), ('CO2', {'C': 1, 'O': 2}), ('H2', {'H': 2}), ('H2O', {'H': 2, 'O': 1}),
                    ('CH4', {'C': 1, 'H': 4})]),
    ('4 elements', [('HCN', {'H': 1, 'C': 1, 'N': 1}), ('N2', {'N': 2}), ('H2O', {'H': 2, 'O': 1}),
                    ('CO', {'C': 1, 'O': 1}), ('NH3', {'N': 1, 'H': 3})]),
    ('2 elements, 2 species', [('H2', {'H': 2}), ('HF', {'H': 1, 'F': 1})]),
]


def constructor(run, repo):
    """Equilibrium.__init__ interpreted for concrete compositions and symbolic feeds: element list, element matrix,
    feed totals and molar masses for networks over 1-4 elements, in both species orders"""
    from .c12 import module_tables
    ci = repo.cls(EQ)
    owner, fn = repo.find_method(ci, '__init__')
    cm = repo.module('pmutt.constants')
    if 'atomic_weight' not in cm.assigns:
        raise AnchorError('pmutt.constants.atomic_weight not found')
    # the table as it stands once pmutt.constants has been imported (a literal, entries added afterwards, rows derived
    # from other rows - however the module spells it); its numbers are C12's business
    aw = module_tables(repo, cm, ['atomic_weight'])['atomic_weight']
    for _, net in NETWORKS:
        for _, comp in net:
            for e in comp:
                if e not in aw:
                    raise AnchorError('pmutt.constants.atomic_weight has no entry for %r' % (e,))
    n = 0
    for label0, net in NETWORKS:
        for rev, as_list, perm in ((False, False, False), (True, False, False), (False, True, False),
                                   (False, False, True), (True, True, True)):
            label = label0
            order = list(reversed(net)) if rev else list(net)
            I = Interp(repo)
            D = I.D
            model = DictV()
            network = DictV()
            # the model may hold the species in another order than the network, and species the network does not name
            m_order = order if not perm else [order[-1], ('Xe2', {'Xe': 2})] + order[:-1]
            for nm, comp in m_order:
                sp = opaque_obj(I, nm, {'get_GoRT': ('T',)})
                sp.attrs['elements'] = DictV({e: C(k) for e, k in comp.items()})
                sp.attrs['name'] = nm
                model.d[nm] = sp
            for nm, comp in order:
                network.d[nm] = D.sym('feed_' + nm)
            key = '%s%s%s%s' % (label, ', reversed' if rev else '', ', species given as a list' if as_list else '',
                                ', model in another order with a species more' if perm else '')
            if as_list:
                label = label + ' [species list]'
            if perm:
                label = label + ' [model permuted]'
            eq = r = I.construct(ci, [], {'model': ListV(list(model.d.values())) if as_list else model,
                                          'network': network}, name='eq')
            n += 1
            if isinstance(r, Raised):
                run.fail('REF.constructor', 'Equilibrium.__init__', label,
                         '[%s] building the problem for species %s raises %s' % (key, [x for x, _ in order], r.exc),
                         owner.module, r.node if getattr(r, 'node', None) is not None else fn)
                continue
            els = []
            for _, comp in order:
                for e in comp:
                    if e not in els:
                        els.append(e)
            # the documented attributes as a user reads them (a property backed by a private field is the same attribute)
            got_el = pub(eq, 'elements')
            got_M = pub(eq, 'mol_elem')
            got_F = pub(eq, 'ele_feed')
            got_W = pub(eq, 'species_mw')
            ok = isinstance(got_el, ListV) and [I.plain(x) for x in got_el.items] == els
            run.check(ok, 'REF.constructor', 'Equilibrium.__init__', label + ' elements',
                      '[%s] element list is %s, expected %s' % (key, show(got_el, 80), els), owner.module, fn)
            if not ok:
                continue
            okM = isinstance(got_M, ListV) and len(got_M) == len(order) and all(
                isinstance(row, ListV) and len(row) == len(els) and
                all(isinstance(v, Rat) and v.eq(C(comp.get(e, 0))) for v, e in zip(row.items, els))
                for row, (_, comp) in zip(got_M.items, order))
            run.check(okM, 'REF.constructor', 'Equilibrium.__init__', label + ' element matrix',
                      '[%s] element matrix is %s' % (key, show(got_M, 160)), owner.module, fn,
                      sample='[%s] mol_elem[i][j] == atoms of element j in species i' % key)
            want_F = [sum((D.sym('feed_' + nm) * comp.get(e, 0) for nm, comp in order), C(0)) for e in els]
            okF = isinstance(got_F, ListV) and len(got_F) == len(els) and all(
                isinstance(v, Rat) and v.eq(w) for v, w in zip(got_F.items, want_F))
            run.check(okF, 'REF.constructor', 'Equilibrium.__init__', label + ' feed totals',
                      '[%s] feed element totals are %s' % (key, show(got_F, 160)), owner.module, fn)
            want_W = [sum((Fr(comp.get(e, 0)) * aw[e] for e in els), Fr(0)) for _, comp in order]
            okW = isinstance(got_W, ListV) and len(got_W) == len(order) and all(
                isinstance(v, Rat) and v.eq(C(w)) for v, w in zip(got_W.items, want_W))
            run.check(okW, 'REF.constructor', 'Equilibrium.__init__', label + ' molar masses',
                      '[%s] species molar masses are %s' % (key, show(got_W, 160)), owner.module, fn)
    run.floor('constructor networks', n, 25)


E_ = 'pmutt/equilibrium/_equilibrium.py'
_POLISH = (
    "        sol = minimize(self._objective, sol.x,\n                       args=(self.gibbs, self.P*1.01325),\n"
    "                       jac=self._objective_jac,\n                       method='SLSQP',\n"
    "                       options={'ftol': 1e-14, 'maxiter': self.maxiter},\n"
    "                       bounds=self.bounds,\n                       constraints=self.con)\n")
_CON_ARGS = [
    (E_, "    def _constraints1_eq(self, x):\n        s = x.dot(self.mol_elem) - self.ele_feed",
     "    def _constraints1_eq(self, x, ele_feed):\n        s = x.dot(self.mol_elem) - ele_feed"),
    (E_, "    def _constraints1_eq_jac(self, x):\n", "    def _constraints1_eq_jac(self, x, *args):\n"),
    (E_, "                    'jac': self._constraints1_eq_jac}",
     "                    'jac': self._constraints1_eq_jac,\n                    'args': (self.ele_feed,)}")]
_CON_OLD = ("        self.con = {'type': 'eq', 'fun': self._constraints1_eq,\n"
            "                    'jac': self._constraints1_eq_jac}\n")
_CON_PER = ("        self.con = [{'type': 'eq',\n"
            "                     'fun': lambda x, j=j: x.dot(self.mol_elem[:, j]) - self.ele_feed[j],\n"
            "                     'jac': lambda x, j=j: self.mol_elem[:, j]}\n"
            "                    for j in range(len(self.elements))]\n")
_CALLABLE = (
    "class _GibbsEnergy():\n\n    def __init__(self, gibbs, p):\n        self.g = np.array(gibbs)\n        self.p = p\n\n"
    "    def __call__(self, x):\n        s = 0.0\n        nT = sum(x)\n        for i in range(len(x)):\n"
    "            s += x[i]*(self.g[i] + np.log(x[i]*self.p/nT))\n        return s\n\n"
    "    def jac(self, x):\n        s = np.zeros_like(x)\n        nT = sum(x)\n        for i in range(len(x)):\n"
    "            s[i] = self.g[i] + np.log(x[i]*self.p/nT)\n        return s\n\n\n")
MUTANTS = [
    {'name': 'jacobian misses the log term pressure', 'expect': ('DERIV.objective-jac', '_objective_jac'),
     'edits': [(E_, '            s[i] = g[i] + np.log(x[i] * p / nT)', '            s[i] = g[i] + np.log(x[i] / nT)')]},
    {'name': 'constraint jac not transposed', 'expect': ('DERIV.constraint-jac', '_constraints1_eq_jac'),
     'edits': [(E_, '        return self.mol_elem.T', '        return self.mol_elem')]},
    {'name': 'mole fractions divided by feed total', 'expect': ('REF.mole-fractions', 'get_net_comp'),
     'edits': [(E_, 'sol.x / np.sum(sol.x)', 'sol.x / np.sum(self.ele_feed)')]},
    {'name': 'constraint sign', 'expect': ('', '_constraints1_eq'),
     'edits': [(E_, '        s = x.dot(self.mol_elem) - self.ele_feed', '        s = x.dot(self.mol_elem) + self.ele_feed')]},
    {'name': 'lower bound zero in a Bounds object', 'expect': ('REF.bounds', 'get_net_comp'),
     'edits': [(E_, "from scipy.optimize import minimize\n", "from scipy.optimize import minimize, Bounds\n"),
               (E_, "        self.bounds = list(repeat(b, len(self.species)))",
                "        self.bounds = Bounds(0., b[1])")]},
    {'name': 'lower bound zero', 'expect': ('REF.bounds', 'get_net_comp'),
     'edits': [(E_, '        b = [1e-20, sum(self.ele_feed)]', '        b = [0., sum(self.ele_feed)]')]},
    {'name': 'module-level filter discards the runtime warnings of the module', 'expect': ('PATH.solver-status', 'get_net_comp'),
     'edits': [(E_, 'warnings.filterwarnings("ignore", "Values in x were outside bounds during a ")\n',
                'warnings.filterwarnings("ignore", "Values in x were outside bounds during a ")\n'
                'warnings.filterwarnings("ignore", category=RuntimeWarning, module=r"pmutt\\.equilibrium")\n')]},
    {'name': 'status test inside a block that ignores all warnings', 'expect': ('PATH.solver-status', 'get_net_comp'),
     'edits': [(E_, "        if not sol.success:\n", "        with warnings.catch_warnings():\n          warnings.simplefilter('ignore')\n          if not sol.success:\n"),
               (E_, "            warnings.warn(warn_msg, RuntimeWarning)\n", "            warnings.warn(warn_msg, RuntimeWarning)\n          pass\n")]},
    {'name': 'species order taken from the model list', 'expect': ('', 'Equilibrium'),
     'edits': [(E_, "        self.species = list(self.network.keys())\n",
                "        self.species = [s_.name for s_ in model if s_.name in self.network] if type(model) is list else list(self.network.keys())\n")]},
    {'name': 'Gibbs energies collected in the order of the model', 'expect': ('REF.objective', ''),
     'edits': [(E_, "        for x in self.species:\n            self.gibbs.append(self.model[x].get_GoRT(T=T))",
                "        for x in self.model:\n          if x in self.species:\n            self.gibbs.append(self.model[x].get_GoRT(T=T))")]},
    {'name': 'feed taken in the order of the model', 'expect': ('REF.constructor', '__init__'),
     'edits': [(E_, "        feed = np.array(list(network.values()))", "        feed = np.array([network[k_] for k_ in self.model if k_ in network])")]},
    # ---- white-box round 2: state between calls and between objects, the exit modes of the solver
    {'name': 'module-level ignore-filter under `if not sys.warnoptions:`', 'expect': ('PATH.solver-status', 'get_net_comp'),
     'edits': [(E_, 'warnings.filterwarnings("ignore", "Values in x were outside bounds during a ")\n',
                'warnings.filterwarnings("ignore", "Values in x were outside bounds during a ")\n'
                'if not sys.warnoptions:\n'
                '    warnings.filterwarnings("ignore", category=RuntimeWarning, module=r"pmutt\\.equilibrium")\n')]},
    {'name': 'non-convergence warned once per object', 'expect': ('PATH.solver-status', 'get_net_comp'),
     'edits': [(E_, "        self.network = network\n", "        self.network = network\n        self._warned = False\n"),
               (E_, "        if not sol.success:\n", "        if not sol.success and not self._warned:\n            self._warned = True\n")]},
    {'name': 'non-convergence warned once per (T, P) in a table of the class', 'expect': ('PATH.solver-status', 'get_net_comp'),
     'edits': [(E_, "    def __init__(self,\n                 model,", "    _told = {}\n\n    def __init__(self,\n                 model,"),
               (E_, "        if not sol.success:\n",
                "        try:\n            self._told[(T, P)]\n            told = True\n        except KeyError:\n"
                "            told = False\n            self._told[(T, P)] = 1\n        if not sol.success and not told:\n")]},
    {'name': 'a failure is remembered: every later call warns', 'expect': ('PATH.solver-status', 'get_net_comp'),
     'edits': [(E_, "        if not sol.success:\n",
                "        self._bad = getattr(self, '_bad', False) or not sol.success\n        if self._bad:\n")]},
    {'name': 'status test on the iteration-limit code only', 'expect': ('PATH.solver-status', 'get_net_comp'),
     'edits': [(E_, "        if not sol.success:\n", "        if sol.status == 9:\n")]},
    {'name': 'status test on the number of iterations and the iteration-limit code', 'expect': ('PATH.solver-status', 'get_net_comp'),
     'edits': [(E_, "        if not sol.success:\n", "        if sol.nit >= self.maxiter or sol.status == 9:\n")]},
    {'name': 'result cache by (T, P) kept in the class', 'expect': ('EFFECT.shared-state', 'get_net_comp'),
     'edits': [(E_, "    def __init__(self,\n                 model,", "    _solved = {}\n\n    def __init__(self,\n                 model,"),
               (E_, "        self.T = T\n        # Model initialization parameters\n",
                "        self.T = T\n        try:\n            return self._solved[(T, P)]\n        except KeyError:\n            pass\n"),
               (E_, "        return res(self.species, sol.x, sol.x/np.sum(sol.x), self.P, self.T)",
                "        self._solved[(T, P)] = res(self.species, sol.x, sol.x/np.sum(sol.x), self.P, self.T)\n"
                "        return self._solved[(T, P)]")]},
    {'name': 'amounts of the first call handed out again', 'expect': ('REF.result', 'get_net_comp'),
     'edits': [(E_, "        return res(self.species, sol.x, sol.x/np.sum(sol.x), self.P, self.T)",
                "        self._x = getattr(self, '_x', sol.x)\n"
                "        return res(self.species, self._x, sol.x/np.sum(sol.x), self.P, self.T)")]},
    # ---- white-box round 3: several runs in one call, memos that lack a key, the second constructor
    {'name': 'polishing run below the status test, its outcome never consulted', 'expect': ('PATH.solver-status', 'get_net_comp'),
     'edits': [(E_, '        res = namedtuple("res"', _POLISH + '        res = namedtuple("res"')]},
    {'name': 'result memo of the object keyed by the temperature alone', 'expect': ('EFFECT.shared-state', 'get_net_comp'),
     'edits': [(E_, "        self.network = network\n", "        self.network = network\n        self._solved = {}\n"),
               (E_, "        self.T = T\n        # Model initialization parameters\n",
                "        self.T = T\n        try:\n            return self._solved[T]\n        except KeyError:\n            pass\n"),
               (E_, "        return res(self.species, sol.x, sol.x/np.sum(sol.x), self.P, self.T)",
                "        self._solved[T] = res(self.species, sol.x, sol.x/np.sum(sol.x), self.P, self.T)\n"
                "        return self._solved[T]")]},
    {'name': 'result memo of the object keyed by the pressure alone', 'expect': ('EFFECT.shared-state', 'get_net_comp'),
     'edits': [(E_, "        self.network = network\n", "        self.network = network\n        self._solved = {}\n"),
               (E_, "        self.T = T\n        # Model initialization parameters\n",
                "        self.T = T\n        try:\n            return self._solved[P]\n        except KeyError:\n            pass\n"),
               (E_, "        return res(self.species, sol.x, sol.x/np.sum(sol.x), self.P, self.T)",
                "        self._solved[P] = res(self.species, sol.x, sol.x/np.sum(sol.x), self.P, self.T)\n"
                "        return self._solved[P]")]},
    {'name': 'G/RT memo of the module keyed by species name and temperature', 'expect': ('REF.objective', ''),
     'edits': [(E_, "class Equilibrium():\n", "_GORT = {}\n\n\nclass Equilibrium():\n"),
               (E_, "            self.gibbs.append(self.model[x].get_GoRT(T=T))",
                "            try:\n                g = _GORT[(x, T)]\n            except KeyError:\n"
                "                g = _GORT[(x, T)] = self.model[x].get_GoRT(T=T)\n            self.gibbs.append(g)")]},
    {'name': 'from_thermdat remembers parsed files by the name as given', 'expect': ('EFFECT.shared-state', 'from_thermdat'),
     'edits': [(E_, "class Equilibrium():\n", "_THERMDATS = {}\n\n\nclass Equilibrium():\n"),
               (E_, '        model = read_thermdat(thermdat, "dict")\n',
                '        try:\n            model = _THERMDATS[thermdat]\n        except KeyError:\n'
                '            model = _THERMDATS[thermdat] = read_thermdat(thermdat, "dict")\n')]},
    {'name': 'from_thermdat remembers parsed files in a table of the class', 'expect': ('EFFECT.shared-state', 'from_thermdat'),
     'edits': [(E_, "    def __init__(self,\n                 model,", "    _thermdats = {}\n\n    def __init__(self,\n                 model,"),
               (E_, '        model = read_thermdat(thermdat, "dict")\n',
                '        try:\n            model = cls._thermdats[thermdat]\n        except KeyError:\n'
                '            model = cls._thermdats[thermdat] = read_thermdat(thermdat, "dict")\n')]},
    {'name': 'ignore-filter installed in a module-level for loop', 'expect': ('PATH.solver-status', 'get_net_comp'),
     'edits': [(E_, 'warnings.filterwarnings("ignore", "Values in x were outside bounds during a ")\n',
                'warnings.filterwarnings("ignore", "Values in x were outside bounds during a ")\n'
                'for _category in (RuntimeWarning, FutureWarning):\n'
                '    warnings.filterwarnings("ignore", category=_category, module=r"pmutt\\.equilibrium")\n')]},
    {'name': 'ignore-filter installed by a helper that is run at import', 'expect': ('PATH.solver-status', 'get_net_comp'),
     'edits': [(E_, 'warnings.filterwarnings("ignore", "Values in x were outside bounds during a ")\n',
                'warnings.filterwarnings("ignore", "Values in x were outside bounds during a ")\n\n\n'
                'def _quiet():\n    warnings.filterwarnings("ignore", category=RuntimeWarning, module=r"pmutt\\.equilibrium")\n'
                '\n\n_quiet()\n')]},
    {'name': 'ignore-filter installed in the class body', 'expect': ('PATH.solver-status', 'get_net_comp'),
     'edits': [(E_, "    def __init__(self,\n                 model,",
                '    warnings.filterwarnings("ignore", category=RuntimeWarning, module=r"pmutt\\.equilibrium")\n\n'
                "    def __init__(self,\n                 model,")]},
    {'name': 'from_thermdat switches the runtime warnings off', 'expect': ('PATH.solver-status', 'get_net_comp'),
     'edits': [(E_, '        model = read_thermdat(thermdat, "dict")\n',
                '        warnings.filterwarnings("ignore", category=RuntimeWarning)\n'
                '        model = read_thermdat(thermdat, "dict")\n')]},
    {'name': 'from_thermdat reads a file of another name', 'expect': ('DATAFLOW.call-args', 'from_thermdat'),
     'edits': [(E_, '        model = read_thermdat(thermdat, "dict")\n',
                '        model = read_thermdat(thermdat + ".txt", "dict")\n')]},
    {'name': 'the solver\'s amounts scaled in place before they are handed out', 'expect': ('REF.result', 'get_net_comp'),
     'edits': [(E_, '        res = namedtuple("res"', '        sol.x *= 2.0\n        res = namedtuple("res"')]},
    {'name': 'amounts normalised in place: fractions handed out as amounts', 'expect': ('REF.result', 'get_net_comp'),
     'edits': [(E_, "        return res(self.species, sol.x, sol.x/np.sum(sol.x), self.P, self.T)",
                "        mole_frac = sol.x\n        mole_frac /= np.sum(mole_frac)\n"
                "        return res(self.species, sol.x, mole_frac, self.P, self.T)")]},
    {'name': 'feed totals of the constraint handed over through args, with the feed amounts instead of the totals',
     'expect': ('REF.constraint', ''),
     'edits': _CON_ARGS[:2] + [(E_, "                    'jac': self._constraints1_eq_jac}",
                                "                    'jac': self._constraints1_eq_jac,\n"
                                "                    'args': (self.ele_feed*2,)}")]},
    {'name': 'columns of elements that no species of the network contains are kept (explicit zero counts of a thermdat)',
     'expect': ('REF.constraint', ''),
     'edits': [(E_, "        self.elements = list(np.array(self.elements)\n                             [sum(self.mol_elem, 0) > 0])\n"
                "        self.mol_elem = self.mol_elem[:, sum(self.mol_elem, 0) > 0]\n", "")]},
    {'name': 'one constraint dictionary per element, the last element left out', 'expect': ('DATAFLOW.solver-args', 'get_net_comp'),
     'edits': [(E_, _CON_OLD, _CON_PER.replace("range(len(self.elements))", "range(len(self.elements) - 1)"))]},
]
_PAIR = (
    "    def _objective_and_jac(self, x, *args):\n        mu = np.zeros_like(x)\n        s = 0.0\n        nT = sum(x)\n"
    "        g = np.array(args[0])\n        p = args[1]\n        for i in range(len(x)):\n"
    "            mu[i] = g[i] + np.log(x[i]*p/nT)\n            s += x[i]*mu[i]\n        return s, mu\n\n")
EQUIV = [
    # white-box round 2, part B, and the harmless twins of the mutants above
    {'name': 'amounts handed out as a copy of the solver\'s array',
     'edits': [(E_, "        return res(self.species, sol.x, sol.x/np.sum(sol.x), self.P, self.T)",
                "        moles = np.array(sol.x)\n        return res(self.species, moles, moles/np.sum(moles), self.P, self.T)")]},
    {'name': 'objective and gradient from one function, jac=True',
     'edits': [(E_, "    # Elemental Balance Equality Constraint. The returned value\n",
                _PAIR + "    # Elemental Balance Equality Constraint. The returned value\n"),
               (E_, "        sol = minimize(self._objective, self.guess,", "        sol = minimize(self._objective_and_jac, self.guess,"),
               (E_, "                       jac=self._objective_jac,", "                       jac=True,")]},
    {'name': 'the optimisation result read as a dictionary',
     'edits': [(E_, "        if not sol.success:\n", "        if not sol['success']:\n"),
               (E_, "'composition.'.format(sol.message))", "'composition.'.format(sol['message']))"),
               (E_, "        return res(self.species, sol.x, sol.x/np.sum(sol.x), self.P, self.T)",
                "        moles = sol['x']\n        return res(self.species, moles, moles/np.sum(moles), self.P, self.T)")]},
    {'name': 'Gibbs energies and pressure reach the callbacks through closures instead of args',
     'edits': [(E_, "        sol = minimize(self._objective, self.guess,\n                       args=(self.gibbs, self.P*1.01325),\n"
                "                       jac=self._objective_jac,\n",
                "        gibbs, p_bar = self.gibbs, self.P*1.01325\n"
                "        sol = minimize(lambda x: self._objective(x, gibbs, p_bar), self.guess,\n"
                "                       jac=lambda x: self._objective_jac(x, gibbs, p_bar),\n")]},
    {'name': 'result cache by (T, P) kept in the object',
     'edits': [(E_, "        self.network = network\n", "        self.network = network\n        self._solved = {}\n"),
               (E_, "        self.T = T\n        # Model initialization parameters\n",
                "        self.T = T\n        try:\n            return self._solved[(T, P)]\n        except KeyError:\n            pass\n"),
               (E_, "        return res(self.species, sol.x, sol.x/np.sum(sol.x), self.P, self.T)",
                "        self._solved[(T, P)] = res(self.species, sol.x, sol.x/np.sum(sol.x), self.P, self.T)\n"
                "        return self._solved[(T, P)]")]},
    {'name': 'bounds handed over as a scipy.optimize.Bounds object',
     'edits': [(E_, "from scipy.optimize import minimize\n", "from scipy.optimize import minimize, Bounds\n"),
               (E_, "        self.bounds = list(repeat(b, len(self.species)))",
                "        self.bounds = Bounds([b[0]]*len(self.species), [b[1]]*len(self.species))")]},
    {'name': 'status test spelled sol.status != 0',
     'edits': [(E_, "        if not sol.success:\n", "        if sol.status != 0:\n")]},
    # white-box round 3, part B, and the harmless twins of the round-3 mutants
    {'name': 'temperature handed to get_GoRT positionally',
     'edits': [(E_, "self.model[x].get_GoRT(T=T)", "self.model[x].get_GoRT(T)")]},
    {'name': 'ele_feed a property backed by a private field',
     'edits': [(E_, "    # Objective (Cost) Function: Summ of Gibb's Free Energies\n",
                "    @property\n    def ele_feed(self):\n        return self._ele_feed\n\n"
                "    @ele_feed.setter\n    def ele_feed(self, val):\n        self._ele_feed = val\n\n"
                "    # Objective (Cost) Function: Summ of Gibb's Free Energies\n")]},
    {'name': 'feed totals handed to the constraint through the args entry of the constraint dictionary',
     'edits': list(_CON_ARGS)},
    {'name': 'objective and gradient in a callable class',
     'edits': [(E_, "class Equilibrium():\n", _CALLABLE + "class Equilibrium():\n"),
               (E_, "        sol = minimize(self._objective, self.guess,\n                       args=(self.gibbs, self.P*1.01325),\n"
                "                       jac=self._objective_jac,\n",
                "        gibbs_energy = _GibbsEnergy(self.gibbs, self.P*1.01325)\n"
                "        sol = minimize(gibbs_energy, self.guess,\n                       jac=gibbs_energy.jac,\n")]},
    {'name': 'polishing run after a successful run, its outcome tested as well',
     'edits': [(E_, '        res = namedtuple("res"',
                "        if sol.success:\n" + _POLISH.replace("\n        ", "\n            ").replace("        sol = minimize", "            sol = minimize", 1)
                + "            if not sol.success:\n                warnings.warn('polish: {}'.format(sol.message), RuntimeWarning)\n"
                + '        res = namedtuple("res"')]},
    {'name': 'polishing run whose amounts are kept only if it succeeded',
     'edits': [(E_, '        res = namedtuple("res"',
                "        if sol.success:\n"
                + _POLISH.replace("\n        ", "\n            ").replace("        sol = minimize", "            sol2 = minimize", 1).replace("\n                       ", "\n                        ")
                + "            if sol2.success:\n                sol = sol2\n" + '        res = namedtuple("res"')]},
    {'name': 'G/RT memo kept in the object, keyed by species name and temperature',
     'edits': [(E_, "        self.network = network\n", "        self.network = network\n        self._gort = {}\n"),
               (E_, "            self.gibbs.append(self.model[x].get_GoRT(T=T))",
                "            try:\n                g = self._gort[(x, T)]\n            except KeyError:\n"
                "                g = self._gort[(x, T)] = self.model[x].get_GoRT(T=T)\n            self.gibbs.append(g)")]},
    {'name': 'one equality constraint dictionary per element', 'edits': [(E_, _CON_OLD, _CON_PER)]},
    {'name': 'from_thermdat reads the species as a list and hands them over positionally',
     'edits': [(E_, '        model = read_thermdat(thermdat, "dict")\n        return cls(model=model, network=network)',
                '        species = read_thermdat(filename=thermdat)\n        return cls(species, network)')]},
]
