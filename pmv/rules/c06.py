"""C06 - Chemkin mechanism files transcribe the model faithfully."""
import itertools
from fractions import Fraction as Fr

from ..absstr import SegStr
from ..nf import Rat, C
from ..source import Unsupported, AnchorError
from ..xlate import Interp, Obj, ListV, DictV, Raised
from .common import same, show
from .rxnfix import species as opaque_species, get_public
from .c08 import expected_delta


def side_of(rxn, attr):
    """a side of a model reaction as the public property returns it"""
    return get_public(rxn._interp, rxn, attr)


CK = 'pmutt.io.chemkin'
Z = '\x00'


class Distinct:
    """equality oracle of an instance: the run conditions (temperatures, pressures, flow rates, mole fractions ...) that
    the rule names differently are different values - two runs may share T0, but T0 is not T1.  Order is left open."""

    def __init__(self, prefixes):
        self.prefixes = tuple(prefixes)

    def name(self, r):
        if isinstance(r, Rat) and r.is_monomial():
            ats = list(r.atoms())
            if len(ats) == 1 and r.eq(Rat.atom(ats[0])) and ats[0].rstrip('0123456789b') in self.prefixes:
                return ats[0]
        return None

    def __call__(self, a, op, b):
        if op not in ('==', '!='):
            return None
        na, nb = self.name(a), self.name(b)
        if na is None or nb is None:
            return None
        return (na == nb) if op == '==' else (na != nb)


def cat_site(I, repo, kw, name):
    """CatSite(name=, site_density=, density=, bulk_specie=) through its constructor"""
    o = I.construct(repo.cls('pmutt.chemkin.CatSite'), [], dict(kw), name=name)
    if isinstance(o, Raised):
        raise Unsupported('CatSite(...) raised %s for the model site %s' % (o.exc, name))
    o._interp = I
    return o


def site_attr(site, attr):
    """a documented attribute of a catalyst site as a user reads it"""
    return get_public(site._interp, site, attr)


class World:
    def __init__(self, repo, two_sites=False, names=None, copies=True):
        """names: {key: concrete text} - species, sites and elements spelled as a user spells them (H2, CH3(S), ...)
        instead of symbolic texts; copies: one adsorbate of the first site carries an equal copy of the CatSite object
        instead of the object the other species share"""
        self.repo = repo
        self.names = names or {}
        self.I = I = Interp(repo)
        # T, Tb, T0, T1 ...: different temperatures; P, Pb, P0 ...: different pressures; Q, A, x: flow rates, area to
        # volume ratios, mole fractions of number_formats
        I.order = Distinct(('T', 'P', 'Q', 'A', 'x'))
        D = I.D
        self.sites = []
        self.site_copies = []
        for si in range(2 if two_sites else 1):
            nm = self.text('site%d' % si, 2)
            bulk = self.text('bulk%d' % si, 5)
            kw = {'name': nm, 'site_density': D.sym('sden%d' % si), 'density': D.sym('rho%d' % si),
                  'bulk_specie': bulk}
            self.sites.append(cat_site(I, repo, kw, 'site%d' % si))
            # an equal copy of the site, as every species carries its own after a JSON round trip: the same site
            self.site_copies.append(cat_site(I, repo, kw, 'site%d_copy' % si) if copies else self.sites[-1])
        self.species = {}
        self.elements = [self.text('el%d' % k, w, 'alpha') for k, w in enumerate((1, 1, 2))]

        sp = self.add_species
        sp('g1', 'G', None, 2, (0,))
        sp('g2', 'G', None, 3, (0, 1))
        sp('g3', 'g', None, 4, (1,))            # lower-case phase label
        sp('a1', 'S', self.sites[0], 5, (0, 2))
        sp('a2', 'S', self.site_copies[0], 6, (1, 2))       # its own, equal copy of the site object
        sp('vac', 's', self.sites[0], 4, (2,))      # lower-case phase label on a surface species
        sp('blk', 'S', self.sites[0], 5, (2,), name=site_attr(self.sites[0], 'bulk_specie'))
        sp('ts', 'S', self.sites[0], 3, (0, 1, 2))
        if two_sites:
            sp('b1', 'S', self.sites[1], 3, (0,))
            sp('c1', 'S', self.sites[0], 4, (1,))
        self.reactions = []

    def add_species(self, key, phase, site, width, els, name=None):
        I = self.I
        o = opaque_species(I, key, phase, site)
        o.attrs['name'] = name or self.text(key, width)
        o.attrs['elements'] = DictV({self.elements[e]: I.D.sym('%s_n%d' % (key, e)) for e in els})
        o.attrs['n_sites'] = I.D.sym('%s_sites' % key)
        I.int_syms.add('%s_sites' % key)        # a site occupancy is a whole number of sites
        I.num_widths[repr(o.attrs['n_sites'])] = 1
        self.species[key] = o
        return o

    def text(self, key, width, cls='text'):
        if key in self.names:
            return self.names[key]
        k = Z + key
        self.I.sym_strings[k] = (width, cls)
        return k

    def reaction(self, name, reactants, products, ts=None, adsorption=False, keep=True):
        I = self.I
        D = I.D
        ci = self.repo.cls('pmutt.reaction.ChemkinReaction')

        def side(lst):
            return ListV([self.species[k] for k, _ in lst]), ListV([C(n) for _, n in lst])
        r, rs = side(reactants)
        p, ps = side(products)
        # through the public constructor: which private helper decides gas_phase is the class's own business
        kw = {'reactants': r, 'reactants_stoich': rs, 'products': p, 'products_stoich': ps,
              'beta': D.sym(name + '_beta'), 'is_adsorption': adsorption}
        if adsorption:
            kw['sticking_coeff'] = D.sym(name + '_stick')
        if ts:
            kw['transition_state'], kw['transition_state_stoich'] = side(ts)
        o = I.construct(ci, [], kw, name=name)
        if isinstance(o, Raised):
            raise Unsupported('ChemkinReaction(...) raised %s for the model reaction %s' % (o.exc, name))
        o._interp = I
        o._sides = (name, reactants, products, ts, adsorption)
        if keep:
            self.reactions.append(o)
        return o

    def twin(self, rxn):
        """a second reaction object built from the same species, coefficients and parameters: it has not been asked
        for anything yet, so what it answers cannot come from an earlier call"""
        name, reactants, products, ts, adsorption = rxn._sides
        return self.reaction(name, reactants, products, ts, adsorption, keep=False)

    def reaction_set(self, reactions=None):
        """Reactions(reactions=[...]) through its constructor"""
        o = self.I.construct(self.repo.cls('pmutt.reaction.Reactions'), [],
                             {'reactions': ListV(list(self.reactions if reactions is None else reactions))},
                             name='rset')
        if isinstance(o, Raised):
            raise Unsupported('Reactions(reactions=[...]) raised %s' % o.exc)
        return o


def sections(text, I):
    """{keyword: [lines]} for KEYWORD ... END blocks, plus all lines"""
    lines = I.seg(text).splitlines()
    out = {}
    cur = None
    clean = []
    for ln in lines:
        body = ln.strip('rstrip', '\n')
        if not is_comment(body):
            clean.append(body)
        lit = body.literal() if body.is_literal() else None
        first = body.segs[0].text.split()[0] if body.segs and body.segs[0].kind == 'lit' and \
            body.segs[0].text.split() else None
        if lit is not None and lit.strip() == 'END':
            cur = None
            continue
        if first in ('ELEMENTS', 'SPECIES', 'REACTIONS') and (lit is not None or first == 'REACTIONS'):
            cur = first
            out.setdefault(cur, [])
            continue
        if cur is not None:
            if is_comment(body):
                continue
            out[cur].append(body)
    return out, clean


class Printed:
    """a number that stands in the line as literal text"""

    def __init__(self, value):
        self.value = value


def fields_of(line):
    return [s for s in line.segs if s.kind == 'field']


def is_comment(line):
    """a line Chemkin does not read (time stamp, explanations): whatever it carries is no entry of the file"""
    return bool(line.segs) and line.segs[0].kind == 'lit' and line.segs[0].text.lstrip().startswith('!')


def check_reaction_lines(run, w, lines, expected_rxns, label, writer, m, kw, act_method, ads_method, act_unit,
                         twins=None):
    """each expected reaction appears once, with A/sticking, beta, Ea equal to the model's values (asked of the
    reaction's twin when one is given: an object that no earlier call has touched)"""
    I = w.I
    fn = m.functions[writer]
    # adsorption reactions are followed by a STICK line
    recs = []
    for ln in lines:
        if ln.is_literal() and ln.literal().strip() == 'STICK':
            if recs:
                recs[-1]['stick'] = True
            continue
        recs.append({'line': ln, 'stick': False})
    ok_n = len(recs) == len(expected_rxns)
    run.check(ok_n, 'DATAFLOW.once', 'chemkin.' + writer, label + ' reaction count',
              '[%s] %d reaction lines for %d reactions that belong in this file' % (label, len(recs), len(expected_rxns)),
              m, fn)
    if not ok_n:
        return
    for rec, rxn in zip(recs, expected_rxns):
        fs = fields_of(rec['line'])
        nums = [f for f in fs if f.cls == 'num' and isinstance(f.value, Rat)]
        names = [f.value for f in fs if f.cls != 'num']
        want_names = [sp.attrs['name'] for sp in side_of(rxn, 'reactants').items + side_of(rxn, 'products').items]
        run.check(names == want_names, 'DATAFLOW.equation', 'chemkin.' + writer, label + ' equation',
                  '[%s] the equation of %s lists species %s, expected %s' % (label, rxn.name, names, want_names), m, fn)
        kwm = dict(kw)
        undefined = False
        if not side_of(rxn, 'is_adsorption') and side_of(rxn, 'transition_state') is None and act_method in (
                'get_E_act', 'get_EoRT_act'):
            # the model does not define this activation quantity without a transition state: written as 0
            undefined = True
        # a number the writer formats from a Python constant (the 0. of an undefined quantity) is text of the line
        tail = ''.join(s_.text for s_ in rec['line'].segs[-1:] if s_.kind == 'lit').strip().split()[-1:]
        try:
            tail_value = Fr(tail[0]) if tail else None
        except ValueError:
            tail_value = None
        if undefined:
            okz = len(nums) == 2 and tail_value == 0
            run.check(bool(okz), 'DATAFLOW.Ea', 'chemkin.' + writer, label + ' activation energy',
                      '[%s] %s has no transition state: the undefined activation energy must be written as 0 (line %s)'
                      % (label, rxn.name, show(rec['line'], 120)), m, fn)
            nums = nums + [None]
        elif len(nums) == 2 and tail_value is not None:
            nums = nums + [Printed(C(tail_value))]
        if len(nums) != 3:
            run.fail('DATAFLOW.numbers', 'chemkin.' + writer, label + ' numeric fields',
                     '[%s] reaction line of %s has %d numeric fields, expected A, beta, Ea' % (label, rxn.name, len(nums)),
                     m, fn)
            continue
        model = (twins or {}).get(id(rxn), rxn)
        if side_of(rxn, 'is_adsorption'):
            wantA = side_of(model, 'sticking_coeff')
            wantE = I.call_method(model, ads_method, [], dict(kwm, units=act_unit))
        else:
            inc = act_method not in ('get_GoRT_act', 'get_G_act', 'get_delta_GoRT', 'get_delta_G')
            wantA = I.call_method(model, 'get_A', [], dict(kwm, include_entropy=inc,
                                                           sden_operation=kw.get('sden_operation')))
            km = {k: v for k, v in kwm.items() if k != 'sden_operation'}
            if 'oRT' in act_method:
                wantE = I.call_method(model, act_method, [], km)
            else:
                wantE = I.call_method(model, act_method, [], dict(km, units=act_unit))
        run.check(isinstance(wantA, Rat) and nums[0].value.eq(wantA), 'DATAFLOW.A', 'chemkin.' + writer,
                  label + ' pre-exponential/sticking',
                  '[%s] first number of %s is %s, the model gives %s' % (label, rxn.name, show(nums[0].value, 100),
                                                                         show(wantA, 100)), m, fn,
                  sample='[%s] %s: A field == model value' % (label, rxn.name))
        if not side_of(rxn, 'is_adsorption'):
            # reference written here (header of surf.inp: k = kb/h/site_den^(n-1) ..., n the number of surface
            # species): kB/h, times q_TS/q_IS at the conditions of this file when the entropy factor belongs in A, over
            # (site densities, one per surface reactant molecule - the bulk species of a site is no surface species -
            # combined by the requested operation)^(n-1).  Built from the species, not from the reaction object.
            dens = []
            for sp, nu in zip(side_of(rxn, 'reactants').items, side_of(rxn, 'reactants_stoich').items):
                site = sp.attrs['cat_site']
                if sp.attrs['phase'].upper() == 'S' and site is not None and \
                        sp.attrs['name'] != site_attr(site, 'bulk_specie'):
                    dens += [site_attr(site, 'site_density')] * int(nu.const_value())
            n_ref = len(dens)
            kb_h = I.D.sym('kb') / I.D.sym('h')
            if side_of(rxn, 'transition_state') is None or not inc:
                base, what = kb_h, 'kB/h'
            else:
                kwq = {'T': kw['T'], 'P': kw['P'], 'ignore_q_elec': True, 'include_ZPE': False}
                base, what = kb_h * expected_delta(I, rxn, 'get_q', kwq, False, True), 'kB/h q_TS/q_IS(T, P)'
            op = kw.get('sden_operation')
            if n_ref <= 1:
                ref = base
            elif op == 'sum':
                ref = base / sum(dens[1:], dens[0]).powi(n_ref - 1)
            elif len({repr(d_) for d_ in dens}) == 1:
                ref = base / dens[0].powi(n_ref - 1)         # min, max, mean of equal densities
            else:
                ref = None          # an extremum of different symbolic densities: left to DATAFLOW.A and C09
            if ref is not None:
                run.check(same(nums[0].value, ref), 'REF.A', 'chemkin.' + writer, label + ' kB/h',
                          '[%s] first number of %s is %s: with %d surface reactant molecule(s) (bulk species not counted), '
                          'site-density operation %r and %s it must be %s = %s / (effective site density)^%d'
                          % (label, rxn.name, show(nums[0].value, 100), n_ref, op,
                             'the entropy factor' if base is not kb_h else 'no entropy factor', show(ref, 100), what,
                             max(n_ref - 1, 0)), m, fn)
        run.check(nums[1].value.eq(side_of(rxn, 'beta')), 'DATAFLOW.beta', 'chemkin.' + writer, label + ' beta',
                  '[%s] temperature exponent of %s is %s' % (label, rxn.name, show(nums[1].value)), m, fn)
        if nums[2] is not None:
            run.check(isinstance(wantE, Rat) and nums[2].value.eq(wantE), 'DATAFLOW.Ea', 'chemkin.' + writer,
                      label + ' activation energy',
                      '[%s] activation energy of %s is %s, the model gives %s under the same conditions'
                      % (label, rxn.name, show(nums[2].value, 120), show(wantE, 120)), m, fn)
        run.check(rec['stick'] == bool(side_of(rxn, 'is_adsorption')), 'DATAFLOW.stick', 'chemkin.' + writer,
                  label + ' STICK', '[%s] STICK keyword %s for %s' % (label, 'missing' if side_of(rxn, 'is_adsorption')
                                                                      else 'present', rxn.name), m, fn)


def check_site_blocks(run, w, clean, label, tag, m, fn):
    """the site section of surf.inp: one SITE line per catalyst site with its density, every adsorbate once under
    the SITE line of its own site with its occupancy, one BULK line per site"""
    site_lines = [ln for ln in clean if ln.segs and ln.segs[0].kind == 'lit' and
                  ln.segs[0].text.startswith('SITE/')]
    run.check(len(site_lines) == len(w.sites), 'DATAFLOW.once', 'chemkin.write_surf', tag + ' sites',
              '[%s] %d SITE lines for %d catalyst sites' % (label, len(site_lines), len(w.sites)), m, fn)
    for site in w.sites:
        # the SITE line of this site, wherever it stands among the blocks
        mine = [ln for ln in site_lines if fields_of(ln) and fields_of(ln)[0].value == site_attr(site, 'name')]
        fs = fields_of(mine[0]) if mine else []
        ok = len(mine) == 1 and len(fs) == 2 and isinstance(fs[1].value, Rat) and \
            fs[1].value.eq(site_attr(site, 'site_density'))
        run.check(ok, 'DATAFLOW.site', 'chemkin.write_surf', tag + ' site density',
                  '[%s] %s does not carry the site name and its site density once'
                  % (label, 'SITE line %s' % show(mine[0], 100) if mine else 'no SITE line of site %s (%s)'
                     % (site.name, [show(ln, 60) for ln in site_lines])), m, fn)
    # adsorbates: every non-gas, non-bulk species of the reactions once, under its site, with its occupancy
    used = {}
    for r in w.reactions:
        for sp in side_of(r, 'reactants').items + side_of(r, 'products').items:
            used[sp.name] = sp
    want_ads = [sp for sp in used.values() if sp.attrs['phase'].upper() != 'G'
                and sp.attrs['name'] != site_attr(sp.attrs['cat_site'], 'bulk_specie')]
    ads_lines = [ln for ln in clean if len(fields_of(ln)) == 2 and ln.segs[-1].kind == 'lit'
                 and ln.segs[-1].text == '/' and fields_of(ln)[1].cls == 'num'
                 and not (ln.segs[0].kind == 'lit' and ln.segs[0].text.startswith(('SITE', 'BULK')))]
    bulk_lines_ = [ln for ln in clean if ln.segs and ln.segs[0].kind == 'lit' and
                   ln.segs[0].text.startswith('BULK')]
    got_ads = sorted(str(fields_of(ln)[0].value) for ln in ads_lines)
    run.check(got_ads == sorted(sp.attrs['name'] for sp in want_ads), 'DATAFLOW.once', 'chemkin.write_surf',
              tag + ' adsorbates', '[%s] adsorbate lines list %s, expected %s once each'
              % (label, got_ads, sorted(sp.attrs['name'] for sp in want_ads)), m, fn)
    # ... each under the SITE line of its own catalyst site (a block ends at the next SITE or BULK line)
    cur_site = None
    is_site, is_bulk, is_ads = ({id(x) for x in lst} for lst in (site_lines, bulk_lines_, ads_lines))
    for ln in clean:
        if id(ln) in is_site:
            cur_site = fields_of(ln)[0].value if fields_of(ln) else None
        elif id(ln) in is_bulk:
            cur_site = None
        elif id(ln) in is_ads:
            spm = [sp for sp in want_ads if sp.attrs['name'] == fields_of(ln)[0].value]
            if spm:
                own = site_attr(spm[0].attrs['cat_site'], 'name')
                run.check(cur_site == own, 'DATAFLOW.section', 'chemkin.write_surf', tag + ' adsorbate under its site',
                          '[%s] adsorbate %s of site %s stands under %s' % (
                              label, spm[0].name, str(own).strip(Z),
                              'no SITE line' if cur_site is None else 'SITE/%s' % str(cur_site).strip(Z)), m, fn)
    for ln in ads_lines:
        f0, f1 = fields_of(ln)
        spm = [sp for sp in want_ads if sp.attrs['name'] == f0.value]
        if spm:
            run.check(isinstance(f1.value, Rat) and f1.value.eq(spm[0].attrs['n_sites']), 'DATAFLOW.occupancy',
                      'chemkin.write_surf', tag + ' occupancy',
                      '[%s] occupancy written for %s is %s' % (label, spm[0].name, show(f1.value)), m, fn)
    bulk_lines = [ln for ln in clean if ln.segs and ln.segs[0].kind == 'lit' and
                  ln.segs[0].text.startswith('BULK')]
    okb = len(bulk_lines) == len(w.sites)
    for s_ in w.sites:
        mine = [ln for ln in bulk_lines if fields_of(ln) and fields_of(ln)[0].value == site_attr(s_, 'bulk_specie')]
        okb = okb and len(mine) == 1 and len(fields_of(mine[0])) == 2 and \
            isinstance(fields_of(mine[0])[1].value, Rat) and fields_of(mine[0])[1].value.eq(site_attr(s_, 'density'))
    run.check(okb, 'DATAFLOW.site', 'chemkin.write_surf', tag + ' bulk', '[%s] BULK lines do not carry each '
              'site\'s bulk species and density once' % label, m, fn)


def add_reactions(w, two_sites=False):
    """the model mechanism: gas steps with and without transition state, a surface step, an adsorption, steps that
    consume the bulk species of the site"""
    w.reaction('rg', [('g1', 1), ('g2', 2)], [('g3', 1)])
    w.reaction('rs', [('a1', 1), ('vac', 1)], [('a2', 2)], ts=[('ts', 1)])
    w.reaction('rads', [('g1', 1), ('vac', 1)], [('a1', 1)], adsorption=True)
    w.reaction('rg2', [('g3', 1)], [('g1', 1), ('g2', 1)], ts=[('ts', 1)])
    # the bulk species of the site takes part in a reaction (oxide formation): it belongs on the BULK line only
    w.reaction('rbk', [('a1', 1), ('blk', 1)], [('a2', 1)])
    # ... and one with two surface reactant molecules next to the bulk species: (n-1) = 1, so which site densities are
    # collected (and how they are combined) shows in A
    w.reaction('rbk2', [('a1', 2), ('blk', 1)], [('a2', 1)])
    if two_sites:
        w.reaction('rb', [('b1', 2)], [('g2', 1)])
        # an adsorbate of the first site that is first mentioned after one of the second site: the species come in the
        # order site0 ... site1 site0, each site still has one block
        w.reaction('rc', [('c1', 1), ('vac', 1)], [('a1', 1)])


def reordered(reactions):
    """the same reactions as a user of the examples lists them: adsorption steps first; the others back to front"""
    ads = [r for r in reactions if side_of(r, 'is_adsorption')]
    return ads + [r for r in reversed(list(reactions)) if not side_of(r, 'is_adsorption')]


def mechanism(run, repo, two_sites):
    m = repo.module(CK)
    w = World(repo, two_sites)
    I = w.I
    D = I.D
    add_reactions(w, two_sites)
    T, P = D.sym('T'), D.sym('P')
    species_list = ListV(list(w.species.values()))
    tag = 'sites=%d' % (2 if two_sites else 1)
    # the two-site world is there for the site blocks and the steps on the second site; which activation method is
    # written does not depend on the number of sites: all of them on one site, two of them (with and without the
    # entropy factor in A) on two sites unless the tier is thorough
    full = not two_sites or run.tier == 'thorough'
    # ---------------- gas.inp ----------------
    for act in ('get_E_act', 'get_G_act', 'get_HoRT_act', 'get_GoRT_act', 'get_EoRT_act', 'get_H_act') if full else \
            ('get_E_act', 'get_G_act'):
        fn = m.functions['write_gas']
        out = I.call_function(m, fn, [], {'nasa_species': species_list, 'reactions': ListV(list(w.reactions)), 'T': T,
                                          'P': P, 'act_method_name': act})
        label = '%s gas.inp act=%s' % (tag, act)
        if isinstance(out, Raised):
            run.fail('DATAFLOW.write', 'chemkin.write_gas', label, 'raises %s' % out.exc, m, fn)
            continue
        sec, _ = sections(out, I)
        els = [I.plain(x) for x in sec.get('ELEMENTS', [])]
        run.check(sorted(els) == sorted(w.elements), 'DATAFLOW.once', 'chemkin.write_gas', tag + ' elements',
                  '[%s] ELEMENTS lists %s, expected every element once: %s' % (label, els, w.elements), m, fn)
        gas = [sp.attrs['name'] for sp in w.species.values() if sp.attrs['phase'].upper() == 'G']
        got = [I.plain(x) for x in sec.get('SPECIES', [])]
        run.check(got == gas, 'DATAFLOW.once', 'chemkin.write_gas', tag + ' gas species',
                  '[%s] SPECIES lists %s, expected the gas species once each: %s' % (label, got, gas), m, fn)
        gas_rx = [r for r in w.reactions if all(sp.attrs['phase'].upper() == 'G' for sp in side_of(r, 'reactants').items)]
        check_reaction_lines(run, w, sec.get('REACTIONS', []), gas_rx, label, 'write_gas', m, {'T': T, 'P': P}, act,
                             None, 'kcal/mol')
        if act == 'get_G_act':
            from ..absre import NumPolicy
            for pol in policies(run, two_sites):
                read_back(run, repo, w, 'write_gas', {'nasa_species': species_list,
                                                      'reactions': ListV(list(w.reactions)), 'T': T, 'P': P,
                                                      'act_method_name': act}, gas_rx, label, pol,
                          species=species_list if pol.small and not pol.negative else None)
    # ---------------- surf.inp ----------------
    rset = w.reaction_set()
    for act, ads in (('get_E_act', 'get_H_act'), ('get_G_act', 'get_G_act'), ('get_GoRT_act', 'get_GoRT_act'),
                     ('get_H_act', 'get_H_act'), ('get_EoRT_act', 'get_HoRT_act')) if full else \
            (('get_E_act', 'get_H_act'), ('get_G_act', 'get_G_act')):
        for op in ('min', 'sum'):
            fn = m.functions['write_surf']
            out = I.call_function(m, fn, [], {'reactions': rset, 'T': T, 'P': P, 'act_method_name': act,
                                              'ads_act_method': ads, 'sden_operation': op})
            label = '%s surf.inp act=%s sden=%s' % (tag, act, op)
            if isinstance(out, Raised):
                run.fail('DATAFLOW.write', 'chemkin.write_surf', label, 'raises %s' % out.exc, m, fn)
                continue
            sec, clean = sections(out, I)
            surf_rx = [r for r in w.reactions
                       if not all(sp.attrs['phase'].upper() == 'G' for sp in side_of(r, 'reactants').items)]
            check_reaction_lines(run, w, sec.get('REACTIONS', []), surf_rx, label, 'write_surf', m,
                                 {'T': T, 'P': P, 'sden_operation': op}, act, ads, 'kcal/mol')
            if act == 'get_G_act' and op == 'min':
                from ..absre import NumPolicy
                for pol in policies(run, two_sites):
                    read_back(run, repo, w, 'write_surf', {'reactions': rset, 'T': T, 'P': P, 'act_method_name': act,
                                                           'ads_act_method': ads, 'sden_operation': op}, surf_rx,
                              label, pol, species=species_list if pol.small and not pol.negative else None)
            check_site_blocks(run, w, clean, label, tag, m, fn)
    # ---------------- the reaction list in another order ----------------
    # the order of the list is the user's: what the loop over the reactions hands from one reaction to the next (keyword
    # dictionaries, paddings) must not decide a number.  Adsorption steps first (as the pMuTT examples list them), the
    # others in the opposite order: the adsorption step is the first line of surf.inp, the gas step with a transition
    # state stands before the one without in gas.inp
    rev = reordered(w.reactions)
    rset_rev = w.reaction_set(rev)
    for writer, wkw, rx, ckw, pairs in (
            ('write_gas', {'nasa_species': species_list, 'reactions': ListV(rev)},
             [r for r in rev if all(sp.attrs['phase'].upper() == 'G' for sp in side_of(r, 'reactants').items)], {},
             (('get_G_act', None), ('get_E_act', None))),
            ('write_surf', {'reactions': rset_rev, 'sden_operation': 'min'},
             [r for r in rev if not all(sp.attrs['phase'].upper() == 'G' for sp in side_of(r, 'reactants').items)],
             {'sden_operation': 'min'}, (('get_G_act', 'get_G_act'), ('get_E_act', 'get_H_act')))):
        fn = m.functions[writer]
        for act, ads in pairs if full else pairs[:1]:
            out = I.call_function(m, fn, [], dict(wkw, T=T, P=P, act_method_name=act,
                                                  **({'ads_act_method': ads} if ads else {})))
            label = '%s %s act=%s, adsorption steps first' % (tag, writer[6:] + '.inp', act)
            if isinstance(out, Raised):
                run.fail('DATAFLOW.write', 'chemkin.' + writer, label, 'raises %s' % out.exc, m, fn)
                continue
            sec, clean = sections(out, I)
            check_reaction_lines(run, w, sec.get('REACTIONS', []), rx, label, writer, m, dict(ckw, T=T, P=P), act, ads,
                                 'kcal/mol')
            if writer == 'write_surf' and act == 'get_G_act':
                check_site_blocks(run, w, clean, label, tag + ' reordered', m, fn)
    # ---------------- the same reaction objects written again for other run conditions ----------------
    # (a pressure series, then another temperature): every number is the model's value at the conditions of *this*
    # call.  The model value is asked of a twin of each reaction - same species, built now, never called before - and
    # REF.A is built from the species, so nothing a reaction object remembers from an earlier call can agree with both
    if not two_sites:
        Tb, Pb = D.sym('Tb'), D.sym('Pb')
        # a second Reactions object over the same reaction objects; before it is written the user looks at the species
        # of the mechanism, transition states included (the default of Reactions.get_species): the site section
        # written afterwards still lists the adsorbates only
        rset2 = w.reaction_set()
        seen_sp = I.call_method(rset2, 'get_species', [], {})
        if isinstance(seen_sp, Raised):
            raise Unsupported('Reactions.get_species() raised %s on the model mechanism' % seen_sp.exc)
        for Tc, Pc, cname in ((T, Pb, 'T, Pb'), (Tb, Pb, 'Tb, Pb')):
            twins = {id(r): w.twin(r) for r in w.reactions}
            ctag = '%s again at (%s) after (%s)' % (tag, cname, 'T, P' if Tc is T else 'T, Pb')
            for writer, wkw, rx, ckw, ads in (
                    ('write_gas', {'nasa_species': species_list, 'reactions': ListV(list(w.reactions))},
                     [r for r in w.reactions if all(sp.attrs['phase'].upper() == 'G'
                                                    for sp in side_of(r, 'reactants').items)], {}, None),
                    ('write_surf', {'reactions': rset2, 'ads_act_method': 'get_H_act', 'sden_operation': 'sum'},
                     [r for r in w.reactions if not all(sp.attrs['phase'].upper() == 'G'
                                                        for sp in side_of(r, 'reactants').items)],
                     {'sden_operation': 'sum'}, 'get_H_act')):
                fn = m.functions[writer]
                out = I.call_function(m, fn, [], dict(wkw, T=Tc, P=Pc, act_method_name='get_H_act'))
                label = '%s %s' % (ctag, writer)
                if isinstance(out, Raised):
                    run.fail('DATAFLOW.write', 'chemkin.' + writer, label, 'raises %s' % out.exc, m, fn)
                    continue
                sec, clean = sections(out, I)
                check_reaction_lines(run, w, sec.get('REACTIONS', []), rx, label, writer, m,
                                     dict(ckw, T=Tc, P=Pc), 'get_H_act', ads, 'kcal/mol', twins=twins)
                if writer == 'write_surf' and Tc is T:
                    check_site_blocks(run, w, clean, label, ctag, m, fn)
    # ---------------- the formatting options: delimiters, formats, activation-energy unit, MW correction ----------------
    opts = {'species_delimiter': ' + ', 'reaction_delimiter': ' <=> ', 'act_unit': 'kJ/mol', 'float_format': ' .5E',
            'stoich_format': '.1f', 'column_delimiter': '    '}
    gas_rx = [r for r in w.reactions if all(sp.attrs['phase'].upper() == 'G' for sp in side_of(r, 'reactants').items)]
    surf_rx = [r for r in w.reactions if r not in gas_rx]
    for writer, kw, rx, extra in (
            ('write_gas', {'nasa_species': species_list, 'reactions': ListV(list(w.reactions)), 'T': T, 'P': P,
                           'act_method_name': 'get_G_act'}, gas_rx, {}),
            ('write_surf', {'reactions': rset, 'T': T, 'P': P, 'act_method_name': 'get_G_act',
                            'ads_act_method': 'get_H_act', 'sden_operation': 'min'}, surf_rx,
             {'use_mw_correction': False})):
        fn = m.functions[writer]
        out = I.call_function(m, fn, [], dict(kw, **dict(opts, **extra)))
        label = '%s %s with formatting options' % (tag, writer)
        if isinstance(out, Raised):
            run.fail('DATAFLOW.write', 'chemkin.' + writer, label, 'raises %s' % out.exc, m, fn)
            continue
        sec, clean = sections(out, I)
        ckw = {'T': T, 'P': P}
        if writer == 'write_surf':
            ckw['sden_operation'] = 'min'
        check_reaction_lines(run, w, sec.get('REACTIONS', []), rx, label, writer, m, ckw, 'get_G_act',
                             'get_H_act' if writer == 'write_surf' else None, 'kJ/mol')
        head = [ln for ln in clean if ln.segs and ln.segs[0].kind == 'lit' and ln.segs[0].text.startswith('REACTIONS')]
        htxt = ''.join(s_.text for s_ in head[0].segs if s_.kind == 'lit') if head else ''
        if writer == 'write_surf':
            # surf.inp declares the unit of its activation energies and the molecular-weight correction on the
            # REACTIONS line (gas.inp declares neither, there is nothing to compare)
            okh = 'KJ/MOL' in htxt and 'KCAL' not in htxt and 'MWOFF' in htxt and 'MWON' not in htxt
            run.check(okh, 'DATAFLOW.option', 'chemkin.' + writer, tag + ' REACTIONS header',
                      '[%s] the REACTIONS line is %r: the activation energies below it are written in kJ/mol and the '
                      'molecular-weight correction was switched off' % (label, htxt), m, fn)
        # the equations use the requested delimiters, once between the sides and between any two species of a side
        recs = [ln for ln in sec.get('REACTIONS', []) if not (ln.is_literal() and ln.literal().strip() == 'STICK')]
        for ln, rxn in zip(recs, rx):
            last = max(i_ for i_, s_ in enumerate(ln.segs) if s_.kind == 'field' and s_.cls != 'num')
            eq = ''.join(s_.text for s_ in ln.segs[:last] if s_.kind == 'lit')
            n_sp = len(side_of(rxn, 'reactants').items) + len(side_of(rxn, 'products').items)
            okd = eq.count('<=>') == 1 and eq.replace('<=>', '').count('=') == 0 and eq.count(' + ') == n_sp - 2
            run.check(okd, 'DATAFLOW.option', 'chemkin.' + writer, tag + ' delimiters',
                      '[%s] the equation of %s is written as %s: the requested delimiters \' + \' and \' <=> \' must '
                      'separate its %d species' % (label, rxn.name, show(ln, 140), n_sp), m, fn)
        # the reader gives back what the writer was given, whatever delimiters and number formats were asked for
        from ..absre import NumPolicy
        if two_sites:
            continue            # the reader does not look at the site blocks: once is enough
        above, below, signed = NumPolicy(), NumPolicy(small=True), NumPolicy(negative=signed_quantity)
        # the kinds of float format: scientific (above), fixed point (123450.0000, 0.0000), general (123450 without
        # point or exponent, 1.2345e-05 with a lower-case e), an explicit sign
        if run.tier == 'thorough':
            kinds = [(ff, pol) for ff in ('.4f', '.6g', '+.3e') for pol in (above, below, signed)]
        elif writer == 'write_gas':
            kinds = [('.4f', above), ('.6g', below)]
        else:
            kinds = [('.6g', above), ('.4f', signed)]
        for ro, pol in [(dict(opts, **extra), above),
                        ({'reaction_delimiter': '<=>', 'column_delimiter': '\t', 'float_format': ' .6E'}
                         if writer == 'write_surf' else {'species_delimiter': ' + ', 'reaction_delimiter': ' = '}, above)
                        ] + [({'float_format': ff, 'reaction_delimiter': '='}, pol) for ff, pol in kinds]:
            read_back(run, repo, w, writer, dict(kw, **ro), rx,
                      '%s %s %s' % (tag, writer, ' '.join('%s=%r' % kv for kv in sorted(ro.items())
                                                        if kv[0] in ('species_delimiter', 'reaction_delimiter',
                                                                     'column_delimiter', 'float_format'))),
                      pol, delims=(ro.get('species_delimiter', '+'), ro['reaction_delimiter']))
    # gas.inp and surf.inp written to a file are, section by section (elements, species, sites, reactions), the text
    # returned without a file name (the reader sees their reaction lines only)
    file_is_text(run, I, m, 'write_gas', {'nasa_species': species_list, 'reactions': ListV(list(w.reactions)), 'T': T,
                                          'P': P, 'act_method_name': 'get_G_act'}, tag + ' gas.inp')
    file_is_text(run, I, m, 'write_surf', {'reactions': rset, 'T': T, 'P': P, 'act_method_name': 'get_G_act',
                                           'ads_act_method': 'get_H_act', 'sden_operation': 'min'}, tag + ' surf.inp')
    # every reaction in exactly one of the two files (complementary predicates on the same attribute)
    both = [r for r in w.reactions]
    n_gas = len([r for r in both if side_of(r, 'gas_phase') is True])
    ck_owner, ck_init = repo.find_method(repo.cls('pmutt.reaction.ChemkinReaction'), '__init__')
    run.check(all(isinstance(side_of(r, 'gas_phase'), bool) for r in both), 'ORDER.partition', 'ChemkinReaction.gas_phase',
              tag, 'gas_phase is not a definite boolean', ck_owner.module, ck_init)
    # a reaction whose reactants are all gaseous (whatever the case of the phase label) belongs to the gas file
    for r in both:
        allgas = all(sp.attrs['phase'].upper() == 'G' for sp in side_of(r, 'reactants').items)
        run.check(side_of(r, 'gas_phase') == allgas, 'SIB.phase-case', 'ChemkinReaction.gas_phase', 'phase label case',
                  'reaction %s has only gaseous reactants (phase labels %s) but gas_phase=%s: the species is listed as a '
                  'gas species by write_gas (case-insensitive test) while its reaction is filed as a surface reaction '
                  '(case-sensitive test)' % (r.name, [sp.attrs['phase'] for sp in side_of(r, 'reactants').items],
                                             side_of(r, 'gas_phase')),
                  ck_owner.module, ck_init)
    return w


def policies(run, two_sites):
    """the spellings of the printed numbers a file is read back under.  The reader does not look at the site blocks,
    and the reaction lines of the two-site mechanism differ from the one-site ones by their species only: read back in
    the thorough tier"""
    from ..absre import NumPolicy
    if two_sites and run.tier != 'thorough':
        return ()
    return (NumPolicy(), NumPolicy(small=True), NumPolicy(negative=signed_quantity, small=True))


# names as chemists write them: a digit at the end (H2, O2), inside (H2O, CH3(S), C2H6_s), the characters ( ) * _ of the
# grammar; with the coefficients of the model mechanism the file has 2O2 and 2C2H6_s (coefficient equal to a digit of the
# name) next to 2CH3(S) (different from it)
SPELLED = {'g1': 'H2', 'g2': 'O2', 'g3': 'H2O', 'a1': 'CH3(S)', 'a2': 'C2H6_s', 'vac': 'PT*', 'ts': 'TS1(S)',
           'bulk0': 'PT(B)', 'site0': 'PT_111', 'el0': 'H', 'el1': 'O', 'el2': 'Pt',
           # names that are part of other names (H in H2, H(S) in OH(S), OH(S) in H2OH(S)) and a name that begins with
           # a lower-case letter (the n-, i-, c- prefixes of combustion mechanisms)
           'h': 'H', 'hs': 'H(S)', 'ohs': 'OH(S)', 'h2os': 'H2O(S)', 'npr': 'nC3H7'}


def spelled_names(run, repo):
    """the read-back with species names written out: what the reader makes of a name depends on its characters, and a
    symbolic name is spelled by the regular-expression engine with letters the pattern does not mention"""
    from ..absre import NumPolicy
    w = World(repo, names=SPELLED)
    I = w.I
    D = I.D
    add_reactions(w)
    # steps whose last product is spelled inside an earlier term of the same line: H2 = 2H, H2O(S) + PT* = OH(S) + H(S),
    # nC3H7 + H = H2 + ... ; the equation text, the names and the coefficients must come back whole
    w.add_species('h', 'G', None, 1, (0,))
    w.add_species('npr', 'G', None, 5, (0,))
    w.add_species('hs', 'S', w.sites[0], 4, (0, 2))
    w.add_species('ohs', 'S', w.site_copies[0], 5, (0, 1, 2))
    w.add_species('h2os', 'S', w.sites[0], 6, (0, 1, 2))
    w.reaction('rh', [('g1', 1)], [('h', 2)])
    w.reaction('rnpr', [('npr', 1), ('h', 1)], [('g1', 2), ('h', 3)], ts=[('ts', 1)])
    w.reaction('rohs', [('h2os', 1), ('vac', 1)], [('ohs', 1), ('hs', 1)], ts=[('ts', 1)])
    w.reaction('rhs', [('g1', 1), ('vac', 2)], [('hs', 2)], adsorption=True)
    T, P = D.sym('T'), D.sym('P')
    species_list = ListV(list(w.species.values()))
    gas_rx = [r for r in w.reactions if all(sp.attrs['phase'].upper() == 'G' for sp in side_of(r, 'reactants').items)]
    surf_rx = [r for r in w.reactions if r not in gas_rx]
    names = ' '.join(sp.attrs['name'] for sp in w.species.values())
    read_back(run, repo, w, 'write_gas', {'nasa_species': species_list, 'reactions': ListV(list(w.reactions)), 'T': T,
                                          'P': P, 'act_method_name': 'get_G_act'}, gas_rx,
              'gas.inp, names %s' % names, NumPolicy())
    read_back(run, repo, w, 'write_surf', {'reactions': w.reaction_set(), 'T': T, 'P': P, 'act_method_name': 'get_G_act',
                                           'ads_act_method': 'get_H_act', 'sden_operation': 'min'}, surf_rx,
              'surf.inp, names %s' % names, NumPolicy(small=True), species=species_list)


def signed_quantity(seg):
    """can the printed quantity be negative?  Site densities, densities, occupancies, pre-exponential factors and
    sticking coefficients cannot; temperature exponents and activation energies can"""
    v = seg.value
    if not isinstance(v, Rat):
        return False
    pos = ('sden', 'rho', 'kb', 'h', 'Na', 'T', 'P', 'U<')
    return not all(a.startswith(pos) or a.endswith(('_sites', '_stick')) for a in v.atoms())


def same_species(a, b):
    """the species object given to the reader, or a copy of it that carries the same data"""
    if a is b:
        return True
    if not (isinstance(a, Obj) and isinstance(b, Obj)) or a.ci is not b.ci or \
            set(a.opaque_methods) != set(b.opaque_methods) or set(a.attrs) != set(b.attrs):
        return False
    for k, x in a.attrs.items():
        y = b.attrs[k]
        if x is y:
            continue
        if isinstance(x, DictV) and isinstance(y, DictV):
            if x.d.keys() != y.d.keys() or not all(same(x.d[k_], y.d[k_]) for k_ in x.d):
                return False
        elif isinstance(x, Obj) or isinstance(y, Obj):
            if not same_species(x, y):
                return False
        elif not same(x, y):
            return False
    return True


def read_back(run, repo, w, which, kwargs, expected, label, policy, delims=('+', '='), species=None):
    """write the file through the real writer, read it with the real read_reactions (regular expressions decided
    by absre on the abstract lines), compare species and stoichiometry with the model"""
    from ..absre import NumPolicy
    m = repo.module(CK)
    I = w.I
    wfn = m.functions[which]
    rfn = m.functions.get('read_reactions')
    if rfn is None:
        raise AnchorError(CK + '.read_reactions not found')
    fname = '/dir/%s.inp' % which
    I.num_policy = policy
    I.cuts[:] = []
    I.re_hazards[:] = []
    I.replace_hazards[:] = []
    label = '%s, %s' % (label, policy.label())
    # a fixed-point or general format prints a number as wide as its value asks for.  Under the witness policy the
    # value of every printed number is fixed: the numbers the file carries are learnt from the same call with a
    # format of known width, and printed here as wide as the witness is
    from ..absre import spell_number
    from ..absstr import Seg, spec_width, _SPEC
    ff = kwargs.get('float_format')
    learnt = []
    if ff is not None and spec_width(ff) is None:
        probe = I.call_function(m, wfn, [], dict(kwargs, float_format=' .3E'))
        if isinstance(probe, Raised):
            run.fail('DATAFLOW.write', 'chemkin.' + which, label, 'raises %s' % probe.exc, m, wfn)
            return
        mm = _SPEC.match(ff)
        flag = 1 if mm and mm.group(3) in (' ', '+') else 0     # spec_width adds the column of an explicit sign itself
        for sg in I.seg(probe).segs:
            if sg.kind == 'field' and sg.cls == 'num' and isinstance(sg.value, Rat) and sg.spec and \
                    sg.spec.strip('{:}') == ' .3E' and repr(sg.value) not in I.num_widths:
                txt = spell_number(Seg('field', value=sg.value, width=None, cls='num', spec=ff), policy)
                I.num_widths[repr(sg.value)] = len(txt) - flag
                learnt.append(repr(sg.value))
    try:
        out = I.call_function(m, wfn, [], dict(kwargs, filename=fname))
    finally:
        for k_ in learnt:
            I.num_widths.pop(k_, None)
    if isinstance(out, Raised):
        run.fail('DATAFLOW.write', 'chemkin.' + which, label, 'writing to a file raises %s' % out.exc, m, wfn)
        return
    # under the witness policy the sign of every printed number is fixed, so its width is known
    fixed = []
    for ln in I.files.get(fname, []):
        segs = []
        for sg in I.seg(ln).segs:
            if sg.kind == 'field' and sg.cls == 'num' and sg.width is None:
                sg = Seg('field', value=sg.value, width=len(spell_number(sg, policy)), cls='num', spec=sg.spec)
            segs.append(sg)
        fixed.append(SegStr(segs))
    I.files[fname] = fixed
    # read_reactions(filename) gives (Reactions, Reactants, React_stoic, Products, Prod_stoic); with species=[...] the
    # documented 7-tuple (Reactions, Reactants, React_obj, React_stoic, Products, Prod_obj, Prod_stoic)
    got = I.call_function(m, rfn, [], {'filename': fname} if species is None else {'filename': fname, 'species': species})
    if isinstance(got, Raised):
        run.fail('TABLE.readback', 'chemkin.read_reactions', 'raises',
                 '[%s] reading back the file pMuTT wrote raises %s' % (label, got.exc), m, rfn)
        return
    n_res = 5 if species is None else 7
    ok = isinstance(got, ListV) and len(got) == n_res
    if ok:
        if species is None:
            eqs, reac, rst, prod, pst = got.items
            robj = pobj = None
        else:
            eqs, reac, robj, rst, prod, pobj, pst = got.items
        ok = all(isinstance(x, ListV) for x in got.items) and all(len(x) == len(eqs) for x in got.items)
    if not ok:
        run.fail('TABLE.readback', 'chemkin.read_reactions', 'result shape',
                 '[%s] unexpected result %s (%d lists with one entry per reaction expected%s)'
                 % (label, show(got, 160), n_res, ' with species=' if species is not None else ''), m, rfn)
        return
    run.check(len(reac) == len(expected), 'TABLE.readback', 'chemkin.read_reactions', 'reaction count',
              '[%s] %d reactions read back, %d written' % (label, len(reac), len(expected)), m, rfn)
    if len(reac) != len(expected):
        return

    def side(names, stoich, objs, coeffs):
        nm = [I.plain(x) for x in names.items] if isinstance(names, ListV) else None
        st = stoich.items if isinstance(stoich, ListV) else None
        want_n = [sp.attrs['name'] for sp in objs.items]
        return nm == want_n and st is not None and len(st) == len(coeffs.items) and \
            all(isinstance(a, Rat) and a.eq(b) for a, b in zip(st, coeffs.items)), nm, want_n
    for i, rxn in enumerate(expected):
        okr, nm, want = side(reac.items[i], rst.items[i], side_of(rxn, 'reactants'), side_of(rxn, 'reactants_stoich'))
        run.check(okr, 'TABLE.readback', 'chemkin.read_reactions', 'reactants',
                  '[%s] reaction %s is read back with reactants %s x %s, the model has %s x %s'
                  % (label, rxn.name, nm, show(rst.items[i], 60), want, show(side_of(rxn, 'reactants_stoich'), 60)), m, rfn,
                  sample='[%s] %s: reactants and coefficients read back' % (label, rxn.name) if i == 0 else None)
        okp, nm, want = side(prod.items[i], pst.items[i], side_of(rxn, 'products'), side_of(rxn, 'products_stoich'))
        run.check(okp, 'TABLE.readback', 'chemkin.read_reactions', 'products',
                  '[%s] reaction %s is read back with products %s x %s, the model has %s x %s'
                  % (label, rxn.name, nm, show(pst.items[i], 60), want, show(side_of(rxn, 'products_stoich'), 60)), m, rfn)
        want_eq = I.call_method(rxn, 'to_string', [], {'species_delimiter': delims[0], 'reaction_delimiter': delims[1],
                                                       'include_TS': False})
        run.check(show(I.seg(eqs.items[i]), 400) == show(I.seg(want_eq), 400), 'TABLE.readback',
                  'chemkin.read_reactions', 'equation text',
                  '[%s] equation returned for %s is %s, written %s' % (label, rxn.name, show(eqs.items[i], 120),
                                                                       show(want_eq, 120)), m, rfn)
    if species is not None:
        # the species objects of each side are the very objects of the model reaction, in the order of the equation
        for i, rxn in enumerate(expected):
            for objs_all, attr in ((robj, 'reactants'), (pobj, 'products')):
                objs = objs_all.items[i]
                want_o = side_of(rxn, attr).items
                oko = isinstance(objs, ListV) and len(objs.items) == len(want_o) and \
                    all(same_species(a, b) for a, b in zip(objs.items, want_o))
                run.check(oko, 'TABLE.readback', 'chemkin.read_reactions', 'species= ' + attr,
                          '[%s] the %s objects returned for %s are %s, the model reaction has %s'
                          % (label, attr[:-1], rxn.name,
                             [getattr(o_, 'name', o_) for o_ in objs.items] if isinstance(objs, ListV) else objs,
                             [o_.name for o_ in want_o]), m, rfn,
                          sample='[%s] %s: species objects of both sides read back' % (label, rxn.name)
                          if i == 0 and attr == 'reactants' else None)
    # an operation whose outcome depends on how the user spelled a name is a reader that cannot give back every
    # mechanism: coefficient stripping that also removes digits inside the name
    seen = set()
    for node, old_, fld, left in I.replace_hazards:
        key = (node.lineno, old_)
        if key in seen:
            continue
        seen.add(key)
        run.fail('TABLE.readback', 'chemkin.read_reactions', 'coefficient stripped from inside a name',
                 '[%s] str.replace(%r, ...) %s is applied to text that still contains the species name %s: every '
                 'occurrence inside the name (H2(S), CH3(S), NO2 with coefficient 2, 3, 2) is removed with the '
                 'coefficient' % (label, old_, 'without a count' if left < 0 else 'with count %d' % left,
                                  str(fld.value).strip(Z)), m, node)
    for node, pat, fld, what, spelled in I.re_hazards:
        run.note('pmutt/io/chemkin.py:%d regular expression %r: the outcome depends on the spelling of %s (%s, e.g. %r)'
                 % (node.lineno, pat, str(fld.value).strip(Z), what, spelled))
    I.num_policy = NumPolicy()


def file_is_text(run, I, m, writer, kw, label):
    """what the writer puts into the file it is given a name for is, line by line, the text it returns without one"""
    fn = m.functions[writer]
    fname = '/dir/%s.file.inp' % writer
    txt = I.call_function(m, fn, [], dict(kw))
    I.files.pop(fname, None)
    out = I.call_function(m, fn, [], dict(kw, filename=fname))
    if isinstance(out, Raised) and not isinstance(txt, Raised) and out.exc == 'AttributeError':
        # the file model of the interpreter knows write() and close() only: another method of a real file object
        # (writelines, ...) shows up as a missing attribute - not decidable here, not a finding
        raise Unsupported('%s(filename=...) uses a method of the file object that is not modelled' % writer)
    if isinstance(txt, Raised) or isinstance(out, Raised):
        run.fail('DATAFLOW.write', 'chemkin.' + writer, label + ' to a file', 'raises %s'
                 % (out.exc if isinstance(out, Raised) else txt.exc), m, fn)
        return
    def data_lines(lines):
        # comment lines (time stamp, explanations) carry nothing Chemkin reads
        res = []
        for ln in lines:
            ln = ln.strip('rstrip', '\n')
            if is_comment(ln):
                continue
            res.append(show(ln, 400))
        return res
    want = data_lines(I.seg(txt).splitlines())
    got = data_lines(I.files.get(fname, []))
    diff = [i for i, (a, b) in enumerate(zip(got, want)) if a != b]
    run.check(got == want, 'DATAFLOW.file', 'chemkin.' + writer, label + ' file == returned text',
              '[%s] written with filename=: %d data lines in the file, the text returned without a file name has %d%s'
              % (label, len(got), len(want), '; first different line %d: %s' % (diff[0] + 1, got[diff[0]][:120])
                 if diff else ''), m, fn, sample='%s: lines of the file == lines of the returned text (%d)'
              % (writer, len(want)))


def ea_files(run, repo, w):
    m = repo.module(CK)
    I = w.I
    D = I.D
    fn = m.functions['write_EA']
    sym = D.sym
    # the condition lists: three unrelated runs; a pressure series at one temperature followed by another temperature
    # at the last pressure (runs that share one of their values are still different runs), with the reaction list in
    # another order
    cases = (('', ListV([DictV({'T': sym('T%d' % i), 'P': sym('P%d' % i)}) for i in range(3)]), list(w.reactions)),
             (', runs (T0,P0) (T0,P1) (T1,P1), adsorption steps first',
              ListV([DictV({'T': sym('T0'), 'P': sym('P0')}), DictV({'T': sym('T0'), 'P': sym('P1')}),
                     DictV({'T': sym('T1'), 'P': sym('P1')})]), reordered(w.reactions)))
    for (ctag, conds, rlist), gas in itertools.product(cases, (False, True)):
        for act, ads in (('get_EoRT_act', 'get_HoRT_act'), ('get_GoRT_act', 'get_GoRT_act')):
            out = I.call_function(m, fn, [], {'reactions': ListV(list(rlist)), 'conditions': conds,
                                              'write_gas_phase': gas, 'act_method_name': act, 'ads_act_method': ads})
            label = 'EA file gas=%s act=%s%s' % (gas, act, ctag)
            if isinstance(out, Raised):
                run.fail('DATAFLOW.write', 'chemkin.write_EA', label, 'raises %s' % out.exc, m, fn)
                continue
            lines = [ln.strip('rstrip', '\n') for ln in I.seg(out).splitlines()]
            want = [r for r in rlist if bool(side_of(r, 'gas_phase')) == gas]
            count_line = [ln for ln in lines if ln.is_literal() and 'Number of reactions' in ln.literal()]
            declared = int(count_line[0].literal().split()[0]) if count_line else None
            rx_lines = [ln for ln in lines if any(f.cls != 'num' for f in fields_of(ln)) and not is_comment(ln)]
            run.check(declared == len(rx_lines) == len(want), 'DATAFLOW.count', 'chemkin.write_EA', 'declared count',
                      '[%s] declares %s reactions, writes %d, %d belong here' % (label, declared, len(rx_lines), len(want)),
                      m, fn, sample='[%s] declared == written == %d' % (label, len(want)))
            for ln, r in zip(rx_lines, want):
                nums = [f for f in fields_of(ln) if f.cls == 'num']
                # the equation is the reaction's own: reactants then products, nothing else (no transition state)
                names = [f.value for f in fields_of(ln) if f.cls != 'num']
                want_names = [sp.attrs['name'] for sp in side_of(r, 'reactants').items + side_of(r, 'products').items]
                run.check(names == want_names, 'DATAFLOW.equation', 'chemkin.write_EA', 'equation',
                          '[%s] the equation of %s lists species %s, expected its reactants and products %s'
                          % (label, r.name, names, want_names), m, fn)
                meth = ads if side_of(r, 'is_adsorption') else act
                if side_of(r, 'transition_state') is None and meth in ('get_EoRT_act', 'get_E_act'):
                    lit = ''.join(s_.text for s_ in ln.segs if s_.kind == 'lit')
                    run.check(not nums and lit.count('0.00E+00') == len(conds), 'DATAFLOW.EA', 'chemkin.write_EA',
                              'value per condition', '[%s] %s has no transition state: one 0 per run expected' %
                              (label, r.name), m, fn)
                    continue
                ok = len(nums) == len(conds)
                bad = None
                if ok:
                    for k, (f, cd) in enumerate(zip(nums, conds.items)):
                        wv = I.call_method(r, meth, [], dict(cd.d))
                        if not (isinstance(wv, Rat) and f.value.eq(wv)):
                            ok = False
                            bad = bad or 'run %d (%s): written %s, the model gives %s' % (
                                k + 1, ', '.join('%s=%s' % (k_, show(v_)) for k_, v_ in cd.d.items()),
                                show(f.value, 100), show(wv, 100))
                run.check(ok, 'DATAFLOW.EA', 'chemkin.write_EA',
                          'value per condition' + (', runs that share a temperature or a pressure' if ctag else ''),
                          '[%s] the values written for %s are not the %s of the reaction at each run condition: %s'
                          % (label, r.name, meth, bad or '%d values for %d runs' % (len(nums), len(conds))), m, fn)
    conds = cases[0][1]
    file_is_text(run, I, m, 'write_EA', {'reactions': ListV(list(w.reactions)), 'conditions': conds,
                                         'act_method_name': 'get_GoRT_act', 'ads_act_method': 'get_GoRT_act'}, 'EAs.inp')


def run_files(run, repo):
    m = repo.module(CK)
    I = Interp(repo)
    I.order = Distinct(('T', 'P', 'Q', 'A', 'x'))
    D = I.D
    n = 4
    Ts, Ps, Qs, As = (ListV([D.sym('%s%d' % (q, i)) for i in range(n)]) for q in 'TPQA')
    # runs that share one of their values are still different runs: the last run is at the temperature of the first
    # and at the pressure of the second
    Ts.items[3], Ps.items[3] = Ts.items[0], Ps.items[1]
    fn = m.functions['write_T_flow']
    out = I.call_function(m, fn, [], {'T': Ts, 'P': Ps, 'Q': Qs, 'abyv': As})
    if isinstance(out, Raised):
        run.fail('DATAFLOW.write', 'chemkin.write_T_flow', 'T_flow', 'raises %s' % out.exc, m, fn)
    else:
        lines = [ln for ln in I.seg(out).splitlines() if fields_of(ln) and not is_comment(ln)]
        ok = len(lines) == n
        for i, ln in enumerate(lines):
            fs = fields_of(ln)
            ok = ok and len(fs) == 4 and all(f.value.eq(v.items[i]) for f, v in zip(fs, (Ts, Ps, Qs, As))) and \
                ('!%d' % (i + 1)) in ''.join(s.text for s in ln.segs if s.kind == 'lit').replace(' ', '')
        run.check(ok, 'DATAFLOW.T_flow', 'chemkin.write_T_flow', 'run lines',
                  'each run line must carry T, P, Q, abyv of that run in this order and its run number: %s'
                  % show(out, 200), m, fn, sample='T_flow.inp: line i == (T_i, P_i, Q_i, abyv_i, i)')
        file_is_text(run, I, m, 'write_T_flow', {'T': Ts, 'P': Ps, 'Q': Qs, 'abyv': As}, 'T_flow.inp')
    # tube_mole.inp
    fn = m.functions['write_tube_mole']
    names = {}
    sp = []
    I.sym_strings[Z + 'Pt'] = (2, 'text')
    I.sym_strings[Z + 'PtB'] = (5, 'text')
    site = cat_site(I, repo, {'name': Z + 'Pt', 'site_density': D.sym('sden'), 'density': D.sym('rho'),
                              'bulk_specie': Z + 'PtB'}, 'site')
    for k, (ph, w_) in enumerate((('G', 3), ('S', 5), ('G', 2), ('S', 4))):
        key = Z + 'sp%d' % k
        I.sym_strings[key] = (w_, 'text')
        sp.append(Obj('sp%d' % k, attrs={'name': key, 'phase': ph, 'cat_site': None if ph == 'G' else site}))
    # three runs; the first species has the same mole fraction in the first and the last
    conds = ListV([DictV({sp[0].attrs['name']: D.sym('x00'), sp[1].attrs['name']: D.sym('x01')}),
                   DictV({sp[0].attrs['name']: D.sym('x10'), sp[3].attrs['name']: D.sym('x13')}),
                   DictV({sp[0].attrs['name']: D.sym('x00'), sp[1].attrs['name']: D.sym('x21')})])
    out = I.call_function(m, fn, [], {'mole_frac_conditions': conds, 'nasa_species': ListV(sp)})
    if isinstance(out, Raised):
        run.fail('DATAFLOW.write', 'chemkin.write_tube_mole', 'tube_mole', 'raises %s' % out.exc, m, fn)
        return
    lines = [ln.strip('rstrip', '\n') for ln in I.seg(out).splitlines()]
    cl = [ln for ln in lines if ln.is_literal() and 'Number of nonzero species' in ln.literal()]
    declared = int(cl[0].literal().split()[0]) if cl else None
    sl = [ln for ln in lines if any(f.cls != 'num' for f in fields_of(ln)) and not is_comment(ln)]
    used = [sp[0], sp[1], sp[3]]
    run.check(declared == len(sl) == len(used), 'DATAFLOW.count', 'chemkin.write_tube_mole', 'declared count',
              'declares %s species, writes %d, %d have a mole fraction in some run' % (declared, len(sl), len(used)), m, fn)
    for ln, s_ in zip(sl, used):
        fs = fields_of(ln)
        vals = [s for s in ln.segs if (s.kind == 'field' and s.cls == 'num')]
        ok = fs[0].value == s_.attrs['name']
        # one value per run: the given mole fraction or a literal zero
        per_run = []
        for c_ in conds.items:
            per_run.append(c_.d.get(s_.attrs['name']))
        # the columns in the order of the line: a printed mole fraction, or the text of a zero
        cols = []
        for sg in ln.segs:
            if sg.kind == 'field' and sg.cls == 'num':
                cols.append(sg.value)
            elif sg.kind == 'lit':
                cols += [None] * sg.text.count('0.000')
        ok = ok and len(cols) == len(per_run) and all(
            (a is None and b is None) or (isinstance(a, Rat) and b is not None and a.eq(b))
            for a, b in zip(cols, per_run))
        lit = ''.join(s.text for s in ln.segs if s.kind == 'lit')
        run.check(ok, 'DATAFLOW.mole-fraction', 'chemkin.write_tube_mole', 'values per run',
                  'line of %s does not carry its mole fraction in every run (0 when absent): %s' % (s_.name, show(ln, 160)),
                  m, fn)
        # the 'species/phase/' pair: a gas species belongs to the phase GAS, an adsorbate to its catalyst site
        texts = [f.value for f in fs if f.cls != 'num']
        if s_.attrs['phase'].upper() == 'G':
            okp = texts == [s_.attrs['name']] and lit.count('/GAS/') == 1
            where = 'GAS'
        else:
            okp = texts == [s_.attrs['name'], site_attr(s_.attrs['cat_site'], 'name')] and 'GAS' not in lit
            where = 'its catalyst site'
        run.check(okp, 'DATAFLOW.phase', 'chemkin.write_tube_mole', 'species/phase/ pair',
                  'line of %s (phase %s) must name the species once, in the phase %s: %s'
                  % (s_.name, s_.attrs['phase'], where, show(ln, 160)), m, fn)
    file_is_text(run, I, m, 'write_tube_mole', {'mole_frac_conditions': conds, 'nasa_species': ListV(sp)},
                 'tube_mole.inp')


def number_formats(run, repo, w):
    """the float format and column delimiter the caller asks for are the ones every number is printed with"""
    m = repo.module(CK)
    I = w.I
    D = I.D
    conds = ListV([DictV({'T': D.sym('T%d' % i), 'P': D.sym('P%d' % i)}) for i in range(2)])
    n = 2
    Ts, Ps, Qs, As = (ListV([D.sym('%s%d' % (q, i)) for i in range(n)]) for q in 'TPQA')
    sp = [s_ for s_ in w.species.values()][:3]
    mf = ListV([DictV({sp[0].attrs['name']: D.sym('x00'), sp[1].attrs['name']: D.sym('x01')}),
                DictV({sp[0].attrs['name']: D.sym('x10'), sp[2].attrs['name']: D.sym('x12')})])
    cases = (('write_EA', {'reactions': ListV(list(w.reactions)), 'conditions': conds, 'write_gas_phase': False,
                           'act_method_name': 'get_GoRT_act', 'ads_act_method': 'get_GoRT_act'}),
             ('write_T_flow', {'T': Ts, 'P': Ps, 'Q': Qs, 'abyv': As}),
             ('write_tube_mole', {'mole_frac_conditions': mf, 'nasa_species': ListV(sp)}))
    for writer, kw in cases:
        fn = m.functions[writer]
        for ff, cd in ((' .4E', ' ; '), ('.6f', '\t')):
            out = I.call_function(m, fn, [], dict(kw, float_format=ff, column_delimiter=cd))
            label = '%s float_format=%r column_delimiter=%r' % (writer, ff, cd)
            if isinstance(out, Raised):
                run.fail('DATAFLOW.write', 'chemkin.' + writer, label, 'raises %s' % out.exc, m, fn)
                continue
            lines = [ln.strip('rstrip', '\n') for ln in I.seg(out).splitlines()]
            lines = [ln for ln in lines if any(f.cls == 'num' for f in fields_of(ln)) and not is_comment(ln)]
            specs = sorted({(f.spec or '').strip('{:}') for ln in lines for f in fields_of(ln) if f.cls == 'num'})
            run.check(bool(lines) and specs == [ff], 'DATAFLOW.option', 'chemkin.' + writer, 'float_format',
                      '[%s] the numbers are printed with the formats %s' % (label, specs), m, fn)
            okc = bool(lines)
            for ln in lines:
                # between two consecutive printed values stands the requested column delimiter
                for a_, b_, c_ in zip(ln.segs, ln.segs[1:], ln.segs[2:]):
                    if a_.kind == 'field' and a_.cls == 'num' and c_.kind == 'field' and c_.cls == 'num' \
                            and b_.kind == 'lit':
                        okc = okc and cd in b_.text
            run.check(okc, 'DATAFLOW.option', 'chemkin.' + writer, 'column_delimiter',
                      '[%s] two neighbouring values are not separated by the requested column delimiter' % label, m, fn)


def check(run, repo):
    run.explanation = (
        'write_gas, write_surf, write_EA, write_T_flow and write_tube_mole (with _write_reaction_lines, '
        '_get_specie_str, _write_column_line, ...) are interpreted over abstract strings with a symbolic mechanism: '
        'species with symbolic names, compositions, occupancies on one or two catalyst sites (gas, adsorbate, vacancy, '
        'bulk), real ChemkinReaction objects (gas reaction, surface reaction with transition state, adsorption '
        'reaction, lower-case phase label) whose species getters are uninterpreted. The abstract text of each file is '
        'taken apart again: every element, gas species, site, adsorbate, bulk species and reaction appears exactly once '
        'in its section, gas-only reactions in gas.inp and the others in surf.inp, declared counts equal the entries '
        'that follow, and every numeric field is the model\'s own value under the same conditions (get_A or sticking '
        'coefficient, beta, activation energy by the selected method and unit, site density, occupancy, density, '
        'EA/RT per run, T/P/Q/abyv, mole fractions with 0 for absent species). Read-back: gas.inp and surf.inp are written '
        'through the real writers into the file model and read with the real read_reactions, whose regular expressions '
        'are decided on the abstract lines (pmv/absre.py) for three spellings of the printed numbers (above one, below '
        'one, negative where the quantity can be): reactants, products, coefficients and equation text must be the '
        'model\'s; a str.replace that can reach into a species name is reported. The read-back is repeated for files '
        'written with blank-padded and arrow delimiters, a tab between the columns and other number formats. The '
        'mechanism has steps that consume the bulk species of their site (listed on the BULK line only, not counted '
        'as a surface reactant) next to one and two surface reactant molecules, a vacancy whose phase label is '
        'lower-case, and on two sites an adsorbate of the first site that is first mentioned after one of the second '
        '(one SITE block per site, every adsorbate under the SITE line of its own site). A has a reference written in '
        'the rule from the species: kB/h [q_TS/q_IS at the T, P of the call] / (site densities of the non-bulk surface '
        'reactant molecules combined by the requested operation)^(n-1). The same reaction objects are written again '
        'at (T, P\'), then (T\', P\'): the numbers must be the values at the conditions of that call, asked of twin '
        'objects that were never called before. read_reactions is also run with species=: the objects of both sides '
        'are the very objects of the model reaction; and on a mechanism whose names are written out (H2, O2, H2O, '
        'CH3(S), C2H6_s, PT*: digits inside and at the end, coefficient equal to a digit of the name). Every '
        'activation-method name (E, H, G, dimensional and '
        'dimensionless) is run through both writers, EA lines carry reactants and products of their reaction only, '
        'tube_mole.inp names each species in the phase it belongs to (GAS or its site), and all five files '
        'written to a file have the data lines of the text returned without a file name. Catalyst sites are '
        'pmutt.chemkin.CatSite objects built by the constructor and read through their documented attributes; one '
        'adsorbate carries an equal copy of its site object (what a JSON round trip gives every species): still one '
        'SITE and one BULK line per site. gas.inp and surf.inp are also written with the reaction list in another '
        'order (adsorption steps first, the others back to front): what the loop over the reactions carries from one '
        'reaction to the next decides no number. EA files, T_flow.inp and tube_mole.inp have runs that share one of '
        'their values (a pressure series at one temperature, the same mole fraction in two runs). The read-back is '
        'repeated for fixed-point and general float formats (123450.0000, 123450, 1.2345e-05, explicit sign) and, '
        'with names written out, for steps whose last product is spelled inside an earlier term (H2 = 2H, '
        'H2O(S) + PT* = OH(S) + H(S)) and a name that begins with a lower-case letter (nC3H7).')
    run.assumptions = ['species names are distinct texts (symbolic, or the spelled set H2 O2 H2O H OH(S) H(S) H2O(S) '
                       'CH3(S) C2H6_s PT* nC3H7); stoichiometric coefficients are small integers',
                       'run conditions the rule names differently (T, Tb, T0, T1; P0, P1; x00, x10 ...) are different '
                       'values (equality only; their order is left open)',
                       'E-format widths assume |exponent| < 100; a fixed-point or general format is as wide as the '
                       'witness value of the read-back policy prints']
    run.undecided = ['read_reactions on files pMuTT did not write; species names outside the grammar letter + '
                     '[letters, digits, ( ) * _] (regular-expression outcomes that depend on the spelling of a name are '
                     'listed as notes)', 'column-width cosmetics and the 80-character warning']
    m = repo.module(CK)
    for f_ in ('write_EA', 'write_gas', 'write_surf', 'write_T_flow', 'write_tube_mole'):
        if f_ not in m.functions:
            raise AnchorError('%s.%s not found' % (CK, f_))
        run.fn('%s.%s' % (CK, f_))
    w = mechanism(run, repo, False)
    ea_files(run, repo, w)
    number_formats(run, repo, w)
    if run.tier == 'thorough' or True:
        mechanism(run, repo, True)
    run_files(run, repo)
    spelled_names(run, repo)
    # the kinetic parameter the reaction lines transcribe: A = (kB/h [q_TS/q_IS]) / (effective site density)^(n_surf-1)
    # with one density per surface reactant molecule, for every site-density operation (same rule as C09)
    from .c09 import preexp
    run.fn('pmutt.reaction.ChemkinReaction.get_A')
    preexp(run, repo, classes=('ChemkinReaction',))
    run.floor('C06 obligations', run.obligations, 150)


K_ = 'pmutt/io/chemkin.py'
R_ = 'pmutt/reaction/__init__.py'
MUTANTS = [
    {'name': 'T_flow columns separated by a fixed blank', 'expect': ('DATAFLOW.option', 'write_T_flow'),
     'edits': [(K_, "            line_field.format(T_i, column_delimiter, P_i, column_delimiter,\n                              Q_i, column_delimiter, abyv_i, i + 1))", "            line_field.format(T_i, ' ', P_i, ' ',\n                              Q_i, ' ', abyv_i, i + 1))")]},
    {'name': 'T_flow pressure always printed with .3E', 'expect': ('DATAFLOW.option', 'write_T_flow'),
     'edits': [(K_, "        float_format, float_format, float_format, float_format)", "        float_format, '.3E', float_format, float_format)")]},
    {'name': 'MWON whatever the option says', 'expect': ('DATAFLOW.option', 'write_surf'),
     'edits': [(K_, "    if use_mw_correction:\n        mw_str = mw_field.format('MWON')", "    if use_mw_correction is not None:\n        mw_str = mw_field.format('MWON')")]},
    {'name': 'species delimiter of the gas file not handed on', 'expect': ('DATAFLOW.option', 'write_gas'),
     'edits': [(K_, "        reactions=gas_reactions,\n        species_delimiter=species_delimiter,", "        reactions=gas_reactions,\n        species_delimiter='+',")]},
    {'name': 'EA count from all reactions', 'expect': ('DATAFLOW.count', 'write_EA'),
     'edits': [(K_, '    n_reactions = len(valid_reactions)', '    n_reactions = len(reactions)')]},
    {'name': 'surf.inp also filters gas reactions in', 'expect': ('DATAFLOW.once', 'write_surf'),
     'edits': [(K_, '        [reaction for reaction in reactions if not reaction.gas_phase]', '        [reaction for reaction in reactions if reaction.gas_phase]')]},
    {'name': 'Ea field formatted from A', 'expect': ('DATAFLOW.Ea', ''),
     'edits': [(K_, '        Ea_str = float_field.format(Ea)', '        Ea_str = float_field.format(A)')]},
    {'name': 'beta field from sticking coefficient', 'expect': ('DATAFLOW.beta', ''),
     'edits': [(K_, '        beta_str = float_field.format(reaction.beta)', '        beta_str = float_field.format(reaction.sticking_coeff if reaction.is_adsorption else reaction.beta)')]},
    {'name': 'T_flow swaps Q and abyv', 'expect': ('DATAFLOW.T_flow', 'write_T_flow'),
     'edits': [(K_, '                              Q_i, column_delimiter, abyv_i, i + 1))', '                              abyv_i, column_delimiter, Q_i, i + 1))')]},
    {'name': 'tube_mole counts all species', 'expect': ('DATAFLOW.count', 'write_tube_mole'),
     'edits': [(K_, "'{:<3}    Number of nonzero species'.format(len(unique_species)),", "'{:<3}    Number of nonzero species'.format(len(nasa_species)),")]},
    {'name': 'site density of the first site for every site', 'expect': ('DATAFLOW.site', 'write_surf'),
     'edits': [(K_, "            cat_site_name, cat_site.site_density))", "            cat_site_name, unique_cat_sites[0].site_density))")]},
    # ---- instances added after the white-box review (whitebox/C06.md)
    {'name': 'bulk species recognised by a phase label B instead of the site\'s bulk_specie', 'expect': ('DATAFLOW.once', 'write_surf'),
     'edits': [(K_, "        if specie.cat_site.bulk_specie == specie.name:\n            continue\n\n        cat_name", "        if specie.phase.upper() == 'B':\n            continue\n\n        cat_name")]},
    {'name': 'bulk species counted as a surface reactant', 'expect': ('REF.A', 'write_surf'),
     'edits': [(R_, "            # Skip bulk species\n            if specie.cat_site.bulk_specie == specie.name:\n                continue\n", "")]},
    {'name': 'entropy switch by substring misses get_GoRT_act', 'expect': ('DATAFLOW.A', ''),
     'edits': [(K_, "            if act_method_name in ('get_GoRT_act', 'get_G_act',\n                                   'get_delta_GoRT', 'get_delta_G'):", "            if 'G_act' in act_method_name or 'delta_G' in act_method_name:")]},
    {'name': 'reader splits the sides at + only', 'expect': ('TABLE.readback', 'read_reactions'),
     'edits': [(K_, "        Reactants.append(re.split(r' *\\+ *| +', Reacs))\n        Products.append(re.split(r' *\\+ *| +', Prods))", "        Reactants.append(Reacs.split('+'))\n        Products.append(Prods.split('+'))")]},
    {'name': 'EAs.inp written to the file without line ends', 'expect': ('DATAFLOW.file', 'write_EA'),
     'edits': [(K_, "            f_ptr.write(lines_out)\n    else:\n        return lines_out\n\n\ndef write_gas(", "            f_ptr.write(''.join(lines))\n    else:\n        return lines_out\n\n\ndef write_gas(")]},
    {'name': 'T_flow.inp file loses its last run', 'expect': ('DATAFLOW.file', 'write_T_flow'),
     'edits': [(K_, "            f_ptr.write(lines_out)\n    else:\n        return lines_out\n\n\ndef write_tube_mole(", "            f_ptr.write('\\n'.join(lines[:-2] + lines[-1:]))\n    else:\n        return lines_out\n\n\ndef write_tube_mole(")]},
    {'name': 'tube_mole.inp file without the count line', 'expect': ('DATAFLOW.file', 'write_tube_mole'),
     'edits': [(K_, "            f_ptr.write(lines_out)\n    else:\n        return lines_out\n\n\ndef _get_max_reaction_len(", "            f_ptr.write('\\n'.join(lines[:8] + lines[9:]))\n    else:\n        return lines_out\n\n\ndef _get_max_reaction_len(")]},
    {'name': 'transition state inside the equations of the EA file', 'expect': ('DATAFLOW.equation', 'write_EA'),
     'edits': [(K_, "                                   stoich_format=stoich_format,\n                                   include_TS=False))\n        ]", "                                   stoich_format=stoich_format))\n        ]")]},
    {'name': 'adsorbates filed under /GAS/ in tube_mole.inp', 'expect': ('DATAFLOW.phase', 'write_tube_mole'),
     'edits': [(K_, "        if specie.phase.upper() == 'G':\n            phase = '/GAS/'", "        if specie.cat_site is None or specie.phase.upper() in 'GAS':\n            phase = '/GAS/'")]},
    # ---- instances added after the second white-box review (whitebox2/C06.md)
    {'name': 'a new SITE block whenever the site differs from the previous adsorbate\'s (grouping runs, not sites)', 'expect': ('DATAFLOW.once', 'write_surf'),
     'edits': [(K_, "        try:\n            cat_adsorbates[cat_name].append(specie)\n        except KeyError:\n            cat_adsorbates[cat_name] = [specie]\n            unique_cat_sites.append(specie.cat_site)\n", "        if unique_cat_sites and unique_cat_sites[-1].name == cat_name:\n            cat_adsorbates[cat_name].append(specie)\n        else:\n            cat_adsorbates[cat_name] = [specie]\n            unique_cat_sites.append(specie.cat_site)\n")]},
    {'name': 'adsorbates of the first site listed under every SITE line', 'expect': ('DATAFLOW.section', 'write_surf'),
     'edits': [(K_, "        for specie in cat_adsorbates[cat_site.name]:\n", "        for specie in cat_adsorbates[unique_cat_sites[0].name]:\n")]},
    {'name': 'reader takes the first digit run anywhere in a reactant as its coefficient', 'expect': ('TABLE.readback', 'read_reactions'),
     'edits': [(K_, "        for RR in Reactants[-1]:\n            stoic = re.findall(r'^[0-9]*', RR)[0]\n            if stoic == '':\n                stoic = 1\n            else:\n                RR = RR.replace(stoic, \"\", 1)\n                stoic = int(stoic)\n", "        for RR in Reactants[-1]:\n            coeff = re.search(r'[0-9]+', RR)\n            if coeff is None:\n                stoic = 1\n            else:\n                stoic = int(coeff.group())\n                RR = RR[coeff.end():]\n")]},
    {'name': 'bulk species contributes a site density to A', 'expect': ('REF.A', 'write_surf'),
     'edits': [(R_, "                # Skip bulk species\n                if reactant.name == reactant.cat_site.bulk_specie:\n                    continue\n", "")]},
    {'name': 'surface molecularity counts species labelled S only (case-sensitive)', 'expect': ('REF.A', 'write_surf'),
     'edits': [(R_, "            if specie.phase.upper() != 'S':\n                continue\n", "            if specie.phase != 'S':\n                continue\n")]},
    {'name': 'read_reactions(species=) returns the reactant objects as products', 'expect': ('TABLE.readback', 'read_reactions'),
     'edits': [(K_, "        Prod_obj.append(P)\n", "        Prod_obj.append(R)\n")]},
    {'name': 'Reactions.get_species remembered per key, include_TS not in it', 'expect': ('DATAFLOW.once', 'write_surf'),
     'edits': [(R_, "        self.reactions = list(reactions)\n", "        self.reactions = list(reactions)\n        self._species = {}\n"),
               (R_, "        species = {}\n        for reaction in self.reactions:\n", "        try:\n            return self._species[key]\n        except KeyError:\n            pass\n        species = {}\n        for reaction in self.reactions:\n"),
               (R_, "                                                key=key))\n        return species\n", "                                                key=key))\n        self._species[key] = species\n        return species\n")]},
    {'name': 'get_A remembered per reaction object, pressure not in the key', 'expect': ('REF.A', 'chemkin.write_'),
     'edits': [(R_, "        self.gas_phase = self._is_gas_phase()\n", "        self.gas_phase = self._is_gas_phase()\n        self._A = {}\n"),
               (R_, "        if self.transition_state is None or not include_entropy:\n            A = c.kb('J/K') / c.h('J s')\n", "        key = (sden_operation, include_entropy, T)\n        try:\n            return self._A[key]\n        except KeyError:\n            pass\n        if self.transition_state is None or not include_entropy:\n            A = c.kb('J/K') / c.h('J s')\n"),
               (R_, "            A = A / eff_site_den**(n_surf - 1)\n        return A\n", "            A = A / eff_site_den**(n_surf - 1)\n        self._A[key] = A\n        return A\n")]},
    {'name': 'get_A remembered per reaction object, temperature not in the key', 'expect': ('REF.A', 'chemkin.write_'),
     'edits': [(R_, "        self.gas_phase = self._is_gas_phase()\n", "        self.gas_phase = self._is_gas_phase()\n        self._A = {}\n"),
               (R_, "        if self.transition_state is None or not include_entropy:\n            A = c.kb('J/K') / c.h('J s')\n", "        key = (sden_operation, include_entropy, kwargs.get('P'))\n        try:\n            return self._A[key]\n        except KeyError:\n            pass\n        if self.transition_state is None or not include_entropy:\n            A = c.kb('J/K') / c.h('J s')\n"),
               (R_, "            A = A / eff_site_den**(n_surf - 1)\n        return A\n", "            A = A / eff_site_den**(n_surf - 1)\n        self._A[key] = A\n        return A\n")]},
    # ---- instances added after the third white-box review (whitebox3/C06.md)
    {'name': 'unit of the activation energy set in the non-adsorption branch only (adsorption steps listed first get 0)', 'expect': ('DATAFLOW.Ea', 'write_surf'),
     'edits': [(K_, "                kwargs['activation'] = True\n        A_str = float_field.format(A)", "                kwargs['activation'] = True\n            kwargs['units'] = act_unit\n        A_str = float_field.format(A)"),
               (K_, "        # Calculate activation energy\n        kwargs['units'] = act_unit\n", "        # Calculate activation energy\n")]},
    {'name': 'equation text cut at the first occurrence of the last product (index for rindex)', 'expect': ('TABLE.readback', 'read_reactions'),
     'edits': [(K_, "rxn[0:rxn.rindex(Prods[-1]) + len(Prods[-1])]", "rxn[0:rxn.index(Prods[-1]) + len(Prods[-1])]")]},
    {'name': 'EA/RT remembered per temperature inside one write_EA call', 'expect': ('DATAFLOW.EA', 'write_EA'),
     'edits': [(K_, "        for condition in conditions:\n            if reaction.is_adsorption:\n                method = getattr(reaction, ads_act_method)\n            else:\n                method = getattr(reaction, act_method_name)\n            try:\n                quantity = _force_pass_arguments(method, **condition)\n            except (AttributeError, TypeError):\n                # No transition state: the activation quantity is not defined\n                quantity = 0.\n",
                "        quantities = {}\n        for condition in conditions:\n            if reaction.is_adsorption:\n                method = getattr(reaction, ads_act_method)\n            else:\n                method = getattr(reaction, act_method_name)\n            try:\n                quantity = quantities[condition.get('T')]\n            except KeyError:\n                try:\n                    quantity = _force_pass_arguments(method, **condition)\n                except (AttributeError, TypeError):\n                    quantity = 0.\n                quantities[condition.get('T')] = quantity\n")]},
    {'name': 'adsorbates grouped by the identity of the CatSite object instead of the site name', 'expect': ('DATAFLOW.once', 'write_surf'),
     'edits': [(K_, "        try:\n            cat_adsorbates[cat_name].append(specie)\n        except KeyError:\n            cat_adsorbates[cat_name] = [specie]\n            unique_cat_sites.append(specie.cat_site)\n", "        if any(site is specie.cat_site for site in unique_cat_sites):\n            cat_adsorbates[cat_name].append(specie)\n        else:\n            cat_adsorbates[cat_name] = [specie]\n            unique_cat_sites.append(specie.cat_site)\n")]},
    {'name': 'reader recognises rate parameters in scientific notation only', 'expect': ('TABLE.readback', 'read_reactions'),
     'edits': [(K_, "    rate_params = r'(\\s+[-+]?(\\d+\\.?\\d*|\\.\\d+)([eE][-+]?\\d+)?){1,3}\\s*$'", "    rate_params = r'(\\s+[-+]?\\d\\.\\d+[eE][-+]?\\d+){1,3}\\s*$'")]},
    {'name': 'reader recognises an upper-case exponent only', 'expect': ('TABLE.readback', 'read_reactions'),
     'edits': [(K_, "    rate_params = r'(\\s+[-+]?(\\d+\\.?\\d*|\\.\\d+)([eE][-+]?\\d+)?){1,3}\\s*$'", "    rate_params = r'(\\s+[-+]?(\\d+\\.?\\d*|\\.\\d+)(E[-+]?\\d+)?){1,3}\\s*$'")]},
    {'name': 'T_flow runs collected in a dictionary keyed by temperature', 'expect': ('DATAFLOW.T_flow', 'write_T_flow'),
     'edits': [(K_, "    for i, (T_i, P_i, Q_i, abyv_i) in enumerate(zip(T, P, Q, abyv)):\n", "    runs = {}\n    for T_i, P_i, Q_i, abyv_i in zip(T, P, Q, abyv):\n        runs[T_i] = (T_i, P_i, Q_i, abyv_i)\n    for i, (T_i, P_i, Q_i, abyv_i) in enumerate(runs.values()):\n")]},
    {'name': 'tube_mole: a mole fraction equal to one already on the line is not repeated', 'expect': ('DATAFLOW.mole-fraction', 'write_tube_mole'),
     'edits': [(K_, "        for condition in mole_frac_conditions:\n            # If the mole fraction was not specified, assumed to be 0\n", "        seen_values = {}\n        for condition in mole_frac_conditions:\n            try:\n                seen_values[condition[specie.name]]\n                continue\n            except KeyError:\n                pass\n            if specie.name in condition:\n                seen_values[condition[specie.name]] = True\n")]},
    {'name': 'SITE line carries the density of the bulk instead of the site density', 'expect': ('DATAFLOW.site', 'write_surf'),
     'edits': [(K_, "            cat_site_name, cat_site.site_density))", "            cat_site_name, cat_site.density))")]},
    {'name': 'reader expects a capital letter after the coefficient (nC3H7, iC4H8 ...)', 'expect': ('TABLE.readback', 'read_reactions'),
     'edits': [(K_, "        for RR in Reactants[-1]:\n            stoic = re.findall(r'^[0-9]*', RR)[0]\n", "        for RR in Reactants[-1]:\n            stoic = re.match(r'([0-9]*)[A-Z]', RR).group(1)\n")]},
    {'name': 'gas.inp written to a file without the entries of its ELEMENTS section', 'expect': ('DATAFLOW.file', 'write_gas'),
     'edits': [(K_, "            f_ptr.write('\\n'.join(lines))\n", "            f_ptr.write('\\n'.join(lines[:3] + lines[3 + len(unique_elements):]))\n")]},
    {'name': 'surf.inp written to a file without its first SITE line', 'expect': ('DATAFLOW.file', 'write_surf'),
     'edits': [(K_, "        # Write the file\n        with open(filename, 'w', newline=newline) as f_ptr:\n            f_ptr.write(lines_out)\n", "        # Write the file\n        with open(filename, 'w', newline=newline) as f_ptr:\n            f_ptr.write('\\n'.join(lines[:6] + lines[7:]))\n")]},
]
EQUIV = []
