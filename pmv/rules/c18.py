"""C18 - identifier ranges and CTI line wrapping preserve their contents."""
import itertools
from fractions import Fraction as Fr

from ..absstr import SegStr, Seg
from ..nf import Rat, C
from ..source import Unsupported, AnchorError
from ..xlate import Interp, Obj, ListV, DictV, Raised
from .common import same, show

Z = '\x00'


def make_id(I, prefix_parts, base, off, digits, delim='_'):
    """abstract id: [prefix text fields joined by the delimiter] delim <suffix number base+off, `digits` wide>"""
    s = SegStr()
    for k, (nm, w) in enumerate(prefix_parts):
        key = Z + nm
        I.sym_strings[key] = (w, 'alpha')      # prefix parts: letters (the delimiter only occurs between parts)
        if k:
            s = s + delim
        s = s + SegStr.field(key, w, 'alpha')
    if prefix_parts:
        s = s + delim
    val = base + off if base is not None else C(off)
    if not val.is_const():
        I.num_widths[repr(val)] = digits
        s = s + SegStr.field(val, digits, 'num', 'd')
    else:
        s = s + ('%0*d' % (digits, off))
    return s, val


def split_entry(I, e):
    """'"hdr_0001 to hdr_0003"' -> [(header repr, value Rat, suffix seg)]"""
    sb = I.seg(e)
    segs = list(sb.segs)
    if not (segs and segs[0].kind == 'lit' and segs[0].text.startswith('"') and segs[-1].kind == 'lit'
            and segs[-1].text.endswith('"')):
        return None
    segs[0] = Seg('lit', text=segs[0].text[1:])
    segs[-1] = Seg('lit', text=segs[-1].text[:-1])
    inner = SegStr(segs)
    out = []
    for part in inner.split(' to '):
        ps = part.segs
        if not ps:
            return None
        last = ps[-1]
        if last.kind == 'field' and last.cls == 'num':
            out.append((repr(SegStr(ps[:-1])), last.value, SegStr([last]), part))
        elif last.kind == 'lit':
            import re
            m = re.search(r'(\d+)$', last.text)
            if not m:
                return None
            head = SegStr(ps[:-1] + [Seg('lit', text=last.text[:m.start()])])
            out.append((repr(head), C(int(m.group(1))), SegStr.lit(m.group(1)), part))
        else:
            return None
    return out


def ranges(run, repo):
    m = repo.module('pmutt.cantera')
    fn = m.functions.get('_get_omkm_range')
    if fn is None:
        raise AnchorError('pmutt.cantera._get_omkm_range not found')
    run.fn('pmutt.cantera._get_omkm_range')
    n = 0
    # (prefix parts, offsets in input order (duplicates allowed), digits of the printed suffix)
    offs = [[0], [3, 1, 2], [5, 7, 6, 9], [2, 2, 3], [10, 1, 2, 12, 11, 4], [0, 1, 3, 4, 6]]
    prefixes = [[('r', 1)], [('rxn', 3)], [], [('a', 1), ('b', 2)]]
    combos = [(pre, off, digits, '_') for pre, off, digits in itertools.product(prefixes, offs, (4, 5))]
    # a delimiter other than the default: the ids must come back with the delimiter they were given
    combos += [(pre, off, 4, dl) for pre, off, dl in itertools.product(prefixes[1:], offs[:3], ('-', '.'))]
    for pre, off, digits, delim in combos:
        for mixed in (False, True):
            I = Interp(repo)
            I.int_syms.update({'N', 'M'})       # the suffixes are integers (printed with d)
            D = I.D
            base = D.sym('N')
            ids = []
            for o in off:
                ids.append(make_id(I, pre, base, o, digits, delim))
            if mixed:
                # a second prefix interleaved
                base2 = D.sym('M')
                extra = [make_id(I, [('zz', 2)], base2, o, digits, delim) for o in (1, 2, 5)]
                ids = [x for pair in itertools.zip_longest(ids, extra) for x in pair if x is not None]
            label = 'prefix=%s suffix offsets=%s digits=%d%s%s' % (
                delim.join(p[0] for p in pre) or '(none)', off, digits, ' +second prefix' if mixed else '',
                '' if delim == '_' else ' delimiter=%r' % delim)
            dkw = {} if delim == '_' else {'delimiter': delim}
            objs_variants = [('strings', ListV([i[0] for i in ids])),
                             ('objects with id', ListV([Obj('o%d' % k, attrs={'id': i[0]}) for k, i in enumerate(ids)]))]
            for oname, objs in objs_variants:
                lst = I.call_function(m, fn, [], dict({'objs': objs, 'format': 'list'}, **dkw))
                st = I.call_function(m, fn, [], dict({'objs': objs}, **dkw))
                n += 1
                if isinstance(lst, Raised) or isinstance(st, Raised):
                    run.fail('REF.range', 'cantera._get_omkm_range', 'raises', '[%s, %s] raises %s'
                             % (label, oname, show(lst if isinstance(lst, Raised) else st)), m, fn)
                    continue
                # denoted set: header -> set of suffix values
                want = {}
                for sid, val in ids:
                    segs = sid.segs
                    want.setdefault(repr(SegStr(segs[:-1])), []).append(val)
                got = {}
                ok = isinstance(lst, ListV)
                renamed = None
                if ok:
                    for e in lst.items:
                        parts = split_entry(I, e)
                        if not parts or len(parts) > 2 or (len(parts) == 2 and parts[0][0] != parts[1][0]):
                            ok = False
                            break
                        lo, hi = parts[0][1], parts[-1][1]
                        d_ = hi - lo
                        if not (d_.is_const() or d_.iszero()):
                            ok = False
                            break
                        span = int(d_.const_value()) if not d_.iszero() else 0
                        for k in range(span + 1):
                            got.setdefault(parts[0][0], []).append(lo + k)
                        # an identifier must be emitted with the spelling it came with
                        for hdr, val, suf, whole in parts:
                            for sid, v2 in ids:
                                if v2.eq(val) and repr(SegStr(sid.segs[:-1])) == hdr:
                                    if len(I.seg(sid)) != len(whole):
                                        renamed = (sid, whole)
                if ok:
                    for h in set(want) | set(got):
                        a = sorted({repr(x) for x in want.get(h, [])})
                        b = sorted({repr(x) for x in got.get(h, [])})
                        if a != b:
                            ok = False
                run.check(ok, 'REF.range', 'cantera._get_omkm_range', 'same set of identifiers',
                          '[%s, %s] the ranges %s do not denote exactly the identifiers given'
                          % (label, oname, show(lst, 200)), m, fn,
                          sample='[%s] %s' % (label, show(st, 160)) if n % 17 == 0 else None)
                if digits == 4 or True:
                    run.check(renamed is None, 'REF.range-spelling', 'cantera._get_omkm_range',
                              'suffix re-emitted with a fixed {:04d}',
                              '[%s] identifier %s is written as %s: the suffix is re-formatted with four digits, so an '
                              'id that was not zero-padded to four digits is renamed instead of being kept or rejected'
                              % (label, show(renamed[0] if renamed else None, 60),
                                 show(renamed[1] if renamed else None, 60)), m, fn)
                # string form consistent with the list form
                if isinstance(lst, ListV) and isinstance(st, (SegStr, str)):
                    joined = SegStr.lit('[')
                    for k, e in enumerate(lst.items):
                        if k:
                            joined = joined + ', '
                        joined = joined + I.seg(e)
                    joined = joined + ']'
                    run.check(repr(I.seg(st)) == repr(joined), 'REF.range-forms', 'cantera._get_omkm_range',
                              'list form == string form', '[%s] string form %s is not the list form joined'
                              % (label, show(st, 160)), m, fn)
    # short (non zero-padded) suffixes: 'r_5' must not be renamed
    I = Interp(repo)
    I.int_syms.add('N')
    ids = [make_id(I, [('r', 1)], I.D.sym('N'), o, 1) for o in (5, 6)]
    lst = I.call_function(m, fn, [], {'objs': ListV([i[0] for i in ids]), 'format': 'list'})
    renamed = False
    if isinstance(lst, ListV):
        for e in lst.items:
            for hdr, val, suf, whole in split_entry(I, e) or []:
                if len(whole) != len(ids[0][0]):
                    renamed = True
    run.check(not renamed, 'REF.range-spelling', 'cantera._get_omkm_range', 'suffix re-emitted with a fixed {:04d}',
              'identifiers with a one-digit suffix (r_5, r_6) come back four digits wide (r_0005): renamed, not '
              'rejected', m, fn)
    # ids that cannot be encoded are rejected
    I = Interp(repo)
    I.sym_strings[Z + 'word'] = (4, 'alpha')
    for label, objs, exc in (('non-string id', ListV([Obj('o', attrs={'id': C(5)})]), 'TypeError'),
                             ('non-integer suffix', ListV([SegStr.lit('r_') + SegStr.field(Z + 'word', 4, 'alpha')]),
                              'ValueError')):
        r = I.call_function(m, fn, [], {'objs': objs, 'parent_obj': Obj('parent', repo.cls('pmutt._pmuttBase'))})
        run.check(isinstance(r, Raised) and r.exc == exc, 'PATH.reject', 'cantera._get_omkm_range', label,
                  '%s must be rejected with %s, got %s' % (label, exc, show(r)), m, fn)
    # concrete identifiers: suffixes that are no integers, and a run that crosses from four to five digits
    for label, ids_ in (('suffix 1.5', ['r_0001', 'r_1.5', 'r_0002']), ('suffix 1e3', ['r_1e3']),
                        ('suffix with a sign', ['r_-0002', 'r_0001'])):
        I = Interp(repo)
        r = I.call_function(m, fn, [], {'objs': ListV(list(ids_)), 'format': 'list',
                                        'parent_obj': Obj('parent', repo.cls('pmutt._pmuttBase'))})
        if label == 'suffix with a sign':
            continue            # int('-0002') is an integer: what happens to it is not promised either way
        run.check(isinstance(r, Raised) and r.exc == 'ValueError', 'PATH.reject', 'cantera._get_omkm_range', label,
                  'identifiers %s: a suffix that is not an integer must be rejected with ValueError, got %s'
                  % (ids_, show(r, 120)), m, fn)

    def expand(entries):
        out = []
        for e in entries:
            e = I.plain(e)
            if not isinstance(e, str):
                return None
            e = e.strip().strip('"')
            if ' to ' in e:
                a_, b_ = e.split(' to ')
                ha, fa = a_.rsplit('_', 1)
                hb, fb = b_.rsplit('_', 1)
                if ha != hb or not (fa.isdigit() and fb.isdigit()):
                    return None
                for k_ in range(int(fa), int(fb) + 1):
                    # every member is spelled like the end it is counted from
                    out.append('%s_%s' % (ha, str(k_).zfill(len(fa)) if len(fa) == len(fb) else str(k_)))
            else:
                out.append(e)
        return out
    for label, ids_ in (('four to five digits', ['r_9998', 'r_9999', 'r_10000', 'r_10001']),
                        ('five digits', ['r_10000', 'r_10001', 'r_10003']),
                        ('two prefixes, mixed order', ['s_0007', 'r_0002', 's_0008', 'r_0001', 'r_0004'])):
        I = Interp(repo)
        lst = I.call_function(m, fn, [], {'objs': ListV(list(ids_)), 'format': 'list'})
        got = expand(lst.items) if isinstance(lst, ListV) else None
        run.check(got is not None and sorted(got) == sorted(ids_), 'REF.range', 'cantera._get_omkm_range',
                  'concrete identifiers: ' + label,
                  'identifiers %s come back as %s, which denotes %s' % (ids_, show(lst, 120), got), m, fn,
                  sample='%s -> %s' % (ids_, show(lst, 100)))
        n += 1
    r = I.call_function(m, fn, [], {'objs': ListV([])})
    run.check(r == '[]', 'REF.range', 'cantera._get_omkm_range', 'empty', 'empty collection must give [] (got %s)'
              % show(r), m, fn)
    return n


def wrapping(run, repo, thorough):
    m = repo.module('pmutt.io.cantera')
    fn = m.functions.get('obj_to_cti')
    if fn is None:
        raise AnchorError('pmutt.io.cantera.obj_to_cti not found')
    run.fn('pmutt.io.cantera.obj_to_cti')
    n = 0
    widths_sets = [[], [5], [30], [10, 10, 10], [30, 30, 30, 30], [1] * 40, [29, 1, 29, 1, 29, 1, 29],
                   [12, 7, 3, 25, 30, 8, 8, 8, 14, 2, 2, 2, 19, 30, 30, 1, 5], [75, 3, 80, 2], [95],
                   # values whose joined length lies between the first-line width and the full width
                   [20, 20, 20], [15, 15, 15], [25, 25], [10] * 5, [7] * 9]
    limits = [(80, 80), (30, 30), (50, 80), (100, 100), (40, 60)]
    if thorough:
        widths_sets += [[w] * k for w in (7, 15, 26) for k in (3, 9, 20)]
    cases = [(w_, l_, 'list') for w_, l_ in itertools.product(widths_sets, limits)]
    # the same value handed over as a tuple and as one blank-separated string
    cases += [(w_, l_, f_) for w_, l_, f_ in itertools.product(
        ([10, 10, 10], [29, 1, 29, 1, 29, 1, 29], [12, 7, 3, 25, 30, 8, 8, 8, 14, 2, 2, 2, 19, 30, 30, 1, 5], [5]),
        ((80, 80), (40, 60)), ('tuple', 'string'))]
    # a value in which tokens repeat (a species listed twice, equal numbers)
    cases += [([10, 10, 10, 10, 10, 10, 10, 10], l_, 'repeated') for l_ in ((80, 80), (40, 60))]
    for widths, (line_len, max_len), form in cases:
        I = Interp(repo)
        toks = []
        for k, w in enumerate(widths):
            key = Z + 'tok%d' % (k % 3 if form == 'repeated' else k)
            I.sym_strings[key] = (w, 'any')          # tokens of a CTI value are free text without blanks
            toks.append(key)
        if form == 'string':
            from ..absstr import SegStr
            obj = SegStr([])
            for k, t_ in enumerate(toks):
                obj = obj + (' ' if k else '') + SegStr.field(t_, widths[k], 'any')
        else:
            obj = ListV(list(toks))
            if form == 'tuple':
                obj.frozen = True
        out = I.call_function(m, fn, [], {'obj': obj, 'line_len': C(line_len), 'max_line_len': C(max_len)})
        n += 1
        label = 'tokens=%s line_len=%d max_line_len=%d%s' % (widths if len(widths) < 12 else
                                                            '%d tokens' % len(widths), line_len, max_len,
                                                            '' if form == 'list' else ' given as ' + form)
        if isinstance(out, Raised):
            run.fail('REF.wrap', 'io.cantera.obj_to_cti', 'raises', '[%s] raises %s' % (label, out.exc), m, fn)
            continue
        sb = I.seg(out)
        got = [s.value for s in sb.segs if s.kind == 'field']
        run.check(got == toks, 'REF.wrap-tokens', 'io.cantera.obj_to_cti', 'every token once, in order',
                  '[%s] tokens in the wrapped text are %s' % (label, [g.strip(Z) for g in got][:12]), m, fn,
                  sample='[%s] -> %d lines' % (label, len(sb.splitlines())) if n % 7 == 0 else None)
        lines = sb.splitlines()
        bad = None
        for li, line in enumerate(lines):
            L = len(line) - (1 if line.segs and line.segs[-1].kind == 'lit' and line.segs[-1].text.endswith('\n')
                             else 0)
            limit = line_len if li == 0 else max_len
            # items of a line: the tokens and the closing quotes (placed by the same greedy fill: they move to the
            # next line when they do not fit); the opening quotes are glued to the first token and are no item
            nq = sum(s_.text.count('"""') for s_ in line.segs if s_.kind == 'lit')
            if li == 0 and line.segs and line.segs[0].kind == 'lit' and line.segs[0].text.startswith('"""'):
                nq -= 1
            ntok = len(line.fields()) + nq
            if L > limit and ntok > 1:
                bad = (li, L, limit, ntok)
            elif L > limit and ntok == 1 and line.fields():
                # a line that holds a single token may be too long only because the token does not fit into the room
                # a line offers (the requested width less the three columns of the quotes / the indentation under them)
                wtok = line.fields()[0].width
                if wtok is not None and wtok <= line_len - 3:
                    bad = (li, L, limit, ntok)
        run.check(bad is None, 'REF.wrap-width', 'io.cantera.obj_to_cti', 'line width',
                  '[%s] line %s is %s characters long (limit %s) although it holds %s items (tokens, closing quotes)'
                  % ((label,) + (bad or (0, 0, 0, 0))), m, fn)
        # blanks between tokens on a line are literal separators only
        ok_sep = all(s.kind == 'field' or set(s.text) <= set(' "\n') for s in sb.segs)
        run.check(ok_sep, 'REF.wrap-tokens', 'io.cantera.obj_to_cti', 'only separators added',
                  '[%s] something other than blanks, quotes and newlines is added' % label, m, fn)
    return n


def check(run, repo):
    run.explanation = (
        '_get_omkm_range is interpreted over abstract identifiers (symbolic prefix text, literal delimiter, suffix '
        'N+k with a symbolic base and concrete offsets, printed with a known width): for 4 prefix shapes (one, long, '
        'empty, containing the delimiter) x 6 offset patterns (single, unsorted, gaps, duplicates) x 2 suffix widths '
        'x optional interleaved second prefix x strings/objects, the emitted ranges are expanded again and must denote '
        'exactly the identifiers given, each spelled as it came; list and string forms agree; non-string ids and '
        'non-integer suffixes are rejected. obj_to_cti is interpreted over token lists with symbolic contents and '
        'concrete widths: every token appears once, in order, only separators are added, and no line exceeds its limit '
        'unless it holds a single token.')
    run.assumptions = ['more_itertools.consecutive_groups groups runs of +1 in the order given',
                       'the suffix of an identifier is an integer base+offset (ordering and gaps decided on offsets)']
    run.undecided = ['identifiers whose prefix text ends in digits adjacent to the suffix without delimiter',
                     'token lists beyond the enumerated width patterns']
    n = ranges(run, repo)
    run.floor('range cases', n, 150)
    n = wrapping(run, repo, run.tier == 'thorough')
    run.floor('wrapping cases', n, 50)


C_ = 'pmutt/cantera/__init__.py'
W_ = 'pmutt/io/cantera.py'
MUTANTS = [
    {'name': 'wrap: repeated tokens written once', 'expect': ('REF.wrap-tokens', 'obj_to_cti'),
     'edits': [('pmutt/io/cantera.py', "            cti_str = ' '.join(obj)", "            cti_str = ' '.join(list(dict.fromkeys(obj)))")]},
    {'name': 'wrap: continuation lines indented by the sum of the widths', 'expect': ('REF.wrap-width', 'obj_to_cti'),
     'edits': [('pmutt/io/cantera.py', "            header_spaces = ' ' * (max_line_len - line_len + 3)", "            header_spaces = ' ' * (max_line_len + line_len + 3)")]},
    {'name': 'ranges: suffixes printed five digits wide', 'expect': ('REF.range', '_get_omkm_range'),
     'edits': [('pmutt/cantera/__init__.py', "                    CTI_range = ('\"{0}{1:04d} to {0}{2:04d}\", '", "                    CTI_range = ('\"{0}{1:05d} to {0}{2:05d}\", '")]},
    {'name': 'range end uses second element', 'expect': ('REF.range', '_get_omkm_range'),
     'edits': [(C_, 'header_delim, footer_range[0], footer_range[-1])', 'header_delim, footer_range[0], footer_range[1])')]},
    {'name': 'prefix split at the first delimiter', 'expect': ('', '_get_omkm_range'),
     'edits': [(C_, '            i = obj_id.rfind(delimiter)', '            i = obj_id.find(delimiter)')]},
    {'name': 'wrap: token dropped when starting a new line', 'expect': ('REF.wrap', 'obj_to_cti'),
     'edits': [(W_, "                    cti_lines.append('{}{}'.format(header_spaces, cti_val))", "                    cti_lines.append('{}'.format(header_spaces))")]},
    {'name': 'wrap: limit off by the separator', 'expect': ('REF.wrap-width', 'obj_to_cti'),
     'edits': [(W_, 'elif (len(cti_lines[-1]) + len(cti_val) + 1) <= line_limit:', 'elif (len(cti_lines[-1]) + len(cti_val) - 3) <= line_limit:')]},
]
EQUIV = []
