"""C18 - identifier ranges and CTI line wrapping preserve their contents."""
import itertools
from fractions import Fraction as Fr

from ..absstr import SegStr, Seg
from ..nf import Rat, C
from ..source import Unsupported, AnchorError
from ..xlate import Interp, Obj, ListV, DictV, Raised, make_set
from .common import same, show

Z = '\x00'


def make_id(I, prefix_parts, base, off, digits, delim='_'):
    """abstract id: [prefix text fields joined by the delimiter] delim <suffix number base+off, `digits` wide>"""
    s = SegStr()
    for k, (nm, w) in enumerate(prefix_parts):
        key = Z + nm
        I.sym_strings[key] = (w, 'alpha')      # prefix parts: letters (the delimiter only occurs between parts)
        if k:
            s = s + delim
        s = s + SegStr.field(key, w, 'alpha')
    if prefix_parts:
        s = s + delim
    val = base + off if base is not None else C(off)
    if not val.is_const():
        I.num_widths[repr(val)] = digits
        s = s + SegStr.field(val, digits, 'num', 'd')
    else:
        s = s + ('%0*d' % (digits, off))
    return s, val


def split_entry(I, e):
    """'"hdr_0001 to hdr_0003"' -> [(header repr, value Rat, suffix seg)]"""
    sb = I.seg(e)
    segs = list(sb.segs)
    if not (segs and segs[0].kind == 'lit' and segs[0].text.startswith('"') and segs[-1].kind == 'lit'
            and segs[-1].text.endswith('"')):
        return None
    segs[0] = Seg('lit', text=segs[0].text[1:])
    segs[-1] = Seg('lit', text=segs[-1].text[:-1])
    inner = SegStr(segs)
    out = []
    for part in inner.split(' to '):
        ps = part.segs
        if not ps:
            return None
        last = ps[-1]
        if last.kind == 'field' and last.cls == 'num':
            out.append((repr(SegStr(ps[:-1])), last.value, SegStr([last]), part))
        elif last.kind == 'lit':
            import re
            m = re.search(r'(\d+)$', last.text)
            if not m:
                return None
            head = SegStr(ps[:-1] + [Seg('lit', text=last.text[:m.start()])])
            out.append((repr(head), C(int(m.group(1))), SegStr.lit(m.group(1)), part))
        else:
            return None
    return out


# ---------------------------------------------------------------------------------------------------------------------
# the helper under analysis and the ways identifiers are handed to it

ROLES = (('objs', 0), ('parent_obj', 1), ('delimiter', 2), ('format', 3))


def range_anchor(repo):
    """(module, function, {role: parameter name}).  The helper is private: what the callers rely on is the order
    (collection, parent object, delimiter, output form); a parameter that still carries its documented name is taken
    by name, otherwise the one at the documented position.  A signature that offers neither is a moved anchor."""
    m = repo.module('pmutt.cantera')
    fn = m.functions.get('_get_omkm_range')
    if fn is None:
        raise AnchorError('pmutt.cantera._get_omkm_range not found')
    names = [p.arg for p in fn.args.args]
    if fn.args.posonlyargs or len(names) < len(ROLES):
        raise AnchorError('pmutt.cantera._get_omkm_range: parameters (collection, parent object, delimiter, output '
                          'form) expected, found (%s)' % ', '.join(names))
    par = {role: (role if role in names else names[pos]) for role, pos in ROLES}
    if len(set(par.values())) != len(ROLES):
        raise AnchorError('pmutt.cantera._get_omkm_range: parameters (%s) cannot be told apart' % ', '.join(names))
    return m, fn, par


def call_range(I, anchor, objs, form=None, delimiter=None, parent=None):
    m, fn, par = anchor
    kw = {par['objs']: objs}
    if form is not None:
        kw[par['format']] = form
    if delimiter is not None and delimiter != '_':
        kw[par['delimiter']] = delimiter
    if parent is not None:
        kw[par['parent_obj']] = parent
    return I.call_function(m, fn, [], kw)


GIVEN_AS = ('strings', 'objects with id', 'objects with name', 'strings and objects mixed', 'tuple of strings')


def given_as(ids, how, I=None):
    """the collection handed over: the identifiers themselves, objects that carry them as ``id``, objects without
    ``id`` that carry them as ``name``, all three in one collection, a tuple, a set (concrete identifiers only)"""
    def with_id(k, i):
        return Obj('o%d' % k, attrs={'id': i})

    def with_name(k, i):
        o = Obj('n%d' % k, attrs={'name': i})
        o.missing.add('id')
        return o
    if how == 'strings':
        return ListV(list(ids))
    if how == 'set of strings':
        return make_set(I, list(ids))
    if how == 'tuple of strings':
        t = ListV(list(ids))
        t.is_tuple = True
        return t
    if how == 'objects with id':
        return ListV([with_id(k, i) for k, i in enumerate(ids)])
    if how == 'objects with name':
        return ListV([with_name(k, i) for k, i in enumerate(ids)])
    return ListV([(i, with_id(k, i), with_name(k, i))[k % 3] for k, i in enumerate(ids)])


def spelling_decided(I, what, m):
    """a branch on the characters of a symbolic identifier or token was taken as 'no' by the interpreter (text hazard):
    the abstract result then holds for some spellings only, so the symbolic instance is not decided"""
    if I.hazards:
        node, txt = I.hazards[0]
        raise Unsupported('%s: the outcome depends on how a symbolic text is spelled (%s); the concrete instances '
                          'were decided, the symbolic ones are not' % (what, txt), node, m.relpath)


# ---------------------------------------------------------------------------------------------------------------------
# ranges, concrete identifiers

def expand(I, entries, delim):
    """reference reading of the notation: each entry is a quoted identifier or a quoted ``first to last``; a range
    stands for every integer suffix from first to last under the common prefix, the ends spelled as written and the
    members between them padded like the shorter end.  None when an entry cannot be read."""
    out = []
    for e in entries:
        e = I.plain(e)
        if not isinstance(e, str) or len(e) < 2 or e[0] != '"' or e[-1] != '"':
            return None
        ends = e[1:-1].split(' to ')
        if len(ends) == 1:
            out.append(ends[0])
            continue
        if len(ends) != 2:
            return None
        (ha, sa, fa), (hb, sb_, fb) = ends[0].rpartition(delim), ends[1].rpartition(delim)
        if (ha, sa) != (hb, sb_) or not (fa.isdigit() and fb.isdigit()) or int(fa) > int(fb):
            return None
        pad = min(len(fa), len(fb))
        for k_ in range(int(fa), int(fb) + 1):
            f_ = fa if k_ == int(fa) else fb if k_ == int(fb) else str(k_).zfill(pad)
            out.append(ha + sa + f_)
    return out


def sixty():
    ids = ['rxn_%04d' % k for k in range(1, 41) if k % 7] + ['s_%04d' % k for k in (9996, 9997, 9999)] + \
        ['s_%d' % k for k in range(10000, 10012)] + ['rxn_0003', 'rxn_0004', 's_10000', 'q_0000', 'q_99999', 'q_99998']
    # deterministic shuffle
    return [ids[(k * 37) % len(ids)] for k in range(len(ids))]


CONCRETE_IDS = [
    # (label, delimiter, identifiers)
    ('four to five digits', '_', ['r_9998', 'r_9999', 'r_10000', 'r_10001']),
    ('four to five digits, descending', '_', ['r_10001', 'r_10000', 'r_9999', 'r_9998']),
    ('five digits first, then four', '_', ['r_10000', 'r_9999']),
    ('five digits', '_', ['r_10000', 'r_10001', 'r_10003']),
    ('two prefixes, mixed order', '_', ['s_0007', 'r_0002', 's_0008', 'r_0001', 'r_0004']),
    ('two prefixes of different widths', '_', ['s_12000', 's_0002', 's_0003', 'r_0001']),
    ('three prefixes, widths mixed under each', '_', ['s_12000', 'r_0001', 't_10000', 's_0002', 't_9999', 'r_0002',
                                                      's_0003', 't_9997']),
    ('one duplicate, one hole', '_', ['r_0001', 'r_0001', 'r_0002', 'r_0003', 'r_0005']),
    ('duplicates and holes, two prefixes', '_', ['s_0010', 'r_0002', 's_0012', 'r_0002', 'r_0004', 's_0012']),
    ('all equal', '_', ['r_0005', 'r_0005']),
    ('duplicate inside a run', '_', ['r_0001', 'r_0002', 'r_0002', 'r_0003']),
    ('duplicate at the end of a run', '_', ['r_0003', 'r_0001', 'r_0002', 'r_0003']),
    ('two duplicates, two holes', '_', ['r_0002', 'r_0002', 'r_0004', 'r_0004', 'r_0006', 'r_0007']),
    ('single', '_', ['r_0042']),
    ('empty prefix', '_', ['0003', '0001', '0002', '0007']),
    ('prefix containing the delimiter', '_', ['a_b_0002', 'a_b_0001', 'a_c_0001', 'a_b_0004', 'a_0003']),
    ('prefix with digits', '_', ['r2_0001', 'r2_0002', 'r10_0001', 'r2_0003']),
    ('suffixes 0 and 99999', '_', ['r_0000', 'r_99999', 'r_99998', 'r_0001']),
    ('delimiter -', '-', ['rxn-0002', 'rxn-0001', 's-10000', 's-9999', 'a_b-0004']),
    ('delimiter .', '.', ['rxn.0002', 'rxn.0004', 'rxn.0003', 's.0001', 's.0001']),
    ('sixty identifiers', '_', sixty()),
]


ALL_WAYS = ('four to five digits, descending', 'two prefixes, mixed order', 'one duplicate, one hole',
            'three prefixes, widths mixed under each', 'empty prefix', 'delimiter -')


def ranges_concrete(run, repo, anchor, thorough):
    m, fn, par = anchor
    cases = list(CONCRETE_IDS)
    if thorough:
        for k, perm in enumerate(itertools.permutations(['r_9998', 'r_9999', 'r_10000', 'r_10001', 's_0001'])):
            cases.append(('orderings across 9999/10000 #%d' % k, '_', list(perm)))
        for k, ms in enumerate(itertools.combinations_with_replacement((9997, 9998, 9999, 10000, 10001, 10003), 4)):
            cases.append(('multisets across 9999/10000 #%d' % k, '_', ['r_%04d' % v for v in reversed(ms)]))
    n = 0
    for k, (label, delim, ids_) in enumerate(cases):
        # every way of handing the identifiers over for the lists that differ in kind, strings and one more in turn for
        # the others
        hows = GIVEN_AS + ('set of strings',) if label in ALL_WAYS else GIVEN_AS[:1] if '#' in label else \
            (GIVEN_AS[0], GIVEN_AS[1 + k % 4])
        for how in hows:
            I = Interp(repo)
            lst = call_range(I, anchor, given_as(ids_, how, I), 'list', delim)
            st = call_range(I, anchor, given_as(ids_, how, I), None, delim)
            n += 1
            tag = '%s, %s' % (label, how)
            if isinstance(lst, Raised) or isinstance(st, Raised):
                run.fail('REF.range', 'cantera._get_omkm_range', 'raises', '[%s] identifiers %s raise %s'
                         % (tag, ids_[:8], show(lst if isinstance(lst, Raised) else st)), m, fn)
                continue
            got = expand(I, lst.items, delim) if isinstance(lst, ListV) else None
            dup = len(set(ids_)) != len(ids_)
            ok = got is not None and set(got) == set(ids_) and (dup or sorted(got) == sorted(ids_))
            why = ''
            if got is not None and not ok:
                why = ' (not given: %s; lost: %s)' % (sorted(set(got) - set(ids_))[:4], sorted(set(ids_) - set(got))[:4])
            run.check(ok, 'REF.range', 'cantera._get_omkm_range', 'concrete identifiers: ' + label,
                      '[%s] identifiers %s come back as %s, which does not denote exactly the identifiers given%s'
                      % (tag, ids_[:10], show(lst, 160), why), m, fn,
                      sample='%s -> %s' % (ids_[:8], show(lst, 100)) if how == 'strings' else None)
            ps = I.plain(st)
            ref = '[' + ', '.join(str(I.plain(e)) for e in lst.items) + ']' if isinstance(lst, ListV) else None
            run.check(isinstance(ps, str) and ps == ref, 'REF.range-forms', 'cantera._get_omkm_range',
                      'list form == string form', '[%s] string form %s is not the list form %s joined'
                      % (tag, show(st, 160), show(lst, 160)), m, fn)
    return n


def known_respelling(run, repo, anchor):
    """suffixes that are not written with four digits.  On the unchanged tree they are renamed (known finding); the
    signature spells out which identifier comes back how, so that only this respelling is covered by the entry."""
    m, fn, par = anchor
    short = ['r_5', 'r_6', 'r_12', 's_007', 't_00042']
    I = Interp(repo)
    lst = call_range(I, anchor, ListV(list(short)), 'list', None, Obj('parent', repo.cls('pmutt._pmuttBase')))
    if isinstance(lst, Raised):
        # rejected with an error rather than altered: what the property asks for
        run.check(lst.exc == 'ValueError', 'PATH.reject', 'cantera._get_omkm_range', 'suffix not four digits wide',
                  'identifiers %s: rejected with %s, ValueError expected' % (short, lst.exc), m, fn)
        return
    got = expand(I, lst.items, '_') if isinstance(lst, ListV) else None
    pairs = None
    if got is not None:
        back = {}
        for g in got:
            h_, s_, f_ = g.rpartition('_')
            if f_.isdigit():
                back.setdefault((h_, int(f_)), g)
        pairs = ['%s->%s' % (s, back.get((s.rpartition('_')[0], int(s.rpartition('_')[2])), '(lost)')) for s in short]
        pairs = [p_ for p_ in pairs if p_.split('->')[0] != p_.split('->')[1]]
        if not pairs and set(got) != set(short):
            pairs = ['added:%s' % ','.join(sorted(set(got) - set(short))[:4])]
    sig = ' '.join(pairs) if pairs is not None else 'unreadable:%s' % show(lst, 80)
    run.check(pairs == [], 'REF.range-spelling', 'cantera._get_omkm_range', 'suffix re-emitted with a fixed {:04d}',
              'identifiers %s come back as %s (%s): a suffix that was not written with four digits is renamed instead '
              'of being kept or rejected' % (short, show(lst, 120), sig), m, fn, sig=sig)


# ---------------------------------------------------------------------------------------------------------------------
# ranges, abstract identifiers

def ranges(run, repo, anchor, thorough):
    m, fn, par = anchor
    n = 0
    # (prefix parts, offsets in input order (duplicates allowed), digits of the printed suffix)
    offs = [[0], [3, 1, 2], [5, 7, 6, 9], [2, 2, 3], [10, 1, 2, 12, 11, 4], [0, 1, 3, 4, 6]]
    # duplicates together with holes (as many duplicates as missing values and otherwise), duplicates inside and at the
    # end of a run, nothing but duplicates
    offs_dup = [[1, 1, 2, 3, 5], [2, 2, 4], [5, 5, 5, 8], [3, 1, 1, 4, 6, 6], [1, 2, 2, 3], [1, 2, 3, 3], [5, 5]]
    prefixes = [[('r', 1)], [('rxn', 3)], [], [('a', 1), ('b', 2)]]
    combos = [(pre, off, digits, '_') for pre, off, digits in itertools.product(prefixes, offs, (4, 5))]
    # a delimiter other than the default: the ids must come back with the delimiter they were given
    combos += [(pre, off, 4, dl) for pre, off, dl in itertools.product(prefixes[1:], offs[:3], ('-', '.'))]
    len_old = len(combos)
    combos += [(prefixes[(k + j) % 4], off, 4, '_') for k, off in enumerate(offs_dup) for j in (0, 2)]
    combos += [(prefixes[1 + k % 3], offs_dup[k], 4, dl) for k, dl in enumerate(('-', '.'))]
    len_quick = len(combos)
    if thorough:
        # every multiset of up to five offsets out of 0..5, given in descending order
        seen = {tuple(sorted(o)) for o in offs + offs_dup}
        for k in range(2, 6):
            for ms in itertools.combinations_with_replacement(range(6), k):
                if ms not in seen:
                    combos.append((prefixes[(len(combos)) % 4], list(reversed(ms)), 4, '_'))
    for ci, (pre, off, digits, delim) in enumerate(combos):
        for mixed in (False, True):
            if ci >= len_quick and mixed:
                continue
            I = Interp(repo)
            I.int_syms.update({'N', 'M'})       # the suffixes are integers (printed with d)
            D = I.D
            base = D.sym('N')
            ids = []
            for o in off:
                ids.append(make_id(I, pre, base, o, digits, delim))
            if mixed:
                # a second prefix interleaved
                base2 = D.sym('M')
                extra = [make_id(I, [('zz', 2)], base2, o, digits, delim) for o in (1, 2, 5)]
                ids = [x for pair in itertools.zip_longest(ids, extra) for x in pair if x is not None]
            label = 'prefix=%s suffix offsets=%s digits=%d%s%s' % (
                delim.join(p[0] for p in pre) or '(none)', off, digits, ' +second prefix' if mixed else '',
                '' if delim == '_' else ' delimiter=%r' % delim)
            texts = [i[0] for i in ids]
            # strings and objects with id everywhere; objects with name / all three ways in one collection in turn
            third = GIVEN_AS[2 + (ci // 3) % 2]
            if ci < len_old:
                hows = ['strings', 'objects with id'] + ([third] if not mixed and ci % 3 == 0 else [])
            elif ci < len_quick:
                hows = ['strings', third] if mixed else ['strings', 'objects with id']
            else:
                hows = ['strings']
            for oname in hows:
                lst = call_range(I, anchor, given_as(texts, oname), 'list', delim)
                st = call_range(I, anchor, given_as(texts, oname), None, delim)
                n += 1
                if isinstance(lst, Raised) or isinstance(st, Raised):
                    run.fail('REF.range', 'cantera._get_omkm_range', 'raises', '[%s, %s] raises %s'
                             % (label, oname, show(lst if isinstance(lst, Raised) else st)), m, fn)
                    continue
                spelling_decided(I, 'cantera._get_omkm_range [%s]' % label, m)
                # denoted set: header -> set of suffix values
                want = {}
                for sid, val in ids:
                    segs = sid.segs
                    want.setdefault(repr(SegStr(segs[:-1])), []).append(val)
                got = {}
                ok = isinstance(lst, ListV)
                renamed = None
                if ok:
                    for e in lst.items:
                        parts = split_entry(I, e)
                        if not parts or len(parts) > 2 or (len(parts) == 2 and parts[0][0] != parts[1][0]):
                            ok = False
                            break
                        lo, hi = parts[0][1], parts[-1][1]
                        d_ = hi - lo
                        if not (d_.is_const() or d_.iszero()):
                            ok = False
                            break
                        span = int(d_.const_value()) if not d_.iszero() else 0
                        for k in range(span + 1):
                            got.setdefault(parts[0][0], []).append(lo + k)
                        # an identifier must be emitted with the spelling it came with
                        for hdr, val, suf, whole in parts:
                            for sid, v2 in ids:
                                if v2.eq(val) and repr(SegStr(sid.segs[:-1])) == hdr:
                                    if len(I.seg(sid)) != len(whole):
                                        renamed = (sid, whole)
                if ok:
                    for h in set(want) | set(got):
                        a = sorted({repr(x) for x in want.get(h, [])})
                        b = sorted({repr(x) for x in got.get(h, [])})
                        if a != b:
                            ok = False
                run.check(ok, 'REF.range', 'cantera._get_omkm_range', 'same set of identifiers',
                          '[%s, %s] the ranges %s do not denote exactly the identifiers given'
                          % (label, oname, show(lst, 200)), m, fn,
                          sample='[%s] %s' % (label, show(st, 160)) if n % 17 == 0 else None)
                # not the key of the known finding (suffixes that are not four digits wide): every identifier of these
                # instances is written with four or five digits, none of them may come back respelled
                run.check(renamed is None, 'REF.range-spelling', 'cantera._get_omkm_range',
                          'every identifier keeps its spelling',
                          '[%s, %s] identifier %s is written as %s: renamed instead of being kept or rejected'
                          % (label, oname, show(renamed[0] if renamed else None, 60),
                             show(renamed[1] if renamed else None, 60)), m, fn,
                          sig=(lambda r_=renamed: '%s -> %s' % (show(r_[0], 60), show(r_[1], 60))))
                # string form consistent with the list form
                if isinstance(lst, ListV) and isinstance(st, (SegStr, str)):
                    joined = SegStr.lit('[')
                    for k, e in enumerate(lst.items):
                        if k:
                            joined = joined + ', '
                        joined = joined + I.seg(e)
                    joined = joined + ']'
                    run.check(repr(I.seg(st)) == repr(joined), 'REF.range-forms', 'cantera._get_omkm_range',
                              'list form == string form', '[%s] string form %s is not the list form joined'
                              % (label, show(st, 160)), m, fn)
    return n


def rejections(run, repo, anchor):
    """identifiers that cannot be encoded are rejected"""
    m, fn, par = anchor
    parent = Obj('parent', repo.cls('pmutt._pmuttBase'))
    I = Interp(repo)
    I.sym_strings[Z + 'word'] = (4, 'alpha')
    nameless = Obj('o', attrs={'name': C(7)})
    nameless.missing.add('id')
    for label, objs, exc in (('non-string id', ListV([Obj('o', attrs={'id': C(5)})]), 'TypeError'),
                             ('id None', ListV([Obj('o', attrs={'id': None}), 'r_0001']), 'TypeError'),
                             ('id None after valid identifiers', ListV(['r_0001', Obj('o', attrs={'id': None})]),
                              'TypeError'),
                             ('non-string name', ListV([nameless]), 'TypeError'),
                             ('a number in place of an identifier', ListV(['r_0001', C(3)]), 'TypeError'),
                             ('non-integer suffix', ListV([SegStr.lit('r_') + SegStr.field(Z + 'word', 4, 'alpha')]),
                              'ValueError')):
        for form in (None, 'list'):
            r = call_range(I, anchor, objs, form, None, parent)
            run.check(isinstance(r, Raised) and r.exc == exc, 'PATH.reject', 'cantera._get_omkm_range', label,
                      '%s must be rejected with %s, got %s' % (label, exc, show(r)), m, fn)
    # concrete identifiers: suffixes that are no integers
    for label, ids_ in (('suffix 1.5', ['r_0001', 'r_1.5', 'r_0002']), ('suffix 1e3', ['r_1e3']),
                        ('empty suffix', ['r_0001', 'r_']), ('suffix of letters', ['r_0001', 'r_000a'])):
        I = Interp(repo)
        r = call_range(I, anchor, ListV(list(ids_)), 'list', None, parent)
        # (a suffix with a sign, 'r_-0002': int() reads it as an integer; what happens to it is not promised either way)
        run.check(isinstance(r, Raised) and r.exc == 'ValueError', 'PATH.reject', 'cantera._get_omkm_range', label,
                  'identifiers %s: a suffix that is not an integer must be rejected with ValueError, got %s'
                  % (ids_, show(r, 120)), m, fn)
    for objs in (ListV([]), given_as([], 'tuple of strings')):
        I = Interp(repo)
        r = call_range(I, anchor, objs)
        run.check(r == '[]', 'REF.range', 'cantera._get_omkm_range', 'empty', 'empty collection must give [] (got %s)'
                  % show(r), m, fn)


HISTORY_IDS = [
    # (label, identifiers, delimiter of the first call, delimiter of the second call).  Under the second delimiter the
    # identifiers cannot be encoded (what follows it is no integer), or split at another place
    ("prefix containing the other delimiter, '-' then '_'", ['a_1-0005', 'a_1-0006', 'a_1-0008'], '-', '_'),
    ("no '_' in the identifiers, '-' then '_'", ['x-0007', 'x-0008', 'y-0002'], '-', '_'),
    ("'.' then '-'", ['rxn-a.0002', 'rxn-a.0001', 's.0004'], '.', '-'),
    ("'_' then '.'", ['r.b_0001', 'r.b_0002', 'r.b_0004', 'q_0003'], '_', '.'),
    ("no delimiter at all, '-' then '_'", ['0003', '0001', '0002', '0007'], '-', '_'),
]


def _outcome(I, r):
    """what a caller sees of one call: the error class, or the entries / the text returned"""
    if isinstance(r, Raised):
        return ('raises', r.exc)
    if isinstance(r, ListV):
        return ('list', tuple(I.plain(e) for e in r.items))
    return ('value', I.plain(r))


def delimiter_history(run, repo, anchor):
    """several calls in one process: a call answers for ITS arguments, whatever was asked before.  The same identifiers
    are handed over first with one delimiter and then with another one (the second call differs in that argument
    only); each call of the history must give what the same call gives when it is the first one after import - ids
    that cannot be encoded with the second delimiter are rejected, not re-emitted with the split of the first call -
    and the caller's collection is left as it was.  Variants: a new collection per call / the same collection object
    reused; strings / objects with id; the second call in list form and in string form; the first delimiter again
    after the second."""
    m, fn, par = anchor
    n = 0
    for label, ids_, d1, d2 in HISTORY_IDS:
        for how, reuse in (('strings', False), ('strings', True), ('objects with id', True)):
            for form2 in ('list', None):
                # (delimiter, output form) of the calls, in order
                calls = [(d1, 'list'), (d2, form2), (d1, None), (d2, 'list' if form2 is None else None)]
                # reference: every call on its own, first thing after import
                fresh = []
                for dl, form in calls:
                    If = Interp(repo)
                    pf = Obj('parent', repo.cls('pmutt._pmuttBase'))
                    fresh.append(_outcome(If, call_range(If, anchor, given_as(ids_, how, If), form, dl, pf)))
                I = Interp(repo)
                parent = Obj('parent', repo.cls('pmutt._pmuttBase'))
                shared = given_as(ids_, how, I)
                before = list(shared.items)
                for k, (dl, form) in enumerate(calls):
                    objs = shared if reuse else given_as(ids_, how, I)
                    got = _outcome(I, call_range(I, anchor, objs, form, dl, parent))
                    n += 1
                    tag = '%s, %s, %s' % (label, how, 'same collection object' if reuse else 'new collection per call')
                    past = ', '.join('delimiter=%r' % c[0] for c in calls[:k]) or 'nothing'
                    run.check(got == fresh[k], 'REF.range-history', 'cantera._get_omkm_range',
                              'other delimiter after a first call',
                              '[%s] call %d (delimiter=%r, %s form) after %s: identifiers %s give %s, but %s when this is '
                              'the first call after import: the answer depends on what was asked before'
                              % (tag, k + 1, dl, form or 'string', past, ids_, got[1:], fresh[k][1:]), m, fn,
                              sample='%s: %r then %r -> %s' % (ids_, d1, d2, got[:2]) if k == 1 and n % 8 == 2 else None)
                run.check(len(shared.items) == len(before) and all(x is y for x, y in zip(shared.items, before)),
                          'EFFECT.range-argument', 'cantera._get_omkm_range', 'collection handed over is unchanged',
                          '[%s] the collection handed over is changed by the calls' % label, m, fn)
    return n


# ---------------------------------------------------------------------------------------------------------------------
# the writers that emit the ranges: the reactions= / interactions= fields of phases, the member lists of BEP relations

CALLER_IDS = {
    # delimiter: (reaction ids, interaction ids): runs, a hole, two prefixes, a prefix containing another delimiter
    '_': (['r_0001', 'r_0002', 'r_0004', 'a_b_0010', 'a_b_0011'], ['i_0001', 'i_0002', 'i_0004']),
    '-': (['rxn-0001', 'rxn-0002', 'rxn-0004', 'a_b-0004', 'a_b-0005'], ['lat-0001', 'lat-0002']),
    '.': (['rxn.0002', 'rxn.0004', 'rxn.0003', 's.0001'], ['lat.0007', 'lat.0005', 'lat.0006']),
}


def field_entries(text, keyword):
    """the entries of ``keyword=[...]`` in a CTI directive (CTI is Python syntax: a bracketed list of quoted texts), each
    in its quotes again; None when the keyword is not there once or is not followed by such a list"""
    import ast
    import re
    found = list(re.finditer(r'(?<![A-Za-z0-9_])%s\s*=\s*' % re.escape(keyword), text))
    if len(found) != 1:
        return None
    rest = text[found[0].end():]
    if not rest.startswith('['):
        return None
    depth = 0
    quote = None
    for k, ch in enumerate(rest):
        if quote:
            if ch == quote:
                quote = None
        elif ch in '"\'':
            quote = ch
        elif ch == '[':
            depth += 1
        elif ch == ']':
            depth -= 1
            if depth == 0:
                try:
                    val = ast.literal_eval(rest[:k + 1])
                except (ValueError, SyntaxError):
                    return None
                if not (isinstance(val, list) and all(isinstance(x, str) for x in val)):
                    return None
                return ['"%s"' % x for x in val]
    return None


def member(I, ident, by, **attrs):
    """a reaction (identified by ``id``) or a lateral interaction (by ``name``, no ``id``) as the writers see them"""
    o = Obj('member<%s>' % ident, attrs=dict({by: ident}, **attrs))
    if by == 'name':
        o.missing.add('id')
    # IdealGas / StoichSolid keep the reactions all of whose species are in the phase (or in none)
    o.opaque_methods['get_species'] = lambda I_, obj, a, k: DictV()
    o.opaque_params['get_species'] = ('include_TS', 'key')
    return o


def callers(run, repo):
    """every writer that hands a collection of identifiers to the helper, entered through its public method with each
    delimiter: the field it writes must denote exactly the identifiers of its members"""
    n = 0

    def denotes(I, entries, ids_, delim):
        got = expand(I, entries, delim) if entries is not None else None
        return got is not None and sorted(got) == sorted(ids_), got

    for delim in ('_', '-', '.'):
        rids, iids = CALLER_IDS[delim]
        kw_d = {} if delim == '_' else {'delimiter': delim}
        how_d = 'default delimiter' if delim == '_' else 'delimiter=%r' % delim
        # ---- phases
        for qual, fields in (('pmutt.cantera.phase.IdealGas', ('reactions',)),
                             ('pmutt.omkm.phase.IdealGas', ('reactions',)),
                             ('pmutt.omkm.phase.InteractingInterface', ('reactions', 'interactions'))):
            ci = repo.cls(qual)
            owner, fn = repo.find_method(ci, 'to_cti')
            run.fn(owner.qual + '.to_cti')
            cn = '%s.%s' % (qual.split('.')[1], ci.name)
            for as_tuple in (False, True):
                I = Interp(repo)
                sp = [Obj('sp%d' % k, attrs={'name': nm, 'elements': DictV({el: C(1)}), 'phase': None})
                      for k, (nm, el) in enumerate((('H2O(S)', 'H'), ('CO(S)', 'C')))]
                rx = [member(I, i_, 'id', bep=None) for i_ in rids]
                li = [member(I, i_, 'name') for i_ in iids]
                kw = {'name': 'phase1', 'species': ListV(sp), 'reactions': ListV(rx)}
                if as_tuple:
                    kw['reactions'].is_tuple = True
                if 'interactions' in fields:
                    kw.update({'interactions': ListV(li), 'site_density': I.D.sym('sden'), 'phases': ListV(['gas'])})
                    if as_tuple:
                        kw['interactions'].is_tuple = True
                ph = I.construct(ci, [], kw, name='phase1')
                if not isinstance(ph, Obj):
                    raise Unsupported('%s(...) gives %s for a phase with %d reactions' % (qual, show(ph, 80), len(rx)))
                out = I.call_method(ph, 'to_cti', [], dict(kw_d))
                n += 1
                label = '%s, %s%s' % (cn, how_d, ', members given as tuples' if as_tuple else '')
                if isinstance(out, Raised):
                    run.fail('REF.range-writers', cn + '.to_cti', 'raises [%s]' % how_d,
                             '[%s] a phase with the reactions %s%s cannot be written: to_cti raises %s'
                             % (label, rids, ' and the interactions %s' % iids if 'interactions' in fields else '',
                                show(out, 100)), owner.module, fn)
                    continue
                if not isinstance(out, (str, SegStr)):
                    raise Unsupported('%s.to_cti gives %s, a text expected' % (cn, show(out, 80)), fn,
                                      owner.module.relpath)
                lit = ''.join(s_.text if s_.kind == 'lit' else '\x01' for s_ in I.seg(out).segs)
                for field in fields:
                    ids_ = rids if field == 'reactions' else iids
                    ok, got = denotes(I, field_entries(lit, field), ids_, delim)
                    run.check(ok, 'REF.range-writers', cn + '.to_cti', '%s= [%s]' % (field, how_d),
                              '[%s] the phase has the %s %s; its entry says %s=%s, which denotes %s'
                              % (label, field, ids_, field, field_entries(lit, field), got), owner.module, fn,
                              sample='%s.to_cti(%s): %s=%s' % (cn, how_d, field, field_entries(lit, field))
                              if not as_tuple else None)
        # ---- BEP relations: both member lists in the CTI directive; in the YAML entry (default delimiter only: the
        # method offers no other)
        ci = repo.cls('pmutt.omkm.reaction.BEP')
        syn, cle = rids[:3], rids[3:] + [rids[0]]
        for meth in ('to_cti', 'to_omkm_yaml'):
            if meth == 'to_omkm_yaml' and delim != '_':
                continue
            owner, fn = repo.find_method(ci, meth)
            run.fn(owner.qual + '.' + meth)
            for given in ('lists', 'tuples', 'one side empty'):
                I = Interp(repo)
                s_ids, c_ids = (syn, cle) if given != 'one side empty' else ([], cle)
                ms, mc = (ListV([member(I, i_, 'id') for i_ in x_]) for x_ in (s_ids, c_ids))
                ms.is_tuple = mc.is_tuple = given == 'tuples'
                bep = I.construct(ci, [], {'name': 'bep_1', 'slope': I.D.sym('slope'), 'intercept': I.D.sym('icpt'),
                                           'direction': 'cleavage', 'descriptor': 'delta_H',
                                           'synthesis_reactions': ms, 'cleavage_reactions': mc}, name='bep_1')
                if not isinstance(bep, Obj):
                    raise Unsupported('omkm.reaction.BEP(...) gives %s' % show(bep, 80))
                out = I.call_method(bep, meth, [], dict(kw_d, act_energy_unit='kcal/mol'))
                n += 1
                label = 'BEP.%s, %s, members given as %s' % (meth, how_d, given)
                if isinstance(out, Raised):
                    run.fail('REF.range-writers', 'BEP.' + meth, 'raises [%s]' % how_d,
                             '[%s] a relation over the synthesis reactions %s and the cleavage reactions %s cannot be '
                             'written: raises %s' % (label, s_ids, c_ids, show(out, 100)), owner.module, fn)
                    continue
                for side, ids_ in (('synthesis', s_ids), ('cleavage', c_ids)):
                    if meth == 'to_cti':
                        if not isinstance(out, (str, SegStr)):
                            raise Unsupported('BEP.to_cti gives %s, a text expected' % show(out, 80), fn,
                                              owner.module.relpath)
                        lit = ''.join(s_.text if s_.kind == 'lit' else '\x01' for s_ in I.seg(out).segs)
                        entries = field_entries(lit, side + '_reactions')
                    else:
                        if not isinstance(out, DictV):
                            raise Unsupported('BEP.to_omkm_yaml gives %s, a dictionary expected' % show(out, 80), fn,
                                              owner.module.relpath)
                        v_ = out.d.get(side + '-reactions')
                        # an empty member list is left out of the YAML entry or written as an empty list
                        entries = [] if v_ is None and not ids_ else \
                            [I.plain(e_) for e_ in v_.items] if isinstance(v_, ListV) else None
                        if entries is not None and not all(isinstance(e_, str) for e_ in entries):
                            entries = None
                    ok, got = denotes(I, entries, ids_, delim)
                    run.check(ok, 'REF.range-writers', 'BEP.' + meth, '%s reactions [%s]' % (side, how_d),
                              '[%s] the relation has the %s reactions %s; its entry lists %s, which denotes %s'
                              % (label, side, ids_, entries, got), owner.module, fn,
                              sample='BEP.%s(%s): %s reactions %s' % (meth, how_d, side, entries)
                              if given == 'lists' else None)
    return n



# ---------------------------------------------------------------------------------------------------------------------
# wrapping

def wrap_anchor(repo):
    m = repo.module('pmutt.io.cantera')
    fn = m.functions.get('obj_to_cti')
    if fn is None:
        raise AnchorError('pmutt.io.cantera.obj_to_cti not found')
    return m, fn


WRAP_CALLS = ('widths by name', 'all three by position', 'value by position, widths by name')


def call_wrap(I, anchor, obj, line_len, max_len, how):
    """obj_to_cti is public: its documented signature is (obj, line_len, max_line_len) and both the names and the
    positions belong to it (the package's own callers hand the value over by position and the widths by name)"""
    m, fn = anchor
    if how == WRAP_CALLS[1]:
        return I.call_function(m, fn, [obj, C(line_len), C(max_len)], {})
    if how == WRAP_CALLS[2]:
        return I.call_function(m, fn, [obj], {'line_len': C(line_len), 'max_line_len': C(max_len)})
    return I.call_function(m, fn, [], {'obj': obj, 'line_len': C(line_len), 'max_line_len': C(max_len)})


SPECIES = ['"H2O(S)"', '"CO(S)"', '"OH(S)"', '"COOH(S)"', '"HCOO(S)"', '"CH3O(S)"', '"H(S)"', '"O(S)"', '"N2(S)"',
           '"NH3(S)"', '"CO2(S)"', '"PT(S)"']
HYPHENS = ['CO-Pt(S)', 'OH-Pt(S)', 'top-fcc', 'bridge-hcp', 'COOH-trans(S)', 'COOH-cis(S)', 'HCOO-bidentate(S)',
           'CH3O-top(S)', 'formate-mono(S)', 'water-dimer(S)']
CONCRETE_TOKENS = [
    # (label, tokens, [(line_len, max_line_len)]): tokens spelled with the characters a CTI value is made of - a branch
    # on the characters of a token is decided here, the symbolic instances cannot decide it
    ('every token in its own quotes', SPECIES, [(40, 60), (30, 30), (80, 80)]),
    ('quotes at both ends of the value', ['"site', 'fcc', 'hcp', 'top', 'bridge', 'hollow', 'step', 'kink', 'terrace',
                                          'edge"'], [(30, 30), (40, 60)]),
    ('one short quoted token', ['"a"'], [(30, 30)]),
    ('hyphenated tokens', HYPHENS, [(40, 60), (30, 30)]),
    ('comment signs, commas, colons', ['#first', 'x,', 'y,', '#', 'a:1', 'b=2', '(c)', '[d]', 'e;', "'f'", '#last',
                                       'g\\h', 'i/j', '*', 'k%', '@l', '{m}', 'n!', 'o?', '~p'], [(30, 30), (50, 80)]),
    ('equal neighbours', ['H2O', 'H2O', 'CO', 'CO', 'CO', 'OH', 'H2O', 'H2O', '1.0', '1.0', '1.0', '0', '0', 'x' * 30,
                          'x' * 30, 'OH', 'OH'], [(30, 30), (40, 60)]),
    ('digits only', ['%d' % (10 ** (k % 6)) for k in range(30)], [(30, 30), (100, 100)]),
    ('single characters', list('abcdefghijklmnopqrstuvwxyzABCDEFGHIJKLMNOPQRSTUVWXYZ0123456789-+*/=<>()[]{}#,.;:!?')[:80],
     [(30, 30), (40, 60)]),
    # (the first line may be wider than the others: a phase writes its name= field with max_line_len = line_len - 1)
    ('tokens as long as the room of a line', ['H2O(S)', 'A' * 30, 'CO(S)', 'B' * 30, 'OH(S)'],
     [(33, 33), (33, 60), (33, 32), (33, 31), (33, 30)]),
    ('tokens one shorter than the room of a line', ['H2O(S)', 'A' * 29, 'CO(S)', 'B' * 29, 'OH(S)'],
     [(33, 33), (32, 60), (32, 31), (32, 30)]),
    ('tokens of 28 characters', ['G' * 28, 'y', 'H' * 28, 'z', 'J' * 28], [(31, 30), (31, 31)]),
    ('a phase name of several words', ['terrace', 'of', 'the', 'Pt(111)', 'surface', 'K' * 50, 'next', 'to', 'the',
                                       'steps', 'L' * 40, 'and', 'kinks'], [(65, 64), (53, 52), (65, 80)]),
    ('tokens of 27 characters', ['C' * 27, 'x', 'D' * 27, 'E' * 27], [(30, 30), (31, 31), (30, 100)]),
    ('a token longer than a line', ['H2O', 'F' * 30, 'CO'], [(30, 30), (32, 40)]),
]


def read_back(text, line_len, max_len):
    """reference reading of a CTI value: (tokens, (line, length, limit, items) of a line that is too long or None);
    (None, None) when the text is not a quoted value"""
    if len(text) >= 6 and text.startswith('"""') and text.endswith('"""'):
        inner, q = text[3:-3], 3
    elif len(text) >= 2 and text[0] == '"' and text[-1] == '"':
        inner, q = text[1:-1], 1
    else:
        return None, None
    bad = None
    for li, line in enumerate(text.split('\n')):
        limit = line_len if li == 0 else max_len
        items = line.split()
        if len(line) <= limit or not items:
            continue
        # a line may be too long only when it holds a single token that does not fit into the room a line offers
        # (the requested width less the three columns of the quotes / of the indentation under them)
        w = len(items[0]) - (q if li == 0 else 0)
        if len(items) > 1 or w <= line_len - 3:
            bad = bad or (li, len(line), limit, len(items))
    return inner.split(), bad


def wrapping_concrete(run, repo, anchor, thorough):
    m, fn = anchor
    n = 0
    for label, toks, limits in CONCRETE_TOKENS:
        # a set where the tokens are distinct (what a phase hands over for elements=): the order is the set's business
        forms = [(l_, f_) for l_ in limits for f_ in ('list', 'tuple', 'string')] + \
            ([(l_, 'set') for l_ in limits[:2]] if len(set(toks)) == len(toks) else [])
        for (line_len, max_len), form in forms:
            how = WRAP_CALLS[(n + n // 3) % 3]
            I = Interp(repo)
            if form == 'string':
                obj = ' '.join(toks)
            elif form == 'set':
                obj = make_set(I, list(toks))
            else:
                obj = ListV(list(toks))
                obj.is_tuple = form == 'tuple'
            out = call_wrap(I, anchor, obj, line_len, max_len, how)
            n += 1
            tag = '%s: %s ... (%d tokens) line_len=%d max_line_len=%d given as %s, %s' % (
                label, ' '.join(toks[:3]), len(toks), line_len, max_len, form, how)
            if isinstance(out, Raised):
                run.fail('REF.wrap', 'io.cantera.obj_to_cti', 'raises', '[%s] raises %s' % (tag, out.exc), m, fn)
                continue
            text = I.plain(out)
            if not isinstance(text, str):
                raise Unsupported('obj_to_cti of concrete tokens gives %s, a text expected' % show(out, 80), fn,
                                  m.relpath)
            got, bad = read_back(text, line_len, max_len)
            run.check(got == toks or (form == 'set' and got is not None and sorted(got) == sorted(toks)),
                      'REF.wrap-tokens', 'io.cantera.obj_to_cti',
                      'every token once' + ('' if form == 'set' else ', in order'),
                      '[%s] the wrapped text reads %s' % (tag, (got or text)[:14]), m, fn,
                      sample='[%s] -> %d lines' % (tag, text.count('\n') + 1) if form == 'list' else None)
            run.check(bad is None, 'REF.wrap-width', 'io.cantera.obj_to_cti', 'line width',
                      '[%s] line %s is %s characters long (limit %s) although it holds %s items (tokens, closing '
                      'quotes)' % ((tag,) + (bad or (0, 0, 0, 0))), m, fn)
    return n


def wrapping(run, repo, anchor, thorough):
    m, fn = anchor
    n = 0
    widths_sets = [[], [5], [30], [10, 10, 10], [30, 30, 30, 30], [1] * 40, [29, 1, 29, 1, 29, 1, 29],
                   [12, 7, 3, 25, 30, 8, 8, 8, 14, 2, 2, 2, 19, 30, 30, 1, 5], [75, 3, 80, 2], [95],
                   # values whose joined length lies between the first-line width and the full width
                   [20, 20, 20], [15, 15, 15], [25, 25], [10] * 5, [7] * 9]
    limits = [(80, 80), (30, 30), (50, 80), (100, 100), (40, 60)]
    if thorough:
        widths_sets += [[w] * k for w in (7, 15, 26) for k in (3, 9, 20)]
    # (thorough: every width pattern also with the first line wider than the others)
    cases = [(w_, l_, 'list') for w_, l_ in itertools.product(
        widths_sets, limits + ([(65, 64), (53, 52), (33, 31)] if thorough else []))]
    # token widths derived from the limits: tokens that just fit into the room of a line (the requested width less the
    # three columns of the quotes / of the indentation), alone on their line, and the first one that does not
    # ... under every relation of the two widths: equal, first line narrower, and first line wider by one to three
    # columns (what the phases ask for their name= field: 65/64 and 53/52 at the default width; beyond three columns the
    # continuation indent would have to be negative)
    for l_ in limits + [(33, 33), (32, 60), (31, 100), (33, 32), (32, 31), (31, 30), (65, 64), (53, 52), (34, 32),
                        (35, 32), (33, 30)]:
        L = l_[0]
        cases.append(([5, L - 4, 5, L - 3, 5, L - 2, 5], l_, 'list'))
        cases.append(([L - 3, 5, L - 3, L - 4, L - 5], l_, 'list'))
        if thorough or L < 40:
            cases.append(([L - 2, L - 3, 1, L - 3], l_, 'list'))
            cases.append(([3, L - 5, L - 3, 2, L - 4], l_, 'tuple'))
    # the same value handed over as a tuple and as one blank-separated string
    cases += [(w_, l_, f_) for w_, l_, f_ in itertools.product(
        ([10, 10, 10], [29, 1, 29, 1, 29, 1, 29], [12, 7, 3, 25, 30, 8, 8, 8, 14, 2, 2, 2, 19, 30, 30, 1, 5], [5]),
        ((80, 80), (40, 60)), ('tuple', 'string'))]
    # a value in which tokens repeat (a species listed twice, equal numbers), apart and side by side
    cases += [([10, 10, 10, 10, 10, 10, 10, 10], l_, f_) for l_ in ((80, 80), (40, 60))
              for f_ in ('repeated', 'repeated side by side')]
    for widths, (line_len, max_len), form in cases:
        how = WRAP_CALLS[(n + n // 3) % 3]
        I = Interp(repo)
        toks = []
        for k, w in enumerate(widths):
            key = Z + 'tok%d' % (k % 3 if form == 'repeated' else (k // 2) % 3 if form.startswith('repeated') else k)
            I.sym_strings[key] = (w, 'any')          # tokens of a CTI value are free text without blanks
            toks.append(key)
        if form == 'string':
            obj = SegStr([])
            for k, t_ in enumerate(toks):
                obj = obj + (' ' if k else '') + SegStr.field(t_, widths[k], 'any')
        else:
            obj = ListV(list(toks))
            if form == 'tuple':
                obj.is_tuple = True
        out = call_wrap(I, anchor, obj, line_len, max_len, how)
        n += 1
        label = 'tokens=%s line_len=%d max_line_len=%d%s, %s' % (widths if len(widths) < 12 else
                                                                '%d tokens' % len(widths), line_len, max_len,
                                                                '' if form == 'list' else ' given as ' + form, how)
        if isinstance(out, Raised):
            run.fail('REF.wrap', 'io.cantera.obj_to_cti', 'raises', '[%s] raises %s' % (label, out.exc), m, fn)
            continue
        spelling_decided(I, 'io.cantera.obj_to_cti [%s]' % label, m)
        sb = I.seg(out)
        got = [s.value for s in sb.segs if s.kind == 'field']
        run.check(got == toks, 'REF.wrap-tokens', 'io.cantera.obj_to_cti', 'every token once, in order',
                  '[%s] tokens in the wrapped text are %s' % (label, [g.strip(Z) for g in got][:12]), m, fn,
                  sample='[%s] -> %d lines' % (label, len(sb.splitlines())) if n % 7 == 0 else None)
        lines = sb.splitlines()
        bad = None
        for li, line in enumerate(lines):
            L = len(line) - (1 if line.segs and line.segs[-1].kind == 'lit' and line.segs[-1].text.endswith('\n')
                             else 0)
            limit = line_len if li == 0 else max_len
            # items of a line: the tokens and the closing quotes (placed by the same greedy fill: they move to the
            # next line when they do not fit); the opening quotes are glued to the first token and are no item
            nq = sum(s_.text.count('"""') for s_ in line.segs if s_.kind == 'lit')
            if li == 0 and line.segs and line.segs[0].kind == 'lit' and line.segs[0].text.startswith('"""'):
                nq -= 1
            ntok = len(line.fields()) + nq
            if L > limit and ntok > 1:
                bad = (li, L, limit, ntok)
            elif L > limit and ntok == 1 and line.fields():
                # a line that holds a single token may be too long only because the token does not fit into the room
                # a line offers (the requested width less the three columns of the quotes / the indentation under them)
                wtok = line.fields()[0].width
                if wtok is not None and wtok <= line_len - 3:
                    bad = (li, L, limit, ntok)
        run.check(bad is None, 'REF.wrap-width', 'io.cantera.obj_to_cti', 'line width',
                  '[%s] line %s is %s characters long (limit %s) although it holds %s items (tokens, closing quotes)'
                  % ((label,) + (bad or (0, 0, 0, 0))), m, fn)
        # blanks between tokens on a line are literal separators only
        ok_sep = all(s.kind == 'field' or set(s.text) <= set(' "\n') for s in sb.segs)
        run.check(ok_sep, 'REF.wrap-tokens', 'io.cantera.obj_to_cti', 'only separators added',
                  '[%s] something other than blanks, quotes and newlines is added' % label, m, fn)
    return n


def check(run, repo):
    run.explanation = (
        '_get_omkm_range is interpreted (a) over concrete identifier collections - four- and five-digit suffixes under '
        'one prefix in every order, duplicates together with holes, one to three prefixes (empty, containing the '
        'delimiter, of different widths), three delimiters, sixty identifiers - handed over as strings, objects with '
        'id, objects with name only, all three mixed, and as a tuple: the emitted ranges are expanded again by a '
        'reference reading of the notation and must denote exactly the identifiers given, list and string forms '
        'agree; (b) over abstract identifiers (symbolic prefix text, literal delimiter, suffix N+k with a symbolic '
        'base and concrete offsets, printed with a known width): 4 prefix shapes x 13 offset patterns (single, '
        'unsorted, gaps, duplicates, duplicates with holes) x 2 suffix widths x optional interleaved second prefix x '
        'ways of handing them over, each identifier spelled as it came; ids that are no strings (also None) and '
        'suffixes that are no integers are rejected in both output forms; histories of four calls in one process, the '
        'same identifiers with one delimiter, then with another under which they cannot be encoded, then each again '
        '(new collection per call and the same collection object, strings and objects, both output forms): every '
        'call answers as it does when it is the first call after import, the collection is unchanged; (c) through every writer that emits ranges '
        '- IdealGas.to_cti (cantera and omkm), InteractingInterface.to_cti (reactions= and interactions=), BEP.to_cti '
        'and BEP.to_omkm_yaml (both member lists), objects built by their constructors, members given as lists and as '
        'tuples - with the default delimiter and with - and . : the field read back from the entry must denote '
        'exactly the ids of the members. obj_to_cti is interpreted over concrete '
        'token lists (quoted, hyphenated, punctuated, equal neighbours, tokens as long as the room of a line; given as '
        'list, tuple, string and - distinct tokens - as a set) and '
        'over token lists with symbolic contents and concrete widths, including widths derived from the limits '
        '(line_len-4, -3, -2), under every relation of the two widths (equal, first line narrower, first line wider by '
        'one to three columns as in the name= field of a phase), the arguments handed over by name, by position and '
        'mixed: every token appears once, in order, only separators are added, and no line exceeds its '
        'limit unless it holds a single token that cannot fit. A branch on the characters of a symbolic identifier or '
        'token leaves the symbolic instance undecided (analysis error), it is never read as "not taken".')
    run.assumptions = ['more_itertools.consecutive_groups groups runs of +1 in the order given',
                       'the suffix of an identifier is an integer base+offset (ordering and gaps decided on offsets)']
    run.undecided = ['identifiers whose prefix text ends in digits adjacent to the suffix without delimiter',
                     'identifiers whose prefix contains brackets or ", " (the list form is cut out of the string form)',
                     'token lists beyond the enumerated width patterns']
    thorough = run.tier == 'thorough'
    ra = range_anchor(repo)
    wa = wrap_anchor(repo)
    run.fn('pmutt.cantera._get_omkm_range')
    run.fn('pmutt.io.cantera.obj_to_cti')
    # concrete instances first: they are decided whatever the code asks about the characters of an identifier/token
    n = ranges_concrete(run, repo, ra, thorough)
    run.floor('range cases, concrete identifiers', n, 55)
    known_respelling(run, repo, ra)
    rejections(run, repo, ra)
    n = delimiter_history(run, repo, ra)
    run.floor('calls in a history of delimiters', n, 100)
    n = callers(run, repo)
    run.floor('writers of ranges (phases, BEP relations) x delimiters', n, 30)
    n = wrapping_concrete(run, repo, wa, thorough)
    run.floor('wrapping cases, concrete tokens', n, 70)
    n = ranges(run, repo, ra, thorough)
    run.floor('range cases', n, 300)
    n = wrapping(run, repo, wa, thorough)
    run.floor('wrapping cases', n, 100)


C_ = 'pmutt/cantera/__init__.py'
W_ = 'pmutt/io/cantera.py'
P_ = 'pmutt/omkm/phase.py'
G_ = 'pmutt/cantera/phase.py'
R_ = 'pmutt/omkm/reaction.py'
MUTANTS = [
    {'name': 'x3 list form assembled from groups that share one source (list(consecutive_groups(...)))',
     'expect': ('REF.range', '_get_omkm_range'),
     'edits': [(C_, "            CTI_out = CTI_out.replace('[', '').replace(']', '')\n            CTI_out = CTI_out.split(', ')",
                "            CTI_out = []\n"
                "            for header, footer_list in unique_headers.items():\n"
                "                if header == '':\n"
                "                    header_delim = header\n"
                "                else:\n"
                "                    header_delim = '{}{}'.format(header, delimiter)\n"
                "                footer_ranges = list(mit.consecutive_groups(footer_list))\n"
                "                for footer_range in footer_ranges:\n"
                "                    footers = list(footer_range)\n"
                "                    if len(footers) > 1:\n"
                "                        CTI_out.append('\"{0}{1:04d} to {0}{2:04d}\"'.format(\n"
                "                            header_delim, footers[0], footers[-1]))\n"
                "                    else:\n"
                "                        CTI_out.extend('\"{}{:04d}\"'.format(header_delim, footer)\n"
                "                                       for footer in footers)")]},
    {'name': 'wrap: repeated tokens written once', 'expect': ('REF.wrap-tokens', 'obj_to_cti'),
     'edits': [('pmutt/io/cantera.py', "            cti_str = ' '.join(obj)", "            cti_str = ' '.join(list(dict.fromkeys(obj)))")]},
    {'name': 'wrap: continuation lines indented by the sum of the widths', 'expect': ('REF.wrap-width', 'obj_to_cti'),
     'edits': [('pmutt/io/cantera.py', "            header_spaces = ' ' * (max_line_len - line_len + 3)", "            header_spaces = ' ' * (max_line_len + line_len + 3)")]},
    {'name': 'ranges: suffixes printed five digits wide', 'expect': ('REF.range', '_get_omkm_range'),
     'edits': [('pmutt/cantera/__init__.py', "                    CTI_range = ('\"{0}{1:04d} to {0}{2:04d}\", '", "                    CTI_range = ('\"{0}{1:05d} to {0}{2:05d}\", '")]},
    {'name': 'range end uses second element', 'expect': ('REF.range', '_get_omkm_range'),
     'edits': [(C_, 'header_delim, footer_range[0], footer_range[-1])', 'header_delim, footer_range[0], footer_range[1])')]},
    {'name': 'prefix split at the first delimiter', 'expect': ('', '_get_omkm_range'),
     'edits': [(C_, '            i = obj_id.rfind(delimiter)', '            i = obj_id.find(delimiter)')]},
    {'name': 'wrap: token dropped when starting a new line', 'expect': ('REF.wrap', 'obj_to_cti'),
     'edits': [(W_, "                    cti_lines.append('{}{}'.format(header_spaces, cti_val))", "                    cti_lines.append('{}'.format(header_spaces))")]},
    {'name': 'wrap: limit off by the separator', 'expect': ('REF.wrap-width', 'obj_to_cti'),
     'edits': [(W_, 'elif (len(cti_lines[-1]) + len(cti_val) + 1) <= line_limit:', 'elif (len(cti_lines[-1]) + len(cti_val) - 3) <= line_limit:')]},
    # ---- white-box round 2
    {'name': 'ranges: fast path for one contiguous block counts duplicates', 'expect': ('REF.range', '_get_omkm_range'),
     'edits': [(C_, '            footer_ranges = mit.consecutive_groups(footer_list)',
                '            footer_ranges = ([footer_list] if footer_list[-1] - footer_list[0] + 1 == len(footer_list)'
                ' else mit.consecutive_groups(footer_list))')]},
    {'name': 'ranges: zero padding taken from the first id of a prefix', 'expect': ('REF.range', '_get_omkm_range'),
     'edits': [(C_, '        unique_headers = {}\n', '        unique_headers = {}\n        footer_widths = {}\n'),
               (C_, '            # Convert footer to integer so more_itertools can process it\n',
                '            footer_widths.setdefault(header, len(footer))\n'),
               (C_, "                    CTI_range = '\"{}{:04d}\", '.format(header_delim,\n"
                    "                                                      footer_range[0])",
                "                    CTI_range = '\"{0}{1:0{2}d}\", '.format(header_delim, footer_range[0], "
                "footer_widths[header])"),
               (C_, "                    CTI_range = ('\"{0}{1:04d} to {0}{2:04d}\", '\n"
                    "                                 ''.format(header_delim, footer_range[0],\n"
                    "                                           footer_range[-1]))",
                "                    CTI_range = ('\"{0}{1:0{3}d} to {0}{2:0{3}d}\", '\n"
                "                                 ''.format(header_delim, footer_range[0],\n"
                "                                           footer_range[-1], footer_widths[header]))")]},
    {'name': 'ranges: ids with another delimiter printed six digits wide', 'expect': ('REF.range-spelling', '_get_omkm_range'),
     'edits': [(C_, "                    CTI_range = '\"{}{:04d}\", '.format(header_delim,",
                "                    CTI_range = ('\"{}{:04d}\", ' if delimiter == '_' else '\"{}{:06d}\", ').format(header_delim,")]},
    {'name': 'ranges: an object whose id is None is skipped', 'expect': ('PATH.reject', '_get_omkm_range'),
     'edits': [(C_, '            # Check that obj_id is a string type\n',
                '            if obj_id is None:\n                continue\n')]},
    {'name': 'ranges: the name of an object is not consulted', 'expect': ('REF.range', '_get_omkm_range'),
     'edits': [(C_, '                    obj_id = obj.name', '                    obj_id = obj.label')]},
    {'name': 'ranges: way of reading the id decided once from the first element', 'expect': ('REF.range', '_get_omkm_range'),
     'edits': [(C_, '                obj_id = obj.id\n',
                "                obj_id = obj.id if hasattr(objs[0], 'id') or not isinstance(objs[0], str) else obj\n")]},
    {'name': 'wrap: a value that carries its quotes is returned as it is', 'expect': ('REF.wrap', 'obj_to_cti'),
     'edits': [(W_, '        cti_str_len = len(cti_str)\n',
                "        if cti_str.startswith('\"') and cti_str.endswith('\"'):\n            return cti_str\n"
                "        cti_str_len = len(cti_str)\n")]},
    {'name': 'wrap: continuation lines one column deeper', 'expect': ('REF.wrap-width', 'obj_to_cti'),
     'edits': [(W_, "            header_spaces = ' ' * (max_line_len - line_len + 3)",
                "            header_spaces = ' ' * (max_line_len - line_len + 4)")]},
    {'name': 'wrap: continuation lines two columns deeper', 'expect': ('REF.wrap-width', 'obj_to_cti'),
     'edits': [(W_, "            header_spaces = ' ' * (max_line_len - line_len + 3)",
                "            header_spaces = ' ' * (max_line_len - line_len + 5)")]},
    {'name': 'wrap: a token equal to its left neighbour is dropped', 'expect': ('REF.wrap-tokens', 'obj_to_cti'),
     'edits': [(W_, '                if len(cti_lines) == 1:\n',
                '                if i > 0 and cti_val == cti_list[i - 1]:\n                    continue\n'
                '                if len(cti_lines) == 1:\n')]},
    {'name': 'wrap: tokens that start with # are dropped', 'expect': ('REF.wrap-tokens', 'obj_to_cti'),
     'edits': [(W_, '                if len(cti_lines) == 1:\n',
                "                if i > 0 and cti_val.startswith('#'):\n                    continue\n"
                '                if len(cti_lines) == 1:\n')]},
    {'name': 'wrap: tokens split at hyphens', 'expect': ('REF.wrap-tokens', 'obj_to_cti'),
     'edits': [(W_, "            cti_list = cti_str.split(' ')", "            cti_list = cti_str.replace('-', '- ').split(' ')")]},
    # ---- white-box round 3
    {'name': 'x3 wrap: continuation indent written as two factors (differs when the first line is the wider one)',
     'expect': ('REF.wrap-width', 'obj_to_cti'),
     'edits': [(W_, "            header_spaces = ' ' * (max_line_len - line_len + 3)",
                "            header_spaces = ' ' * (max_line_len - line_len) + ' ' * 3")]},
    {'name': 'x3 wrap: the two widths swapped in the signature', 'expect': ('REF.wrap-width', 'obj_to_cti'),
     'edits': [(W_, 'def obj_to_cti(obj, line_len=80, max_line_len=80, **kwargs):',
                'def obj_to_cti(obj, max_line_len=80, line_len=80, **kwargs):')]},
    {'name': 'x3 wrap: tuples and sets are written in sorted order', 'expect': ('REF.wrap-tokens', 'obj_to_cti'),
     'edits': [(W_, "        elif isinstance(obj, (list, tuple, set)):\n            cti_str = ' '.join(obj)\n",
                "        elif isinstance(obj, (tuple, set)):\n            cti_str = ' '.join(sorted(obj))\n"
                "        elif isinstance(obj, list):\n            cti_str = ' '.join(obj)\n")]},
    {'name': 'x3 wrap: a set is joined with commas', 'expect': ('REF.wrap-tokens', 'obj_to_cti'),
     'edits': [(W_, "        elif isinstance(obj, (list, tuple, set)):\n            cti_str = ' '.join(obj)\n",
                "        elif isinstance(obj, set):\n            cti_str = ','.join(obj)\n"
                "        elif isinstance(obj, (list, tuple)):\n            cti_str = ' '.join(obj)\n")]},
    {'name': 'x3 ranges: the collection is copied with a method tuples do not have', 'expect': ('REF.range', '_get_omkm_range'),
     'edits': [(C_, "        CTI_out = '['\n", "        CTI_out = '['\n        objs = objs.copy()\n")]},
    {'name': 'x3 ranges: the list form is read from a generator that the string form has used up',
     'expect': ('REF.range', '_get_omkm_range'),
     'edits': [(C_, "            CTI_out = CTI_out.split(', ')\n",
                "            entries = (entry for entry in CTI_out.split(', '))\n"
                "            CTI_out = '[{}]'.format(', '.join(entries))\n"
                "            CTI_out = list(entries)\n")]},
    {'name': 'x3 writers: the interface does not forward the delimiter',
     'expect': ('REF.range-writers', 'InteractingInterface.to_cti'),
     'edits': [(P_, "                            _get_omkm_range(objs=val,\n"
                    "                                           parent_obj=self,\n"
                    "                                           delimiter=delimiter)))",
                "                            _get_omkm_range(objs=val, parent_obj=self)))")]},
    {'name': 'x3 writers: the gas phase does not forward the delimiter', 'expect': ('REF.range-writers', 'IdealGas.to_cti'),
     'edits': [(G_, "                            _get_omkm_range(objs=val,\n"
                    "                                           parent_obj=self,\n"
                    "                                           delimiter=delimiter)))",
                "                            _get_omkm_range(objs=val, parent_obj=self)))")]},
    {'name': 'x3 writers: the BEP directive writes its cleavage members with the default delimiter',
     'expect': ('REF.range-writers', 'BEP.to_cti'),
     'edits': [(R_, "        cleavage_reactions = _get_omkm_range(objs=self.cleavage_reactions,\n"
                    "                                            parent_obj=self,\n"
                    "                                            delimiter=delimiter)",
                "        cleavage_reactions = _get_omkm_range(objs=self.cleavage_reactions,\n"
                "                                            parent_obj=self)")]},
    {'name': 'x3 writers: the BEP YAML entry lists the first range of its cleavage members only',
     'expect': ('REF.range-writers', 'BEP.to_omkm_yaml'),
     'edits': [(R_, "            yaml_dict['cleavage-reactions'] = cleavage_reactions",
                "            yaml_dict['cleavage-reactions'] = cleavage_reactions[:1]")]},
    {'name': 'x3 writers: the interface writes its interactions under reactions too',
     'expect': ('REF.range-writers', 'InteractingInterface.to_cti'),
     'edits': [(P_, "            val = getattr(self, range_field)\n", "            val = getattr(self, range_fields[0])\n")]},
    # ---- round 7
    {'name': 'ranges: the place of the split remembered per identifier text, whatever the delimiter',
     'expect': ('REF.range-history', '_get_omkm_range'),
     'edits': [(C_, 'import more_itertools as mit\n', 'import more_itertools as mit\n\n_split_at = {}\n'),
               (C_, '            i = obj_id.rfind(delimiter)',
                '            i = _split_at.setdefault(obj_id, obj_id.rfind(delimiter))')]},
]
EQUIV = [
    {'name': 'the id is looked up with hasattr instead of try/except',
     'edits': [(C_, '            try:\n                obj_id = obj.id\n            except AttributeError:\n'
                    '                try:\n                    obj_id = obj.name\n'
                    '                except AttributeError:\n                    obj_id = obj\n',
                "            if hasattr(obj, 'id'):\n                obj_id = obj.id\n"
                "            elif hasattr(obj, 'name'):\n                obj_id = obj.name\n"
                "            else:\n                obj_id = obj\n")]},
    {'name': 'the fill keeps a running length instead of measuring the last line',
     'edits': [(W_, "            cti_lines = ['\"\"\"']\n", "            cti_lines = ['\"\"\"']\n            used = 3\n"),
               (W_, "                    cti_lines[-1] = '{}{}'.format(cti_lines[-1], cti_val)\n",
                "                    cti_lines[-1] = '{}{}'.format(cti_lines[-1], cti_val)\n"
                "                    used += len(cti_val)\n"),
               (W_, "                elif (len(cti_lines[-1]) + len(cti_val) + 1) <= line_limit:\n"
                    "                    cti_lines[-1] = '{} {}'.format(cti_lines[-1], cti_val)\n",
                "                elif used + len(cti_val) + 1 <= line_limit:\n"
                "                    cti_lines[-1] = '{} {}'.format(cti_lines[-1], cti_val)\n"
                "                    used += len(cti_val) + 1\n"),
               (W_, "                    cti_lines.append('{}{}'.format(header_spaces, cti_val))\n",
                "                    cti_lines.append('{}{}'.format(header_spaces, cti_val))\n"
                "                    used = len(header_spaces) + len(cti_val)\n")]},
    {'name': "the helper's keyword format renamed to out_format (helper and its keyword callers)",
     'edits': [(C_, "delimiter='_', format='str'):", "delimiter='_', out_format='str'):"),
               (C_, "        if format == 'list':", "        if out_format == 'list':"),
               (R_, "parent_obj=self,\n                                                  format='list')",
                "parent_obj=self,\n                                                  out_format='list')"),
               (R_, "parent_obj=self,\n                                                 format='list')",
                "parent_obj=self,\n                                                 out_format='list')")]},
]
