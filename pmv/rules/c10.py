"""C10 - reference adjustment reproduces the experimental enthalpies it was fitted to."""
from fractions import Fraction as Fr

from ..nf import Rat, C
from ..source import Unsupported, AnchorError
from ..xlate import Interp, Obj, ListV, DictV, Raised
from .common import same, show, opaque_obj

REFS = 'pmutt.empirical.references.References'


def ref_species(I, name, comp, Tref):
    D = I.D
    model = opaque_obj(I, name + '.model', {'get_HoRT': ('T',)})
    o = Obj(name, attrs={'name': name, 'T_ref': Tref, 'HoRT_ref': D.sym(name + '.HoRT_exp'), 'model': model,
                         'elements': DictV({k: D.sym('%s.n%s' % (name, k)) for k in comp})})
    return o


def get_first(I, r):
    """first reference species of a References object (through its public sequence protocol)"""
    try:
        return I.call_method(r, '__getitem__', [C(0)], {})
    except Unsupported:
        return None


def check(run, repo):
    run.explanation = (
        'References is interpreted abstractly. get_CvoR/CpoR/UoRT/SoR are 0 and GoRT = HoRT - SoR; get_HoRT with '
        'symbolic offsets and composition is -sum offset[d]*n_d * T_ref/T: homogeneous linear in the composition, '
        'T*HoRT free of T, descriptors absent from the references only warn. fit_HoRT_offset is interpreted through '
        'its real code (descriptor matrix, reference temperatures, right-hand side) with np.linalg.lstsq as an '
        'uninterpreted solver returning symbolic offsets; for every reference species i the adjusted enthalpy at T_ref '
        'minus the experimental value is identically the least-squares residual of row i (so a uniquely determined '
        'fit reproduces the experiment, and the residual is the solver\'s), for 2-3 references over 2-3 descriptors '
        'including a descriptor missing from one species; refitting after appending a reference recomputes offset and '
        'T_ref.')
    run.assumptions = ['np.linalg.lstsq returns the least-squares solution of the system it is given (NumPy contract)']
    run.undecided = ['orthogonality of the residual for rank-deficient sets (NumPy contract)',
                     'numerics of averaging slightly different reference temperatures']
    ci = repo.cls(REFS)
    for m_ in ('get_HoRT', 'get_GoRT', 'fit_HoRT_offset', 'get_descriptors', 'get_descriptors_matrix'):
        run.fn(REFS + '.' + m_)
    # ---- application ---------------------------------------------------------
    I = Interp(repo)
    D = I.D
    T, Tr = D.sym('T'), D.sym('T_ref')
    oA, oB = D.sym('offA'), D.sym('offB')
    r = Obj('refs', ci, attrs={'offset': DictV({'A': oA, 'B': oB}), 'T_ref': Tr})
    for q in ('get_CvoR', 'get_CpoR', 'get_UoRT', 'get_SoR'):
        owner, fn = repo.find_method(ci, q)
        got = I.call_method(r, q, [], {})
        run.check(same(got, C(0)), 'IDENT.zero', 'References.' + q, 'zero',
                  'the reference adjustment must contribute nothing to %s (got %s)' % (q[4:], show(got)),
                  owner.module, fn)
    nA, nB, nC = D.sym('nA'), D.sym('nB'), D.sym('nC')
    owner, fn = repo.find_method(ci, 'get_HoRT')
    cnt = {'A': nA, 'B': nB, 'C': nC}
    want = -(oA * nA + oB * nB) * Tr / T
    # the descriptor the references do not know (C) is listed last, first and in the middle of the composition: its
    # place must not matter, every known descriptor contributes
    for order in ('ABC', 'CAB', 'ACB'):
        desc = DictV({k: cnt[k] for k in order})
        tag = '' if order == 'ABC' else ' [composition listed as %s]' % ','.join(order)
        nwarn = len(I.warnings)
        H = I.call_method(r, 'get_HoRT', [], {'descriptors': desc, 'T': T})
        run.check(same(H, want), 'REF.apply', 'References.get_HoRT', 'T given' + tag,
                  'adjustment is %s, expected -(sum offset*n) * T_ref/T' % show(H), owner.module, fn,
                  sample='References.get_HoRT({A:nA,B:nB,C:nC}, T) == -(offA*nA+offB*nB)*T_ref/T')
        run.check(len(I.warnings) > nwarn and not isinstance(H, Raised), 'PATH.missing-descriptor',
                  'References.get_HoRT', 'absent descriptor' + tag,
                  'a descriptor absent from the references must produce a warning, not a failure', owner.module, fn)
        if isinstance(H, Rat):
            run.check(D.d(H * T, 'T').iszero(), 'DERIV.T-free', 'References.get_HoRT', 'T*HoRT' + tag,
                      'the adjustment in energy units depends on temperature', owner.module, fn)
            lin = nA * D.d(H, 'nA') + nB * D.d(H, 'nB') + nC * D.d(H, 'nC')
            run.check(same(lin, H), 'DERIV.linear', 'References.get_HoRT', 'composition' + tag,
                      'the adjustment is not homogeneous linear in the composition', owner.module, fn)
    desc = DictV(dict(cnt))
    H0 = I.call_method(r, 'get_HoRT', [], {'descriptors': DictV({'A': nA, 'B': nB})})
    run.check(same(H0, -(oA * nA + oB * nB)), 'REF.apply', 'References.get_HoRT', 'T omitted',
              'without T the adjustment must be the dimensionless offset at T_ref (got %s)' % show(H0), owner.module, fn)
    G = I.call_method(r, 'get_GoRT', [], {'descriptors': desc, 'T': T})
    o2, f2 = repo.find_method(ci, 'get_GoRT')
    run.check(same(G, want), 'TWIN.G=H-S', 'References.get_GoRT', 'twin', 'G adjustment is not H - S (S=0)', o2.module, f2)

    # ---- application through a species: the species hands over the composition the references are described by ---
    sci = repo.cls('pmutt.statmech.StatMech')
    for dname in ('elements', 'groups'):
        I2 = Interp(repo)
        D2 = I2.D
        T2, Tr2 = D2.sym('T'), D2.sym('T_ref')
        comp = {'elements': DictV({'A': D2.sym('nA'), 'B': D2.sym('nB')}),
                'groups': DictV({'CH3': D2.sym('gA'), 'OH': D2.sym('gB')})}
        off = DictV({k: D2.sym('off_' + k) for k in comp[dname].d})
        refs = Obj('refs', ci, attrs={'offset': off, 'T_ref': Tr2, 'descriptor': dname})
        modes = {a_: opaque_obj(I2, a_, {'get_HoRT': ('T',), 'get_GoRT': ('T',), 'get_SoR': ('T',)})
                 for a_ in ('trans_model', 'vib_model', 'rot_model', 'elec_model', 'nucl_model')}
        sp = Obj('sp', sci, attrs=dict(modes, name='sp', elements=comp['elements'], groups=comp['groups'],
                                       references=refs, misc_models=None))
        owner2, fn2 = repo.find_method(sci, 'get_HoRT')
        for q in ('get_HoRT', 'get_GoRT'):
            with_refs = I2.call_method(sp, q, [], {'T': T2})
            without = I2.call_method(sp, q, [], {'T': T2, 'use_references': False})
            want_adj = C(0)
            for k, nk in comp[dname].d.items():
                want_adj = want_adj - off.d[k] * nk * Tr2 / T2
            ok = isinstance(with_refs, Rat) and isinstance(without, Rat) and same(with_refs - without, want_adj)
            run.check(ok, 'REF.apply', 'StatMech.' + q, 'references described by %s' % dname,
                      'a species whose references are described by its %r shifts %s by %s, expected '
                      '-(sum offset*n) * T_ref/T over that composition' % (
                          dname, q[4:], show(with_refs - without, 160) if ok is False and isinstance(with_refs, Rat)
                          and isinstance(without, Rat) else show(with_refs, 120)), owner2.module, fn2,
                      sample='StatMech.%s with References(descriptor=%r): shift = -(sum offset*n)*T_ref/T' % (q, dname))

    # ---- fitting ---------------------------------------------------------------
    n_fit = 0
    for comps in ((('A', 'B'), ('A', 'B')), (('A', 'B'), ('B',), ('A', 'B', 'C')), (('A',), ('A', 'B'))):
        I = Interp(repo)
        D = I.D
        Tr = D.sym('Tr')
        sols = {}

        def lstsq(I_, fr, args, kwargs, nd):
            M, y = args[0], args[1]
            ncol = len(M.items[0])
            sol = ListV([I_.D.sym('off%d' % j) for j in range(ncol)])
            sol.is_array = True
            sols['M'], sols['y'], sols['x'] = M, y, sol
            return ListV([sol, C(0), C(0), C(0)])
        I.native['numpy.linalg.lstsq'] = lstsq
        species = [ref_species(I, 'ref%d' % i, comp, Tr) for i, comp in enumerate(comps)]
        r = Obj('refs', ci, closed=True)
        res = I.call_method(r, '__init__', [], {'references': ListV(list(species))})
        owner, fn = repo.find_method(ci, 'fit_HoRT_offset')
        label = 'references:%s' % '|'.join(''.join(c_) for c_ in comps)
        if isinstance(res, Raised) or 'x' not in sols:
            run.fail('REF.fit', 'References.fit_HoRT_offset', label, 'constructing References with reference species '
                     'does not fit the offsets (%s)' % show(res), owner.module, fn)
            continue
        M, y, x = sols['M'], sols['y'], sols['x']
        names = sorted({k for c_ in comps for k in c_})
        # descriptor counts are real numbers (fractional formula units, non-stoichiometric oxides, user descriptors):
        # nothing on the way to the solver may store them in an integer-typed buffer
        hz = list(I.dtype_hazards)
        hm = [m_ for m_ in repo.modules.values() if hz and m_.relpath == hz[0][1]]
        run.check(not hz, 'TYPE.int-buffer', 'References.get_descriptors_matrix', label + ' matrix element type',
                  'descriptor counts are stored into an array created with an integer element type: fractional '
                  'counts are truncated before the least-squares fit', hm[0] if hm else owner.module,
                  hz[0][0] if hz else fn)
        run.check(same(r.attrs.get('T_ref'), Tr), 'REF.fit', 'References.fit_HoRT_offset', label + ' T_ref',
                  'common reference temperature not kept (%s)' % show(r.attrs.get('T_ref')), owner.module, fn)
        off = r.attrs.get('offset')
        ok_off = isinstance(off, DictV) and sorted(off.d) == names and \
            all(same(off.d[k], x.items[j]) for j, k in enumerate(names))
        run.check(ok_off, 'DATAFLOW.offset', 'References.fit_HoRT_offset', label + ' offsets',
                  'offsets are not stored per descriptor in the column order of the descriptor matrix: %s' % show(off),
                  owner.module, fn)
        for i, sp in enumerate(species):
            # matrix row = composition of the species over the sorted descriptor names (0 when absent)
            row_ok = all(same(M.items[i].items[j], sp.attrs['elements'].d.get(k, C(0))) for j, k in enumerate(names))
            run.check(row_ok, 'DATAFLOW.matrix', 'References.get_descriptors_matrix', label + ' row%d' % i,
                      'row %d of the descriptor matrix is %s, not the composition of %s over %s'
                      % (i, show(M.items[i]), sp.name, names), owner.module, fn)
            dft = sp.attrs['model'].opaque_methods['get_HoRT'](I, sp.attrs['model'], [], {'T': Tr})
            adj = I.call_method(r, 'get_HoRT', [], {'descriptors': sp.attrs['elements'], 'T': Tr})
            resid = y.items[i]
            for j in range(len(names)):
                resid = resid - M.items[i].items[j] * x.items[j]
            got = dft + adj - sp.attrs['HoRT_ref']
            run.check(same(got, resid), 'ALG.reproduces', 'References.fit_HoRT_offset', label + ' species%d' % i,
                      'adjusted minus experimental enthalpy of reference %d is %s but the least-squares residual of its '
                      'row is %s: sign/pairing of fit and application disagree' % (i, show(got, 160), show(resid, 160)),
                      owner.module, fn,
                      sample='H_dft + adjustment - H_exp == (y - M x)[%d]  for %s' % (i, label))
            run.check(same(y.items[i], dft - sp.attrs['HoRT_ref']), 'DATAFLOW.rhs', 'References.fit_HoRT_offset',
                      label + ' rhs%d' % i, 'right-hand side entry is %s, expected H_dft(T_ref) - H_exp'
                      % show(y.items[i]), owner.module, fn)
            n_fit += 3
        # appending a reference and refitting recomputes every derived field
        extra = ref_species(I, 'refX', ('A', 'B'), Tr)
        I.call_method(r, 'append', [], {'obj': extra})
        old_off = r.attrs.get('offset')
        sols.clear()
        I.call_method(r, 'fit_HoRT_offset', [], {})
        ok = 'M' in sols and len(sols['M']) == len(species) + 1 and r.attrs.get('offset') is not old_off
        run.check(ok, 'PATH.refit', 'References.fit_HoRT_offset', label + ' append+refit',
                  'refitting after appending a reference does not rebuild the system with the new species', owner.module, fn)
        # ... and after removing references again (pop of the last, remove by name): the system shrinks accordingly and
        # the offsets of the remaining fit are the ones applied
        for how in ('pop', 'remove'):
            if repo.find_method(ci, how, missing_ok=True) is None:
                continue
            before = len(sols.get('M', []))
            sols.clear()
            if how == 'pop':
                I.call_method(r, 'pop', [], {})
            else:
                first = get_first(I, r)
                I.call_method(r, 'remove', [], {'obj': first} if first is not None else {})
            res_ = I.call_method(r, 'fit_HoRT_offset', [], {})
            ok = not isinstance(res_, Raised) and 'M' in sols and len(sols['M']) == before - 1
            if ok and 'x' in sols:
                names_ = I.call_method(r, 'get_descriptors', [], {})
                off_ = r.attrs.get('offset')
                ok = isinstance(off_, DictV) and isinstance(names_, ListV) and \
                    all(same(off_.d.get(I.plain(nm_)), xv_) for nm_, xv_ in zip(names_.items, sols['x'].items))
            run.check(ok, 'PATH.refit', 'References.fit_HoRT_offset', label + ' %s+refit' % how,
                      'refitting after %s does not rebuild the system without the removed species (rows %s -> %s) or '
                      'does not store the new solution as offsets' % (how, before, len(sols.get('M', []))),
                      owner.module, fn)
        # ... and after adding several references at once
        if repo.find_method(ci, 'extend', missing_ok=True) is not None:
            before = len(sols.get('M', []))
            sols.clear()
            more = [ref_species(I, 'refY', ('A',), Tr), ref_species(I, 'refZ', ('B', 'A'), Tr)]
            I.call_method(r, 'extend', [], {'seq': ListV(more)})
            res_ = I.call_method(r, 'fit_HoRT_offset', [], {})
            ok = not isinstance(res_, Raised) and 'M' in sols and len(sols['M']) == before + 2
            run.check(ok, 'PATH.refit', 'References.fit_HoRT_offset', label + ' extend+refit',
                      'refitting after extending by two references does not rebuild the system with them (rows %s -> '
                      '%s)' % (before, len(sols.get('M', []))), owner.module, fn)
    run.floor('fit instances', n_fit, 18)
    run.extra['fit_instances'] = n_fit


F_ = 'pmutt/empirical/references.py'
MUTANTS = [
    {'name': 'offset added instead of subtracted', 'expect': ('', 'References'),
     'edits': [(F_, '                HoRT -= self.offset[descriptor] * coefficient', '                HoRT += self.offset[descriptor] * coefficient')]},
    {'name': 'fit uses exp - dft', 'expect': ('', 'fit_HoRT_offset'),
     'edits': [(F_, '        ref_offset = HoRT_ref_dft - HoRT_ref_exp', '        ref_offset = HoRT_ref_exp - HoRT_ref_dft')]},
    {'name': 'T scaling inverted', 'expect': ('REF.apply', 'get_HoRT'),
     'edits': [(F_, '            return HoRT * self.T_ref / T', '            return HoRT * T / self.T_ref')]},
    {'name': 'missing descriptor fails', 'expect': ('', 'get_HoRT'),
     'edits': [(F_, '            except KeyError:\n                warn_msg = (\'References does not have offset value for the \'', '            except IndexError:\n                warn_msg = (\'References does not have offset value for the \'')]},
    {'name': 'matrix transposed indices', 'expect': ('', 'References'),
     'edits': [(F_, '                    descriptors_mat[i, j] = getattr(', '                    descriptors_mat[j, i] = getattr(')]},
]
EQUIV = []
