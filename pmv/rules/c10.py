"""C10 - reference adjustment reproduces the experimental enthalpies it was fitted to."""
from fractions import Fraction as Fr

from ..nf import Rat, C
from ..source import Unsupported, AnchorError
from ..xlate import Interp, Obj, ListV, DictV, Raised, _RaisedExc
from .common import same, show, opaque_obj, atoms_of, proportional
from .rxnfix import get_public, set_public

REFS = 'pmutt.empirical.references.References'
REF1 = 'pmutt.empirical.references.Reference'
SM = 'pmutt.statmech.StatMech'


OTHER = {'elements': 'groups', 'groups': 'elements'}
MODES = ('trans_model', 'vib_model', 'rot_model', 'elec_model', 'nucl_model')
MODE_Q = ('get_HoRT', 'get_GoRT', 'get_SoR', 'get_CpoR', 'get_CvoR')


def pub(I, obj, attr):
    """obj.attr as a user reads it; a Raised when the object has no such attribute"""
    try:
        return get_public(I, obj, attr)
    except _RaisedExc as e:
        return e.raised


def built(v, what):
    """objects of the fixtures are made by the package's own constructors from valid arguments"""
    if isinstance(v, Raised):
        raise Unsupported('%s raised %s for the model object of the rule' % (what, v.exc))
    return v


class RefSp:
    """the rule's own record of one reference species: what it handed to ``Reference(...)``"""
    def __init__(self, label, obj, comp, T, Hexp, model):
        self.label, self.obj, self.comp, self.T, self.Hexp, self.model = label, obj, comp, T, Hexp, model

    def dft(self, I, T):
        return self.model.opaque_methods['get_HoRT'](I, self.model, [], {'T': T})


def ref_species(I, repo, label, comp, Tref, dname='elements', name=None, counts=None, other=True):
    """a reference species made by ``Reference(name=, elements=, T_ref=, HoRT_ref=, model=)``: experimental enthalpy,
    opaque model, the composition ``comp`` under the descriptor the references are described by (a dictionary other
    than the elements is assigned as an attribute, the way users attach it) and - ``other`` - an unrelated composition
    under the other name.  ``name`` is the species' name in pMuTT (None is the default of the class; names need not
    be unique), ``label`` only names the symbols of the rule.  ``counts``: concrete numbers instead of symbols."""
    D = I.D
    model = opaque_obj(I, label + '.model', {'get_HoRT': ('T',)})
    cnt = {k: (C(Fr(counts[k])) if counts is not None else D.sym('%s.n%s' % (label, k))) for k in comp}
    unrelated = DictV({k: D.sym('%s.other%s' % (label, k)) for k in ('X', 'B')}) if other else None
    Hexp = D.sym(label + '.HoRT_exp')
    kw = {'name': name, 'T_ref': Tref, 'HoRT_ref': Hexp, 'model': model,
          'elements': DictV(cnt) if dname == 'elements' else unrelated}
    o = built(I.construct(repo.cls(REF1), [], kw, name=label), 'Reference(...)')
    if dname != 'elements':
        set_public(I, o, dname, DictV(cnt))
    elif other:
        set_public(I, o, OTHER[dname], unrelated)
    return RefSp(label, o, cnt, Tref, Hexp, model)


def make_species(I, repo, name, refs, comp, dname, other=None):
    """a species made by ``StatMech(name=, <five opaque modes>, elements=, references=)``.  Its composition under the
    descriptor the references are described by is ``comp``; under the other name it has ``other`` or nothing at all:
    elements=None is the default of the class, and a dictionary of groups exists only on species it was assigned to."""
    # the translational mode is the one a pressure / volume is meant for; the others take the temperature
    modes = {a_: opaque_obj(I, '%s.%s' % (name, a_),
                            {q_: ('T', 'P', 'V') if a_ == 'trans_model' else ('T',) for q_ in MODE_Q}) for a_ in MODES}
    kw = dict(modes, name=name, references=refs)
    if dname == 'elements':
        kw['elements'] = comp
    elif other is not None:
        kw['elements'] = other
    sp = built(I.construct(repo.cls(SM), [], kw, name=name), 'StatMech(...)')
    if dname != 'elements':
        set_public(I, sp, dname, comp)
    elif other is not None:
        set_public(I, sp, OTHER[dname], other)
    return sp


def is_matrix(M):
    return isinstance(M, ListV) and bool(M.items) and all(isinstance(r_, ListV) for r_ in M.items)


def determinant(rows):
    if len(rows) == 1:
        return rows[0][0]
    tot = C(0)
    for j, a in enumerate(rows[0]):
        if isinstance(a, Rat) and a.iszero():
            continue
        minor = determinant([r_[:j] + r_[j + 1:] for r_ in rows[1:]])
        tot = tot + (a * minor if j % 2 == 0 else -(a * minor))
    return tot


def solver_model(I):
    """np.linalg.lstsq as an uninterpreted solver.  Every call returns fresh symbols (off<call>_<column>), so that the
    solution of an earlier fit cannot pass for the current one.  The model stands for 'the least-squares solution of
    the system it is given' only when no singular value of a well-conditioned system is cut off: rcond absent, None
    or -1 (machine precision) or a tiny number.
    np.linalg.solve is the exact solver NumPy documents: LinAlgError for a matrix that is not square or is singular
    (determinant identically zero - decided on the concrete rank-deficient reference sets of the rule), otherwise the
    solution of the system, which for a non-singular square system is its least-squares solution."""
    sols = {'calls': 0}

    def solution(I_, M, y):
        sols['calls'] += 1
        ncol = len(M.items[0])
        sol = ListV([I_.D.sym('off%d_%d' % (sols['calls'], j)) for j in range(ncol)])
        sol.is_array = True
        sols['M'], sols['y'], sols['x'] = M, y, sol
        return sol

    def operands(fname, args, kwargs, nd, extra=()):
        if len(args) > 2 + len(extra) or set(kwargs) - {'a', 'b'} - set(extra):
            raise Unsupported('np.linalg.%s called with %d positional arguments and %s'
                              % (fname, len(args), sorted(kwargs)), nd)
        vals = []
        for i, k in enumerate(('a', 'b') + tuple(extra)):
            if i < len(args) and k in kwargs:
                raise _RaisedExc(Raised('TypeError', nd))       # multiple values for an argument
            vals.append(args[i] if i < len(args) else kwargs.get(k))
        if vals[0] is None or vals[1] is None:
            raise _RaisedExc(Raised('TypeError', nd))           # missing required argument
        if not is_matrix(vals[0]):
            raise Unsupported('np.linalg.%s: matrix is not a non-empty two-dimensional array' % fname, nd)
        return vals

    def lstsq(I_, fr, args, kwargs, nd):
        M, y, rcond = operands('lstsq', args, kwargs, nd, ('rcond',))
        if rcond is not None:
            if not isinstance(rcond, Rat) or not (rcond.iszero() or rcond.is_const()):
                raise Unsupported('np.linalg.lstsq with a symbolic rcond', nd)
            val = Fr(0) if rcond.iszero() else rcond.const_value()
            if not (val < 0 or val <= Fr(1, 10 ** 10)):
                sols.setdefault('rcond', []).append((val, nd, fr.module if fr is not None else None))
        # (solution, residuals, rank, singular values): only the solution has a model; whatever the code does with the
        # other three is decided on uninterpreted numbers (a comparison of the rank is refused, not guessed)
        x_ = solution(I_, M, y)
        res_ = ListV([x_] + [I_.D.sym('lstsq%d.%s' % (sols['calls'], k_)) for k_ in ('residuals', 'rank', 'sv')])
        res_.is_tuple = True            # what np.linalg.lstsq returns is a tuple
        return res_

    def solve(I_, fr, args, kwargs, nd):
        M, y = operands('solve', args, kwargs, nd)
        rows = [list(r_.items) for r_ in M.items]
        if any(len(r_) != len(rows) for r_ in rows):
            raise _RaisedExc(Raised('LinAlgError', nd))         # last 2 dimensions of the array must be square
        if not all(isinstance(v_, Rat) for r_ in rows for v_ in r_):
            raise Unsupported('np.linalg.solve: matrix entries that are not numbers', nd)
        if len(rows) > 4:
            raise Unsupported('np.linalg.solve: determinant of a %dx%d matrix' % (len(rows), len(rows)), nd)
        if determinant(rows).iszero():
            # A rank-deficient system was handed to the exact solver.  Its documented answer is LinAlgError, but LAPACK
            # raises only for a pivot that is exactly zero after round-off; otherwise it returns a "solution" that is
            # not the least-squares one.  The model follows the documented path and records the call: a fit that
            # relies on the exception to reach the least-squares solver does not solve this system by least squares.
            sols.setdefault('singular_solve', []).append((len(rows), nd, fr.module if fr is not None else None))
            raise _RaisedExc(Raised('LinAlgError', nd))         # Singular matrix
        return solution(I_, M, y)
    I.native['numpy.linalg.lstsq'] = lstsq
    I.native['numpy.linalg.solve'] = solve
    return sols


def refit(run, repo, ci, I, r, species, sols, dname, label, stage, holders=()):
    owner, fn = repo.find_method(ci, 'fit_HoRT_offset')
    calls = sols['calls']
    for k in ('M', 'y', 'x'):
        sols.pop(k, None)
    res = I.call_method(r, 'fit_HoRT_offset', [], {})
    if isinstance(res, Raised) or sols['calls'] <= calls or 'x' not in sols:
        run.fail('PATH.refit', 'References.fit_HoRT_offset', label + stage,
                 'refitting does not solve the least-squares system again (%s, %d solver calls)'
                 % (show(res), sols['calls'] - calls), owner.module, fn)
        return 0
    return verify_fit(run, repo, ci, I, r, species, sols, dname, label, stage, holders)


def verify_fit(run, repo, ci, I, r, species, sols, dname, label, stage, holders=()):
    """after a fit of ``r`` to ``species`` (the rule's own list of RefSp): system handed to the solver, what was
    stored, the reproduction of every reference, and what a species that holds ``r`` now gets (``holders``)"""
    owner, fn = repo.find_method(ci, 'fit_HoRT_offset')
    D = I.D
    M, y, x = sols['M'], sols['y'], sols['x']
    names = sorted({k for sp in species for k in sp.comp})
    n = 0
    for val, nd, mod in sols.pop('rcond', []):
        run.fail('REF.solver', 'References.fit_HoRT_offset', label + stage + ' rcond',
                 'np.linalg.lstsq is told to treat singular values below %s of the largest as zero: a full-rank '
                 'reference set with a smaller ratio (C4H10/C5H12: 0.007) is solved in a subspace and the experimental '
                 'enthalpies are not reproduced' % float(val), mod or owner.module, nd if mod is not None else fn)
    # when the references do not determine the offsets uniquely the residual must be the least-squares one: the system
    # of a rank-deficient reference set - also a square one - goes to a least-squares solver, never to the exact solver
    # (whose LinAlgError for a singular matrix depends on round-off and cannot be what selects the fallback)
    exact = sols.pop('singular_solve', [])
    size, nd, mod = exact[0] if exact else (0, None, None)
    run.check(not exact, 'REF.solver', 'References.fit_HoRT_offset', label + stage + ' rank-deficient square system',
              'the %dx%d composition matrix of this reference set is rank deficient and was handed to np.linalg.solve '
              'before np.linalg.lstsq: the exact solver raises LinAlgError only for an exactly zero pivot (C7H5O4|C2H2|'
              'C9H7O4 leaves a pivot of 1e-16 and offsets of 1e15), so the offsets are not the least-squares ones and '
              'the residual is not orthogonal to the composition matrix' % (size, size),
              mod or owner.module, nd if mod is not None else fn,
              sample='rank-deficient reference set, also a square one: the solver handed the system is least-squares')
    n += 1
    shape_ok = isinstance(M, ListV) and len(M) == len(species) and \
        all(isinstance(row, ListV) and len(row) == len(names) for row in M.items) and \
        isinstance(y, ListV) and len(y) == len(species)
    run.check(shape_ok, 'PATH.refit' if stage else 'DATAFLOW.matrix', 'References.fit_HoRT_offset',
              label + stage + ' shape',
              'the system handed to the solver is %s x %s, expected %d reference species x %d descriptors %s'
              % (len(M) if isinstance(M, ListV) else '?',
                 len(M.items[0]) if isinstance(M, ListV) and M.items and isinstance(M.items[0], ListV) else '?',
                 len(species), len(names), names), owner.module, fn)
    if not shape_ok:
        return n
    Ts = [sp.T for sp in species]
    want_T = Ts[0]
    if not all(same(t, Ts[0]) for t in Ts):
        want_T = C(0)
        for t in Ts:
            want_T = want_T + t
        want_T = want_T / C(len(Ts))
    got_T = pub(I, r, 'T_ref')
    run.check(same(got_T, want_T), 'REF.fit', 'References.fit_HoRT_offset', label + stage + ' T_ref',
              'reference temperature after the fit is %s, expected the common (mean) reference temperature of the '
              'species %s' % (show(got_T), show(want_T)), owner.module, fn)
    # The linear system.  The property needs: with the stored offsets o, H_dft - H_exp - M o is the least-squares
    # residual.  The solver may be handed any non-zero constant multiple k of the right-hand side (exp - dft is k=-1)
    # as long as the stored offsets are the solution divided by the same k.
    want_y = [sp.dft(I, sp.T) - sp.Hexp for sp in species]
    k = proportional(y.items[0], want_y[0]) if isinstance(y.items[0], Rat) else None
    kk = C(k if k is not None else 1)
    want_off = [x.items[j] / kk for j in range(len(names))]
    off = pub(I, r, 'offset')
    ok_off = isinstance(off, DictV) and sorted(off.d) == names and \
        all(same(off.d[k_], want_off[j]) for j, k_ in enumerate(names))
    run.check(ok_off, 'DATAFLOW.offset', 'References.fit_HoRT_offset', label + stage + ' offsets',
              'the offsets stored after the fit are %s; expected one per descriptor %s of the current reference set, '
              'equal to the solution of this solve %s%s in the column order of the descriptor matrix'
              % (show(off), names, show(x), '' if kk.eq(C(1)) else ' divided by %s (the factor the right-hand side '
                 'was multiplied with)' % k), owner.module, fn)
    for i, sp in enumerate(species):
        # matrix row = composition of the species over the sorted descriptor names (0 when absent)
        row_ok = all(same(M.items[i].items[j], sp.comp.get(k_, C(0))) for j, k_ in enumerate(names))
        run.check(row_ok, 'DATAFLOW.matrix', 'References.get_descriptors_matrix', label + stage + ' row%d' % i,
                  'row %d of the descriptor matrix is %s, not the composition (%s) of %s over %s'
                  % (i, show(M.items[i]), dname, sp.label, names), owner.module, fn)
        Ti = sp.T
        dft = sp.dft(I, Ti)
        run.check(same(y.items[i], want_y[i] * kk), 'DATAFLOW.rhs', 'References.fit_HoRT_offset',
                  label + stage + ' rhs%d' % i, 'right-hand side entry is %s, expected H_dft(T_ref) - H_exp%s'
                  % (show(y.items[i]), '' if i == 0 else ' times the factor %s of the first row' % kk),
                  owner.module, fn)
        n += 2
        if not same(want_T, Ti):
            continue        # differing reference temperatures: reproduction only up to T_mean/T_i (not decided)
        adj = I.call_method(r, 'get_HoRT', [], {'descriptors': DictV(dict(sp.comp)), 'T': Ti})
        resid = y.items[i]
        for j in range(len(names)):
            resid = resid - M.items[i].items[j] * x.items[j]
        resid = resid / kk
        got = dft + adj - sp.Hexp if isinstance(adj, Rat) else adj
        run.check(same(got, resid), 'ALG.reproduces', 'References.fit_HoRT_offset', label + stage + ' species%d' % i,
                  'adjusted minus experimental enthalpy of reference %d (%s) is %s but the least-squares residual of '
                  'its row is %s: fit and application disagree' % (i, sp.label, show(got, 160), show(resid, 160)),
                  owner.module, fn,
                  sample='H_dft + adjustment - H_exp == (y - M x)[%d]  for %s%s' % (i, label, stage))
        n += 1
    # a species that was given this References object BEFORE the fit is adjusted with the offsets of THIS fit
    for hd in holders:
        sp, comp, T = hd['sp'], hd['comp'], hd['T']
        o2, f2 = repo.find_method(repo.cls(SM), 'get_HoRT')
        with_refs = I.call_method(sp, 'get_HoRT', [], {'T': T})
        if 'without' not in hd:
            # what the species is without references does not involve the References object: evaluated once per case
            # (that switching the references off leaves no offset behind is FWD.switch above)
            hd['without'] = I.call_method(sp, 'get_HoRT', [], {'T': T, 'use_references': False})
        without = hd['without']
        want = C(0)
        for j, k_ in enumerate(names):
            if k_ in comp:
                want = want - want_off[j] * comp[k_] * want_T / T
        ok = isinstance(with_refs, Rat) and isinstance(without, Rat) and same(with_refs - without, want)
        run.check(ok, 'REF.apply', 'StatMech.get_HoRT', label + stage + ' species holding the references',
                  'a species created with references=refs before this fit is shifted by %s; expected the offsets of '
                  'this fit over its composition, %s' % (
                      show(with_refs - without, 160) if isinstance(with_refs, Rat) and isinstance(without, Rat)
                      else show(with_refs, 120), show(want, 160)), o2.module, f2,
                  sample='StatMech(references=refs) made before %s%s: shift = -(sum off_this_fit*n)*T_ref/T'
                  % (label, stage))
        n += 1
    return n


def np_int_counts(I, values):
    """declare the symbols of ``values`` to stand for numpy integers (np.int64: neither a Python int nor a Python
    float; what np.unique(..., return_counts=True) and np.sum of integers return)"""
    for v in values:
        I.np_syms.update({str(a_): 'int64' for a_ in atoms_of(v)})


def arm(capability):
    """mutants whose detection needs a model the interpreter may not have yet are armed by the run that finds the
    model present (the self-test reads MUTANTS after the module has run)"""
    for mt in PENDING_MUTANTS:
        if mt['needs'] == capability and mt['name'] not in [m_['name'] for m_ in MUTANTS]:
            MUTANTS.append({k: v for k, v in mt.items() if k != 'needs'})


def copies_are_objects(I, obj):
    """does the interpreter model copy.copy of an object as a new object (REQ2_C10 item 1)?"""
    h = I.native.get('copy.copy')
    try:
        made = h is not None and h(I, None, [obj], {}, None) is not obj
    except Exception:
        return False
    if made:
        arm('object-copy')
    return made


def check(run, repo):
    run.explanation = (
        'Every object is made by its public constructor (References(offset=, T_ref=, descriptor=), '
        'References(references=[...]), Reference(name=, elements=, T_ref=, HoRT_ref=, model=), StatMech(name=, modes, '
        'elements=, references=); a dictionary of groups is assigned as an attribute) and read through its public '
        'attributes. get_CvoR/CpoR/UoRT/SoR are 0 and GoRT = HoRT - SoR; get_HoRT with '
        'symbolic offsets and composition is -sum offset[d]*n_d * T_ref/T: homogeneous linear in the composition, '
        'T*HoRT free of T, descriptors absent from the references only warn; a second References object with other '
        'offsets in the same run gives its own adjustment; T_ref left to its default is 298.15 K (arguments handed '
        'over positionally). Through a species (references described '
        'by elements or by groups; the species has the composition the references are described by and NOT the other '
        'one - no elements in the groups case): HoRT/GoRT are shifted by that amount at the temperature the species '
        'itself is evaluated at (T, or the T of its <name>_kwargs entry), H/G with units by -(sum offset*n)*R*T_ref, '
        'S/Cp/Cv (dimensionless and with units) not at all, and with use_references=False no offset is left in the '
        'value; the same with a pressure / a pressure and a volume among the conditions (the translational mode is '
        'declared to take T, P, V) and, with verbose=True, contribution by contribution (the sixth entry is the '
        'adjustment, the others do not change). fit_HoRT_offset is interpreted through its real code (descriptor matrix, reference temperatures, '
        'right-hand side) with np.linalg.lstsq as an uninterpreted solver that returns fresh symbolic offsets on every '
        'call and accepts no truncation threshold (rcond absent/None/-1/<=1e-10); np.linalg.solve is the exact solver '
        '(LinAlgError for a singular or non-square matrix). The solver may be handed a constant multiple k of '
        'H_dft - H_exp when the stored offsets are the solution divided by k. For every reference species i the '
        'adjusted enthalpy at T_ref minus the experimental value is identically the least-squares residual of row i '
        '(so a uniquely determined fit reproduces the experiment, and the residual is the solver\'s), for 1-3 '
        'references over 1-3 descriptors including a descriptor missing from one species and more species than '
        'descriptors, described by elements or by groups (some species carry an unrelated dictionary under the other '
        'name, some none); the reference species are unnamed (the default) or share names. A species created with '
        'references=refs right after the first fit is, after every later fit, shifted by the offsets of that fit. The '
        'same is decided again after every step '
        'of: append a reference with a descriptor new to the set + refit, pop + refit, remove + refit, extend by two '
        '(one with a new descriptor; handed over as a list or as a tuple) + refit, refs[1] = another species + refit, '
        'pop(0) + refit - a change of the set that raises is a finding - against the rule\'s own list of species: shape of the system, one '
        'offset per current descriptor equal to the solution of the last solve, T_ref, rows, right-hand side, '
        'reproduction. Reference temperatures differing by 0.01 K: the fit succeeds, each species is evaluated at '
        'its own T_ref and T_ref becomes the mean. Rank-deficient reference sets with concrete counts (C2H4|C3H6 over '
        'C,H: 2x2 rank 1, + CH2: 3x2 rank 1; CH4O|C2H6O2|C3H8O3: 3x3 rank 2; C7H5O4|C2H2|C9H7O4: 3x3 rank 2 with '
        'row 3 = row 1 + row 2, + CH: 4x3, pop: square again): the fit succeeds, the same identities hold, and the '
        'system of a rank-deficient set - also a square one - is not handed to the exact solver on its way to the '
        'least-squares solver (LinAlgError for a singular matrix depends on round-off; relying on it leaves offsets '
        'that are not the least-squares ones).')
    run.assumptions = ['np.linalg.lstsq without a truncation threshold returns the least-squares solution of the '
                       'system it is given (NumPy contract)',
                       'np.linalg.solve of a square matrix whose determinant is not identically zero returns the '
                       'solution of the system (generic counts; singular sets are the concrete instances)']
    run.undecided = ['orthogonality of the residual for rank-deficient sets (NumPy contract)',
                     'how closely references with slightly different reference temperatures are reproduced '
                     '(factor T_mean/T_ref,i)']
    ci = repo.cls(REFS)
    for m_ in ('get_HoRT', 'get_GoRT', 'fit_HoRT_offset', 'get_descriptors', 'get_descriptors_matrix'):
        run.fn(REFS + '.' + m_)
    # ---- application ---------------------------------------------------------
    I = Interp(repo)
    D = I.D
    T, Tr = D.sym('T'), D.sym('T_ref')
    oA, oB = D.sym('offA'), D.sym('offB')
    r = built(I.construct(ci, [], {'offset': DictV({'A': oA, 'B': oB}), 'T_ref': Tr}, name='refs'),
              'References(offset=, T_ref=)')
    copies_are_objects(I, r)
    for q in ('get_CvoR', 'get_CpoR', 'get_UoRT', 'get_SoR'):
        owner, fn = repo.find_method(ci, q)
        got = I.call_method(r, q, [], {})
        run.check(same(got, C(0)), 'IDENT.zero', 'References.' + q, 'zero',
                  'the reference adjustment must contribute nothing to %s (got %s)' % (q[4:], show(got)),
                  owner.module, fn)
    nA, nB, nC = D.sym('nA'), D.sym('nB'), D.sym('nC')
    owner, fn = repo.find_method(ci, 'get_HoRT')
    cnt = {'A': nA, 'B': nB, 'C': nC}
    want = -(oA * nA + oB * nB) * Tr / T
    # the descriptor the references do not know (C) is listed last, first and in the middle of the composition: its
    # place must not matter, every known descriptor contributes
    for order in ('ABC', 'CAB', 'ACB'):
        desc = DictV({k: cnt[k] for k in order})
        tag = '' if order == 'ABC' else ' [composition listed as %s]' % ','.join(order)
        nwarn = len(I.warnings)
        H = I.call_method(r, 'get_HoRT', [], {'descriptors': desc, 'T': T})
        run.check(same(H, want), 'REF.apply', 'References.get_HoRT', 'T given' + tag,
                  'adjustment is %s, expected -(sum offset*n) * T_ref/T' % show(H), owner.module, fn,
                  sample='References.get_HoRT({A:nA,B:nB,C:nC}, T) == -(offA*nA+offB*nB)*T_ref/T')
        run.check(len(I.warnings) > nwarn and not isinstance(H, Raised), 'PATH.missing-descriptor',
                  'References.get_HoRT', 'absent descriptor' + tag,
                  'a descriptor absent from the references must produce a warning, not a failure', owner.module, fn)
        if isinstance(H, Rat):
            run.check(D.d(H * T, 'T').iszero(), 'DERIV.T-free', 'References.get_HoRT', 'T*HoRT' + tag,
                      'the adjustment in energy units depends on temperature', owner.module, fn)
            lin = nA * D.d(H, 'nA') + nB * D.d(H, 'nB') + nC * D.d(H, 'nC')
            run.check(same(lin, H), 'DERIV.linear', 'References.get_HoRT', 'composition' + tag,
                      'the adjustment is not homogeneous linear in the composition', owner.module, fn)
    desc = DictV(dict(cnt))
    H0 = I.call_method(r, 'get_HoRT', [], {'descriptors': DictV({'A': nA, 'B': nB})})
    run.check(same(H0, -(oA * nA + oB * nB)), 'REF.apply', 'References.get_HoRT', 'T omitted',
              'without T the adjustment must be the dimensionless offset at T_ref (got %s)' % show(H0), owner.module, fn)
    G = I.call_method(r, 'get_GoRT', [], {'descriptors': desc, 'T': T})
    o2, f2 = repo.find_method(ci, 'get_GoRT')
    run.check(same(G, want), 'TWIN.G=H-S', 'References.get_GoRT', 'twin', 'G adjustment is not H - S (S=0)', o2.module, f2)
    # a second References object in the same run (other offsets, another reference temperature, descriptors A and C):
    # each object adjusts with its own offsets, also when the calls alternate
    pA, pC, Tq = D.sym('offA\''), D.sym('offC\''), D.sym('T_ref\'')
    r2 = built(I.construct(ci, [], {'offset': DictV({'C': pC, 'A': pA}), 'T_ref': Tq}, name='refs2'),
               'References(offset=, T_ref=)')
    for obj_, want_, tag in ((r2, -(pA * nA + pC * nC) * Tq / T, 'second object'), (r, want, 'first object again')):
        H = I.call_method(obj_, 'get_HoRT', [], {'descriptors': DictV(dict(cnt)), 'T': T})
        run.check(same(H, want_), 'REF.apply', 'References.get_HoRT', 'two References objects, ' + tag,
                  'adjustment is %s, expected %s: -(sum offset*n) * T_ref/T with the offsets and the reference '
                  'temperature of the object that is asked' % (show(H), show(want_)), owner.module, fn)
    # T_ref left to its default - documented as 298.15 K -, composition and temperature handed over positionally
    r3 = built(I.construct(ci, [], {'offset': DictV({'A': oA, 'B': oB})}, name='refs3'), 'References(offset=)')
    H = I.call_method(r3, 'get_HoRT', [DictV({'A': nA, 'B': nB}), T], {})
    run.check(same(H, -(oA * nA + oB * nB) * C(Fr('298.15')) / T), 'REF.apply', 'References.get_HoRT',
              'default reference temperature',
              'adjustment of References(offset=...) without T_ref is %s, expected -(sum offset*n) * 298.15 K/T'
              % show(H), owner.module, fn)
    # the counts of a composition are numbers of any kind: compositions counted with numpy carry np.int64
    # (dict(zip(*np.unique(symbols, return_counts=True)))), which is neither a Python int nor a Python float
    mA, mB = D.sym('mA'), D.sym('mB')
    np_int_counts(I, (mA, mB))
    H = I.call_method(r, 'get_HoRT', [], {'descriptors': DictV({'A': mA, 'B': mB}), 'T': T})
    run.check(same(H, -(oA * mA + oB * mB) * Tr / T), 'REF.apply', 'References.get_HoRT',
              'counts that are numpy integers',
              'adjustment for a composition whose counts are np.int64 is %s, expected -(sum offset*n) * T_ref/T'
              % show(H), owner.module, fn)

    # ---- application through a species: the species hands over the composition the references are described by ---
    sci = repo.cls(SM)
    for dname, both in (('elements', False), ('groups', False), ('elements', True), ('groups', True)):
        I2 = Interp(repo)
        D2 = I2.D
        T2, Tr2 = D2.sym('T'), D2.sym('T_ref')
        comp = {'elements': DictV({'A': D2.sym('nA'), 'B': D2.sym('nB')}),
                'groups': DictV({'CH3': D2.sym('gA'), 'OH': D2.sym('gB')})}
        if not both:
            np_int_counts(I2, comp[dname].d.values())      # counted with numpy (np.unique(..., return_counts=True))
        off = DictV({k: D2.sym('off_' + k) for k in comp[dname].d})
        refs = built(I2.construct(ci, [], {'offset': off, 'T_ref': Tr2, 'descriptor': dname}, name='refs'),
                     'References(offset=, T_ref=, descriptor=)')
        # the species has the composition the references are described by and either a different one under the other
        # name or - the usual case - nothing there: elements=None is the default, groups exist only where assigned
        sp = make_species(I2, repo, 'sp', refs, comp[dname], dname, other=comp[OTHER[dname]] if both else None)
        dtag = dname if both else '%s, species without %s' % (dname, OTHER[dname])
        owner2, fn2 = repo.find_method(sci, 'get_HoRT')
        for q in ('get_HoRT', 'get_GoRT'):
            with_refs = I2.call_method(sp, q, [], {'T': T2})
            without = I2.call_method(sp, q, [], {'T': T2, 'use_references': False})
            want_adj = C(0)
            for k, nk in comp[dname].d.items():
                want_adj = want_adj - off.d[k] * nk * Tr2 / T2
            ok = isinstance(with_refs, Rat) and isinstance(without, Rat) and same(with_refs - without, want_adj)
            run.check(ok, 'REF.apply', 'StatMech.' + q, 'references described by %s' % dtag,
                      'a species whose references are described by its %r shifts %s by %s, expected '
                      '-(sum offset*n) * T_ref/T over that composition' % (
                          dname, q[4:], show(with_refs - without, 160) if ok is False and isinstance(with_refs, Rat)
                          and isinstance(without, Rat) else show(with_refs, 120)), owner2.module, fn2,
                      sample='StatMech.%s with References(descriptor=%r): shift = -(sum offset*n)*T_ref/T' % (q, dname))
            if both:
                continue        # the rest is decided on the species that has the described composition only
            # a gas is asked with its pressure (and volume) as well - sp.get_HoRT(T=500., P=1.) is the normal call:
            # conditions the references have no use for change nothing in what they add
            for extra in (('P',), ('P', 'V')):
                cond = dict({'T': T2}, **{k_: D2.sym(k_) for k_ in extra})
                with_refs = I2.call_method(sp, q, [], dict(cond))
                without = I2.call_method(sp, q, [], dict(cond, use_references=False))
                ok = isinstance(with_refs, Rat) and isinstance(without, Rat) and same(with_refs - without, want_adj)
                run.check(ok, 'REF.apply', 'StatMech.' + q,
                          'references described by %s, conditions T,%s' % (dtag, ','.join(extra)),
                          'a species evaluated with %s shifts %s by %s, expected -(sum offset*n) * T_ref/T whatever '
                          'other conditions are given' % (
                              ', '.join('%s=%s' % (k_, k_) for k_ in sorted(cond)), q[4:],
                              show(with_refs - without, 160) if isinstance(with_refs, Rat) and isinstance(without, Rat)
                              else show(with_refs if not isinstance(with_refs, Rat) else without, 120)),
                          owner2.module, fn2,
                          sample='StatMech.%s(T, %s) with references: shift = -(sum offset*n)*T_ref/T'
                          % (q, ', '.join(extra)))
            # verbose=True: the contributions one by one, documented as [trans, vib, rot, elec, nucl, references,
            # misc models]: the adjustment is the sixth entry, it is 0 with the references switched off, and no other
            # entry knows about the references (dimensionless and in energy units)
            for qv, kw_v, want_v in ((q, {}, want_adj),
                                     ({'get_HoRT': 'get_H', 'get_GoRT': 'get_G'}[q], {'units': 'J/mol'}, None)):
                if want_v is None:
                    Rv = I2.native['pmutt.constants.R'](I2, None, ['J/mol/K'], {}, None)
                    want_v = C(0)
                    for k, nk in comp[dname].d.items():
                        want_v = want_v - off.d[k] * nk * Tr2 * Rv
                vw = I2.call_method(sp, qv, [], dict(kw_v, T=T2, verbose=True))
                vo = I2.call_method(sp, qv, [], dict(kw_v, T=T2, verbose=True, use_references=False))
                ok = isinstance(vw, ListV) and isinstance(vo, ListV) and len(vw) == len(vo) and len(vw) >= 6 and \
                    all(isinstance(x_, Rat) for x_ in vw.items + vo.items) and \
                    same(vw.items[5], want_v) and same(vo.items[5], C(0)) and \
                    all(same(a_, b_) for i_, (a_, b_) in enumerate(zip(vw.items, vo.items)) if i_ != 5)
                ov_, fv_ = repo.find_method(sci, qv)
                run.check(ok, 'REF.apply', 'StatMech.' + qv, 'references described by %s, verbose' % dtag,
                          '%s(T, verbose=True) gives %s with references and %s without; expected the same '
                          'contributions of the modes in both, and %s / 0 as the sixth entry (references)'
                          % (qv, show(vw, 200), show(vo, 200), show(want_v, 120)), ov_.module, fv_,
                          sample='StatMech.%s(T, verbose=True)[5] == adjustment of the references' % qv)
            # the species is given its own temperature the documented way (<name>_kwargs); an entry for another
            # species is not its business: modes and adjustment are both evaluated at the species' temperature, so the
            # energy added is still -(sum offset*n)*R*T_ref whatever T is
            T3, T4 = D2.sym('T_sp'), D2.sym('T_other')
            kw_ = lambda: {'T': T2, 'sp_kwargs': DictV({'T': T3}), 'other_kwargs': DictV({'T': T4})}
            with_refs = I2.call_method(sp, q, [], kw_())
            without = I2.call_method(sp, q, [], dict(kw_(), use_references=False))
            want_adj = C(0)
            for k, nk in comp[dname].d.items():
                want_adj = want_adj - off.d[k] * nk * Tr2 / T3
            ok = isinstance(with_refs, Rat) and isinstance(without, Rat) and same(with_refs - without, want_adj)
            run.check(ok, 'REF.apply', 'StatMech.' + q, 'references described by %s, species-specific T' % dtag,
                      'a species evaluated with T=T and %s_kwargs={T: T_sp} shifts %s by %s, expected '
                      '-(sum offset*n) * T_ref/T_sp (the temperature the species itself is evaluated at)' % (
                          'sp', q[4:], show(with_refs - without, 160) if isinstance(with_refs, Rat)
                          and isinstance(without, Rat) else show(with_refs, 120)), owner2.module, fn2,
                      sample='StatMech.%s(T=T, sp_kwargs={T: T_sp}) with references: shift = -(sum offset*n)*T_ref/T_sp'
                      % q)

            # the same in energy units: the energy added to H and G is -(sum offset*n)*R*T_ref - free of T - and it is
            # gone (no offset left in the value) when the references are switched off
            qu, units = {'get_HoRT': ('get_H', 'J/mol'), 'get_GoRT': ('get_G', 'kcal/mol')}[q]
            Ru = I2.native['pmutt.constants.R'](I2, None, [units + '/K'], {}, None)
            with_refs = I2.call_method(sp, qu, [], {'T': T2, 'units': units})
            without = I2.call_method(sp, qu, [], {'T': T2, 'units': units, 'use_references': False})
            want_E = C(0)
            for k, nk in comp[dname].d.items():
                want_E = want_E - off.d[k] * nk * Tr2 * Ru
            ok = isinstance(with_refs, Rat) and isinstance(without, Rat) and same(with_refs - without, want_E)
            o3, f3 = repo.find_method(sci, qu)
            run.check(ok, 'REF.apply', 'StatMech.' + qu, 'references described by %s' % dtag,
                      'a species with references shifts %s(units=%r) by %s, expected -(sum offset*n)*R*T_ref' % (
                          qu[4:], units, show(with_refs - without, 160) if isinstance(with_refs, Rat)
                          and isinstance(without, Rat) else show(with_refs, 120)), o3.module, f3,
                      sample='StatMech.%s(T, units) with references: shift = -(sum offset*n)*R*T_ref' % qu)
            # ... and with the pressure (and volume) of a gas among the conditions
            cond = dict({'T': T2, 'units': units},
                        **{k_: D2.sym(k_) for k_ in (('P',) if q == 'get_HoRT' else ('P', 'V'))})
            with_P = I2.call_method(sp, qu, [], dict(cond))
            without_P = I2.call_method(sp, qu, [], dict(cond, use_references=False))
            ok = isinstance(with_P, Rat) and isinstance(without_P, Rat) and same(with_P - without_P, want_E)
            run.check(ok, 'REF.apply', 'StatMech.' + qu, 'references described by %s, conditions %s'
                      % (dtag, ','.join(sorted(set(cond) - {'units'}))),
                      'a species with references evaluated with %s shifts %s(units=%r) by %s, expected '
                      '-(sum offset*n)*R*T_ref' % (
                          ', '.join(sorted(set(cond) - {'units'})), qu[4:], units,
                          show(with_P - without_P, 160) if isinstance(with_P, Rat) and isinstance(without_P, Rat)
                          else show(with_P if not isinstance(with_P, Rat) else without_P, 120)), o3.module, f3)
            left = [str(a_) for a_ in atoms_of(without) if str(a_).startswith('off_')] if isinstance(without, Rat) \
                else ['?']
            run.check(not left, 'FWD.switch', 'StatMech.' + qu, 'use_references=False, %s' % dtag,
                      '%s(use_references=False) still depends on the offsets %s: the adjustment is not switched off'
                      % (qu, left), o3.module, f3)
        if both:
            continue
        # nothing is added to S and the heat capacities, dimensionless or with units
        # (the entropy of a gas is asked with its pressure: get_SoR(T=, P=) / get_S(T=, P=, units=))
        for q, units, extra in (('get_SoR', None, ()), ('get_CpoR', None, ()), ('get_CvoR', None, ()),
                                ('get_S', 'J/mol/K', ()), ('get_Cp', 'J/mol/K', ()), ('get_Cv', 'J/mol/K', ()),
                                ('get_SoR', None, ('P',)), ('get_S', 'J/mol/K', ('P',)),
                                ('get_CpoR', None, ('P', 'V'))):
            kw_ = dict({'T': T2}, **{k_: D2.sym(k_) for k_ in extra})
            if units:
                kw_['units'] = units
            with_refs = I2.call_method(sp, q, [], dict(kw_))
            without = I2.call_method(sp, q, [], dict(kw_, use_references=False))
            o3, f3 = repo.find_method(sci, q)
            ok = isinstance(with_refs, Rat) and isinstance(without, Rat) and same(with_refs, without)
            run.check(ok, 'IDENT.zero', 'StatMech.' + q, 'references described by %s' % dtag
                      + (', conditions T,%s' % ','.join(extra) if extra else ''),
                      'references change %s of a species by %s' % (q[4:], show(with_refs - without, 160) if isinstance(
                          with_refs, Rat) and isinstance(without, Rat) else show(with_refs, 120)), o3.module, f3)

    # ---- fitting ---------------------------------------------------------------
    n_fit = 0
    stages = []         # fits the rule set up (construction or change of the reference set + refit)
    owner, fn = repo.find_method(ci, 'fit_HoRT_offset')
    fit_cases = [(comps, dname, False, None)
                 for dname in ('elements', 'groups')
                 for comps in ((('A', 'B'), ('A', 'B')), (('A', 'B'), ('B',), ('A', 'B', 'C')), (('A',), ('A', 'B')))]
    # one descriptor, one reference; one descriptor and more references than descriptors
    fit_cases.append(((('A',),), 'elements', False, None))
    fit_cases.append(((('A',), ('A',), ('A',)), 'groups', False, None))
    # reference temperatures that differ slightly (298.15 K vs 298.16 K): the fit still succeeds
    fit_cases.append(((('A', 'B'), ('B',), ('A', 'B')), 'elements', True, None))
    # rank-deficient reference sets (concrete counts; the appended reference keeps the rank): C2H4|C3H6 (+CH2) over
    # C,H and CH4O|C2H6O2|C3H8O3 over C,H,O.  They come last: concrete numbers are where the interpreter refuses most
    fit_cases.append(((('A', 'B'), ('A', 'B')), 'elements', False,
                      ([{'A': 2, 'B': 4}, {'A': 3, 'B': 6}], {'A': 1, 'B': 2}, 'rank 1: A2B4|A3B6')))
    fit_cases.append(((('A', 'B', 'C'), ('A', 'B', 'C'), ('A', 'B', 'C')), 'groups', False,
                      ([{'A': 1, 'B': 4, 'C': 1}, {'A': 2, 'B': 6, 'C': 2}, {'A': 3, 'B': 8, 'C': 3}], None,
                       'rank 2: AB4C|A2B6C2|A3B8C3')))
    # as many references as descriptors, one row the sum of the other two (C7H5O4|C2H2|C9H7O4 over C,H,O: 3x3 rank 2,
    # one species without the third descriptor): the offsets are not determined, so the system must reach the
    # least-squares solver although it is square.  Then the set becomes 4x3 (CH appended, rank kept) and square again
    # (pop): the refit of the square rank-deficient set is decided the same way
    fit_cases.append(((('A', 'B', 'C'), ('A', 'B'), ('A', 'B', 'C')), 'elements', False,
                      ([{'A': 7, 'B': 5, 'C': 4}, {'A': 2, 'B': 2}, {'A': 9, 'B': 7, 'C': 4}], {'A': 1, 'B': 1},
                       'rank 2, square: A7B5C4|A2B2|A9B7C4 (row 3 = row 1 + row 2)', 'pop')))
    if run.tier == 'thorough':
        # the upper end of the sizes the property names: 8 reference species over 5 descriptors (+ the history)
        fit_cases.append(((('A', 'B'), ('B', 'C'), ('C', 'D'), ('D', 'E'), ('A', 'E'), ('A', 'B', 'C', 'D', 'E'),
                           ('A', 'C', 'E'), ('B', 'D')), 'elements', False, None))
    # Names of the reference species (Reference.name; nothing in the property depends on them): the default of the
    # class - every species unnamed - or names that occur more than once (isomers, the same species from two sources)
    shared = {'ref0': 'C3H6O', 'ref1': 'C3H6O', 'ref2': 'acetone', 'refX': 'C3H6O', 'refY': 'acetone', 'refZ': None,
              'refW': 'acetone'}
    for case_no, (comps, dname, vary_T, concrete) in enumerate(fit_cases):
        I = Interp(repo)
        D = I.D
        # reference temperatures that differ are written out (298.15 K and 0.01 K more): whether two temperatures
        # count as the same depends on their magnitude (a relative tolerance), which a symbol does not have
        Tr = C(Fr('298.15')) if vary_T else D.sym('Tr')
        sols = solver_model(I)
        pname = (lambda lb: None) if case_no % 2 == 0 else shared.get
        Trefs = [Tr + C(Fr(1, 100)) if vary_T and i == 1 else Tr for i in range(len(comps))]
        # the species also carry an unrelated dictionary under the other name: all of them (every third case) or
        # every other one - the rest has nothing there (elements=None, no groups)
        species = [ref_species(I, repo, 'ref%d' % i, comp, Trefs[i], dname, name=pname('ref%d' % i),
                               counts=concrete[0][i] if concrete else None,
                               other=case_no % 3 == 0 or (i + case_no) % 2 == 0)
                   for i, comp in enumerate(comps)]
        if case_no in (2, 5):
            # compositions counted with numpy (np.int64 counts) - nothing in the property depends on the number type
            np_int_counts(I, [v_ for s_ in species for v_ in s_.comp.values()])
        kw_ = {'references': ListV([s_.obj for s_ in species])}
        if dname != 'elements':
            kw_['descriptor'] = dname
        label = 'references:%s' % '|'.join(''.join(c_) for c_ in comps)
        if dname != 'elements':
            label += ' described by %s' % dname
        if vary_T:
            label += ' T_ref differing by 0.01 K'
        if concrete:
            label += ' ' + concrete[2]
        stages.append(label)
        r = I.construct(ci, [], kw_, name='refs')
        if isinstance(r, Raised) or 'x' not in sols:
            run.fail('REF.fit', 'References.fit_HoRT_offset', label, 'constructing References with reference species '
                     'does not fit the offsets (%s)' % show(r), owner.module, fn)
            continue
        # descriptor counts are real numbers (fractional formula units, non-stoichiometric oxides, user descriptors):
        # nothing on the way to the solver may store them in an integer-typed buffer
        hz = list(I.dtype_hazards)
        hm = [m_ for m_ in repo.modules.values() if hz and m_.relpath == hz[0][1]]
        run.check(not hz, 'TYPE.int-buffer', 'References.get_descriptors_matrix', label + ' matrix element type',
                  'descriptor counts are stored into an array created with an integer element type: fractional '
                  'counts are truncated before the least-squares fit', hm[0] if hm else owner.module,
                  hz[0][0] if hz else fn)
        # A species that is given the References object now - before the reference set changes and is fitted again. It
        # holds the object; after every later fit it must be adjusted with the offsets of that fit. Its composition
        # has a descriptor that comes and goes with the appended reference (D) and one the set never knows (Q).
        tcomp = {k: D.sym('t' + k) for k in ('A', 'B', 'D', 'Q')}
        holder = make_species(I, repo, 'target', r, DictV(tcomp), dname)
        holders = [{'sp': holder, 'comp': tcomp, 'T': D.sym('T')}]
        n_fit += verify_fit(run, repo, ci, I, r, species, sols, dname, label, '', holders)
        if vary_T:
            continue
        # A sequence of changes to the reference set, each followed by a refit. The rule keeps its own list of the
        # species that are in the set; after every refit the system handed to the solver, the stored offsets (the
        # solution of THIS solve - the solver model numbers its solutions), T_ref and the reproduction of every
        # reference are decided again against that list.
        now = list(species)
        nf0 = len(run.findings)

        def step(stage, method, kw_m, added=(), removed=None, args=(), replaced=None):
            """one change of the reference set + refit.  Not run once the history of this case has produced findings:
            the set is then not what the rule's list says and what follows would only repeat that"""
            stages.append(label + stage)
            if len(run.findings) > nf0:
                return 0
            res = I.call_method(r, method, list(args), kw_m)
            if isinstance(res, Raised):
                # the change of the reference set itself failed: said here, not discovered through the next fit
                o_m, f_m = repo.find_method(ci, method)
                run.fail('PATH.refit', 'References.' + method, label + stage + ' ' + method,
                         'References.%s(%s) with valid arguments raised %s: the reference set cannot be changed and '
                         'fitted again' % (method, ', '.join([show(a_, 30) for a_ in args] + sorted(kw_m)), res.exc),
                         o_m.module, f_m)
                return 0
            if replaced is not None:
                now[replaced[0]] = replaced[1]
            now.extend(added)
            if removed is not None:
                now.pop(removed)
            return refit(run, repo, ci, I, r, now, sols, dname, label, stage, holders)
        if concrete:
            # rank-deficient sets: one more reference that keeps the rank (more species than descriptors) + refit
            if concrete[1] is not None:
                extra = ref_species(I, repo, 'refX', tuple(concrete[1]), Tr, dname, name=pname('refX'),
                                    counts=concrete[1])
                n_fit += step(' append+refit', 'append', {'obj': extra.obj}, [extra])
                if len(concrete) > 3 and repo.find_method(ci, 'pop', missing_ok=True) is not None:
                    n_fit += step(' pop+refit (square again)', 'pop', {}, removed=-1)
            continue
        # ... a reference that brings a descriptor the set did not know (D)
        extra = ref_species(I, repo, 'refX', ('A', 'D'), Tr, dname, name=pname('refX'))
        n_fit += step(' append+refit', 'append', {'obj': extra.obj}, [extra])
        # ... removing references again (pop of the last takes D away again, remove of the first)
        if repo.find_method(ci, 'pop', missing_ok=True) is not None:
            n_fit += step(' pop+refit', 'pop', {}, removed=-1)
        if repo.find_method(ci, 'remove', missing_ok=True) is not None and len(now) > 1:
            n_fit += step(' remove+refit', 'remove', {'obj': now[0].obj}, removed=0)
        # ... and adding several references at once (one of them with another new descriptor)
        if repo.find_method(ci, 'extend', missing_ok=True) is not None:
            more = [ref_species(I, repo, 'refY', ('A',), Tr, dname, name=pname('refY')),
                    ref_species(I, repo, 'refZ', ('B', 'A', 'E'), Tr, dname, name=pname('refZ'))]
            seq = ListV([s_.obj for s_ in more])
            if case_no % 2:
                seq.is_tuple = True         # any sequence of species will do: a list or a tuple
            n_fit += step(' extend+refit', 'extend', {'seq': seq}, more)
        # ... replacing a reference in place (refs[i] = species; the new one has a descriptor of its own)
        if repo.find_method(ci, '__setitem__', missing_ok=True) is not None and len(now) > 1:
            new_ = ref_species(I, repo, 'refW', ('B', 'F'), Tr, dname, name=pname('refW'))
            n_fit += step(' setitem+refit', '__setitem__', {}, args=(C(1), new_.obj), replaced=(1, new_))
        # ... and taking out a reference by its position (pop(0): the first, not the default last)
        if repo.find_method(ci, 'pop', missing_ok=True) is not None and len(now) > 1:
            n_fit += step(' pop(0)+refit', 'pop', {}, args=(C(0),), removed=0)
    # 62 on this tree; without pop/remove/extend/__setitem__ in the class 24
    run.floor('fits of a reference set (construction, change + refit)', len(stages), 24)
    run.extra['fit_instances'] = n_fit


F_ = 'pmutt/empirical/references.py'
S_ = 'pmutt/statmech/__init__.py'
MUTANTS = [
    {'name': 'offset added instead of subtracted', 'expect': ('', 'References'),
     'edits': [(F_, '                HoRT -= self.offset[descriptor] * coefficient', '                HoRT += self.offset[descriptor] * coefficient')]},
    {'name': 'fit uses exp - dft', 'expect': ('', 'fit_HoRT_offset'),
     'edits': [(F_, '        ref_offset = HoRT_ref_dft - HoRT_ref_exp', '        ref_offset = HoRT_ref_exp - HoRT_ref_dft')]},
    {'name': 'T scaling inverted', 'expect': ('REF.apply', 'get_HoRT'),
     'edits': [(F_, '            return HoRT * self.T_ref / T', '            return HoRT * T / self.T_ref')]},
    {'name': 'missing descriptor fails', 'expect': ('', 'get_HoRT'),
     'edits': [(F_, '            except KeyError:\n                warn_msg = (\'References does not have offset value for the \'', '            except IndexError:\n                warn_msg = (\'References does not have offset value for the \'')]},
    {'name': 'matrix transposed indices', 'expect': ('', 'References'),
     'edits': [(F_, '                    descriptors_mat[i, j] = getattr(', '                    descriptors_mat[j, i] = getattr(')]},
]
MUTANTS += [
    {'name': 'wb: references evaluated with the raw keyword arguments, not the species\' own', 'expect': ('REF.apply', 'StatMech'),
     'edits': [(S_, '            ref_kwargs = copy(specie_kwargs)', '            ref_kwargs = copy(kwargs)')]},
    {'name': 'wb: descriptor tuple cached and never invalidated', 'expect': ('', 'fit_HoRT_offset'),
     'edits': [(F_, '        self.T_ref = T_ref\n        # If offset not specified but references is specified',
                '        self.T_ref = T_ref\n        self._descriptors = None\n        # If offset not specified but references is specified'),
               (F_, '        unique_descriptors = []\n        for reference in self.references:',
                '        if self._descriptors is not None:\n            return self._descriptors\n'
                '        unique_descriptors = []\n        for reference in self.references:'),
               (F_, '        return tuple(sorted(unique_descriptors))',
                '        self._descriptors = tuple(sorted(unique_descriptors))\n        return self._descriptors')]},
    {'name': 'wb: matrix always read from elements', 'expect': ('DATAFLOW.matrix', 'get_descriptors_matrix'),
     'edits': [(F_, '                        getattr(reference,\n                                self.descriptor)[descriptor_name]',
                '                        reference.elements[descriptor_name]')]},
    {'name': 'wb: lstsq with a truncation threshold', 'expect': ('REF.solver', 'fit_HoRT_offset'),
     'edits': [(F_, 'np.linalg.lstsq(descriptors_mat, ref_offset, rcond=None)[0]',
                'np.linalg.lstsq(descriptors_mat, ref_offset, rcond=1.e-2)[0]')]},
    {'name': 'wb: refit keeps the offsets it already had', 'expect': ('DATAFLOW.offset', 'fit_HoRT_offset'),
     'edits': [(F_, '        self.offset = {\n            descriptor: val\n            for descriptor, val in zip(descriptors, offset)\n        }',
                '        fitted = {\n            descriptor: val\n            for descriptor, val in zip(descriptors, offset)\n        }\n'
                '        self.offset = fitted if self.offset is None else {**fitted, **self.offset}')]},
    {'name': 'wb: differing reference temperatures refused', 'expect': ('', 'fit_HoRT_offset'),
     'edits': [(F_, '            warn(warn_msg)\n        self.T_ref = np.mean(T_refs)',
                '            raise ValueError(warn_msg)\n        self.T_ref = np.mean(T_refs)')]},
    {'name': 'wb: T_ref of the first reference instead of the mean', 'expect': ('REF.fit', 'fit_HoRT_offset'),
     'edits': [(F_, '        self.T_ref = np.mean(T_refs)', '        self.T_ref = T_refs[0]')]},
    {'name': 'wb: get_H does not hand on use_references', 'expect': ('', 'StatMech.get_H'),
     'edits': [(S_, '                             T=T,\n                             use_references=use_references,\n                             **kwargs) * T * R_adj',
                '                             T=T,\n                             **kwargs) * T * R_adj')]},
    {'name': 'wb: references add to the entropy of a species', 'expect': ('IDENT.zero', ''),
     'edits': [(F_, '    def get_SoR(self):\n        return 0.', '    def get_SoR(self):\n        return 1.')]},
]
MUTANTS += [
    {'name': 'wb2: append skips a reference whose name is already in the set (unnamed references: None)',
     'expect': ('PATH.refit', 'fit_HoRT_offset'),
     'edits': [(F_, '    def append(self, obj):\n        self.references.append(obj)',
                '    def append(self, obj):\n        if self.index(obj.name) is None:\n'
                '            self.references.append(obj)')]},
    {'name': 'wb2: extend skips references whose name is already in the set',
     'expect': ('PATH.refit', 'fit_HoRT_offset'),
     'edits': [(F_, '        self.references.extend(seq)',
                '        self.references.extend([obj for obj in seq if self.index(obj.name) is None])')]},
    {'name': 'wb2: references applied only to species that have elements', 'expect': ('REF.apply', 'StatMech'),
     'edits': [(S_, '        if use_references and self.references is not None:',
                '        if (use_references and self.references is not None\n'
                '                and self.elements is not None):')]},
    {'name': 'wb2: square systems solved with np.linalg.solve', 'expect': ('REF.fit', 'fit_HoRT_offset'),
     'edits': [(F_, '        offset = np.linalg.lstsq(descriptors_mat, ref_offset, rcond=None)[0]',
                '        if descriptors_mat.shape[0] == descriptors_mat.shape[1]:\n'
                '            offset = np.linalg.solve(descriptors_mat, ref_offset)\n'
                '        else:\n'
                '            offset = np.linalg.lstsq(descriptors_mat, ref_offset, rcond=None)[0]')]},
    {'name': 'wb2: correction exp - dft fitted and stored without changing the sign back',
     'expect': ('DATAFLOW.offset', 'fit_HoRT_offset'),
     'edits': [(F_, '        ref_offset = HoRT_ref_dft - HoRT_ref_exp', '        ref_offset = HoRT_ref_exp - HoRT_ref_dft'),
               (F_, '        offset = np.linalg.lstsq(descriptors_mat, ref_offset, rcond=None)[0]',
                '        offset = 0. + np.linalg.lstsq(descriptors_mat, ref_offset, rcond=None)[0]')]},
    {'name': 'wb2: offsets memoised per descriptor name across References objects',
     'expect': ('REF.apply', 'References.get_HoRT'),
     'edits': [(F_, 'class Reference(EmpiricalBase):', '_OFFSETS = {}\n\n\nclass Reference(EmpiricalBase):'),
               (F_, '                HoRT -= self.offset[descriptor] * coefficient',
                '                HoRT -= _OFFSETS.setdefault(descriptor, self.offset[descriptor]) * coefficient')]},
    {'name': 'wb2: counts that are not Python int/float skipped (numpy integers)',
     'expect': ('REF.apply', 'get_HoRT'),
     'edits': [(F_, '            try:\n                HoRT -= self.offset[descriptor] * coefficient',
                '            if not isinstance(coefficient, (int, float)):\n                continue\n'
                '            try:\n                HoRT -= self.offset[descriptor] * coefficient')]},
]
MUTANTS += [
    {'name': 'wb3: references left out when a pressure is among the conditions', 'expect': ('REF.apply', 'StatMech'),
     'edits': [(S_, '        if use_references and self.references is not None:',
                '        if (use_references and self.references is not None\n'
                '                and \'P\' not in specie_kwargs):')]},
    {'name': 'wb3: the constructor keeps a tuple of the reference species (no append/extend/pop any more)',
     'expect': ('PATH.refit', 'References.append'),
     'edits': [(F_, '        self.references = references\n        self.descriptor = descriptor',
                '        self.references = None if references is None else tuple(references)\n'
                '        self.descriptor = descriptor')]},
    {'name': 'wb3: extend validates a filter object in a loop and then extends with the exhausted iterator',
     'expect': ('PATH.refit', 'fit_HoRT_offset'),
     'edits': [(F_, '        self.references.extend(seq)',
                '        new_references = filter(lambda obj: obj is not None, seq)\n'
                '        for reference in new_references:\n'
                '            if getattr(reference, self.descriptor, None) is None:\n'
                '                raise ValueError(\'species without descriptors\')\n'
                '        self.references.extend(new_references)')]},
    {'name': 'wb3: refs[i] = species inserts the species instead of replacing the one at i',
     'expect': ('PATH.refit', 'fit_HoRT_offset'),
     'edits': [(F_, '        self.references[index] = reference', '        self.references.insert(index, reference)')]},
    {'name': 'wb3: pop ignores the position it is given', 'expect': ('PATH.refit', 'fit_HoRT_offset'),
     'edits': [(F_, '        self.references.pop(obj)', '        self.references.pop()')]},
    {'name': 'wb3: extend concatenates lists only (a tuple of species is a TypeError)',
     'expect': ('PATH.refit', 'References.extend'),
     'edits': [(F_, '        self.references.extend(seq)', '        self.references = self.references + seq')]},
    {'name': 'wb3: pop raises for its default position', 'expect': ('PATH.refit', 'References.pop'),
     'edits': [(F_, '        self.references.pop(obj)', '        self.references.pop(len(self.references))')]},
]
MUTANTS += [
    {'name': 'wb3: default reference temperature 273.15 K', 'expect': ('REF.apply', 'References.get_HoRT'),
     'edits': [(F_, "                 T_ref=c.T0('K')):", "                 T_ref=273.15):")]},
    {'name': 'wb3: verbose contributions list the misc models before the references', 'expect': ('REF.apply', 'StatMech'),
     'edits': [(S_, '        quantity = np.concatenate([quantity, refs_quantity, misc_quantity])',
                '        quantity = np.concatenate([quantity, misc_quantity, refs_quantity])')]},
]
# changes that only an exact model of Python/numpy shows (REQ3_C10: np.fromiter(dtype=int) truncates, objects with
# __eq__ and no __hash__ are unhashable, a dictionary must not change size while it is iterated over)
MUTANTS += [
    {'name': 'wb3: a row of the descriptor matrix filled through np.fromiter(..., dtype=int)',
     'expect': ('TYPE.int-buffer', ''),
     'edits': [(F_, '            for j, descriptor_name in enumerate(descriptors):\n'
                '                try:\n'
                '                    descriptors_mat[i, j] = \\\n'
                '                        getattr(reference,\n'
                '                                self.descriptor)[descriptor_name]\n'
                '                except KeyError:\n'
                '                    # If descriptor not in dictionary\n'
                '                    descriptors_mat[i, j] = 0.\n',
                '            composition = getattr(reference, self.descriptor)\n'
                '            descriptors_mat[i] = np.fromiter((composition.get(name, 0) for name in descriptors),\n'
                '                                             dtype=int, count=len(descriptors))\n')]},
    {'name': 'wb3: extend skips species already in the set through set(self.references) (unhashable objects)',
     'expect': ('PATH.refit', 'References.extend'),
     'edits': [(F_, '        self.references.extend(seq)',
                '        present = set(self.references)\n'
                '        self.references.extend(obj for obj in seq if obj not in present)')]},
    {'name': 'wb3: conditions other than T deleted from the references\' arguments while iterating over them',
     'expect': ('REF.apply', 'StatMech'),
     'edits': [(S_, '            ref_kwargs = copy(specie_kwargs)\n',
                '            ref_kwargs = copy(specie_kwargs)\n'
                '            for key in ref_kwargs:\n'
                '                if key != \'T\':\n'
                '                    del ref_kwargs[key]\n')]},
]
MUTANTS += [
    {'name': 'r7: square systems tried with np.linalg.solve, least squares only after LinAlgError',
     'expect': ('REF.solver', 'fit_HoRT_offset'),
     'edits': [(F_, '        offset = np.linalg.lstsq(descriptors_mat, ref_offset, rcond=None)[0]',
                '        try:\n'
                '            if descriptors_mat.shape[0] != descriptors_mat.shape[1]:\n'
                '                raise np.linalg.LinAlgError(\'Descriptors matrix not square.\')\n'
                '            offset = np.linalg.solve(descriptors_mat, ref_offset)\n'
                '        except np.linalg.LinAlgError:\n'
                '            offset = np.linalg.lstsq(descriptors_mat, ref_offset, rcond=None)[0]')]},
]
# armed by the run that finds the interpreter model they need (see arm(), REQ2_C10)
PENDING_MUTANTS = [
    {'name': 'wb2: every species keeps its own copy of the References object', 'needs': 'object-copy',
     'expect': ('REF.apply', 'StatMech.get_HoRT'),
     'edits': [(S_, '        self.references = references', '        self.references = copy(references)')]},
]
EQUIV = [
    {'name': 'wb2: the correction exp - dft is fitted and its negative stored',
     'edits': [(F_, '        ref_offset = HoRT_ref_dft - HoRT_ref_exp', '        ref_offset = HoRT_ref_exp - HoRT_ref_dft'),
               (F_, '        offset = np.linalg.lstsq(descriptors_mat, ref_offset, rcond=None)[0]',
                '        offset = 0. - np.linalg.lstsq(descriptors_mat, ref_offset, rcond=None)[0]')]},
    {'name': 'wb2: offset and T_ref behind trivial properties; lstsq called with keywords',
     'edits': [(F_, '    def __iter__(self):\n        """Iterates over references attribute',
                '    @property\n    def offset(self):\n        return self._offset\n\n'
                '    @offset.setter\n    def offset(self, val):\n        self._offset = val\n\n'
                '    @property\n    def T_ref(self):\n        return self._T_ref\n\n'
                '    @T_ref.setter\n    def T_ref(self, val):\n        self._T_ref = val\n\n'
                '    def __iter__(self):\n        """Iterates over references attribute'),
               (F_, 'np.linalg.lstsq(descriptors_mat, ref_offset, rcond=None)[0]',
                'np.linalg.lstsq(a=descriptors_mat, b=ref_offset, rcond=None)[0]')]},
]
