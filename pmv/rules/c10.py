"""C10 - reference adjustment reproduces the experimental enthalpies it was fitted to."""
from fractions import Fraction as Fr

from ..nf import Rat, C
from ..source import Unsupported, AnchorError
from ..xlate import Interp, Obj, ListV, DictV, Raised
from .common import same, show, opaque_obj, atoms_of

REFS = 'pmutt.empirical.references.References'


OTHER = {'elements': 'groups', 'groups': 'elements'}


def ref_species(I, name, comp, Tref, dname='elements'):
    """a reference species: experimental enthalpy, opaque model, the composition ``comp`` under the descriptor the
    references are described by and an unrelated composition under the other one"""
    D = I.D
    model = opaque_obj(I, name + '.model', {'get_HoRT': ('T',)})
    o = Obj(name, attrs={'name': name, 'T_ref': Tref, 'HoRT_ref': D.sym(name + '.HoRT_exp'), 'model': model,
                         dname: DictV({k: D.sym('%s.n%s' % (name, k)) for k in comp}),
                         OTHER[dname]: DictV({k: D.sym('%s.other%s' % (name, k)) for k in ('X', 'B')})})
    return o


def solver_model(I):
    """np.linalg.lstsq as an uninterpreted solver.  Every call returns fresh symbols (off<call>_<column>), so that the
    solution of an earlier fit cannot pass for the current one.  The model stands for 'the least-squares solution of
    the system it is given' only when no singular value of a well-conditioned system is cut off: rcond absent, None
    or -1 (machine precision) or a tiny number."""
    sols = {'calls': 0}

    def lstsq(I_, fr, args, kwargs, nd):
        if len(args) < 2 or set(kwargs) - {'rcond'}:
            raise Unsupported('np.linalg.lstsq called with %d positional arguments and %s' % (len(args), sorted(kwargs)), nd)
        M, y = args[0], args[1]
        rcond = args[2] if len(args) > 2 else kwargs.get('rcond')
        if len(args) > 3:
            raise Unsupported('np.linalg.lstsq with more than three arguments', nd)
        if rcond is not None:
            if not isinstance(rcond, Rat) or not (rcond.iszero() or rcond.is_const()):
                raise Unsupported('np.linalg.lstsq with a symbolic rcond', nd)
            val = Fr(0) if rcond.iszero() else rcond.const_value()
            if not (val < 0 or val <= Fr(1, 10 ** 10)):
                sols.setdefault('rcond', []).append((val, nd, fr.module if fr is not None else None))
        if not isinstance(M, ListV) or not M.items or not isinstance(M.items[0], ListV):
            raise Unsupported('np.linalg.lstsq: matrix is not a non-empty two-dimensional array', nd)
        sols['calls'] += 1
        ncol = len(M.items[0])
        sol = ListV([I_.D.sym('off%d_%d' % (sols['calls'], j)) for j in range(ncol)])
        sol.is_array = True
        sols['M'], sols['y'], sols['x'] = M, y, sol
        return ListV([sol, C(0), C(0), C(0)])
    I.native['numpy.linalg.lstsq'] = lstsq
    return sols


def refit(run, repo, ci, I, r, species, sols, dname, label, stage):
    owner, fn = repo.find_method(ci, 'fit_HoRT_offset')
    calls = sols['calls']
    for k in ('M', 'y', 'x'):
        sols.pop(k, None)
    res = I.call_method(r, 'fit_HoRT_offset', [], {})
    if isinstance(res, Raised) or sols['calls'] <= calls or 'x' not in sols:
        run.fail('PATH.refit', 'References.fit_HoRT_offset', label + stage,
                 'refitting does not solve the least-squares system again (%s, %d solver calls)'
                 % (show(res), sols['calls'] - calls), owner.module, fn)
        return 0
    return verify_fit(run, repo, ci, I, r, species, sols, dname, label, stage)


def verify_fit(run, repo, ci, I, r, species, sols, dname, label, stage):
    """after a fit of ``r`` to ``species`` (the rule's own list): system handed to the solver, what was stored, and the
    reproduction of every reference"""
    owner, fn = repo.find_method(ci, 'fit_HoRT_offset')
    D = I.D
    M, y, x = sols['M'], sols['y'], sols['x']
    names = sorted({k for sp in species for k in sp.attrs[dname].d})
    n = 0
    for val, nd, mod in sols.pop('rcond', []):
        run.fail('REF.solver', 'References.fit_HoRT_offset', label + stage + ' rcond',
                 'np.linalg.lstsq is told to treat singular values below %s of the largest as zero: a full-rank '
                 'reference set with a smaller ratio (C4H10/C5H12: 0.007) is solved in a subspace and the experimental '
                 'enthalpies are not reproduced' % float(val), mod or owner.module, nd if mod is not None else fn)
    shape_ok = isinstance(M, ListV) and len(M) == len(species) and \
        all(isinstance(row, ListV) and len(row) == len(names) for row in M.items) and \
        isinstance(y, ListV) and len(y) == len(species)
    run.check(shape_ok, 'PATH.refit' if stage else 'DATAFLOW.matrix', 'References.fit_HoRT_offset',
              label + stage + ' shape',
              'the system handed to the solver is %s x %s, expected %d reference species x %d descriptors %s'
              % (len(M) if isinstance(M, ListV) else '?',
                 len(M.items[0]) if isinstance(M, ListV) and M.items and isinstance(M.items[0], ListV) else '?',
                 len(species), len(names), names), owner.module, fn)
    if not shape_ok:
        return n
    Ts = [sp.attrs['T_ref'] for sp in species]
    want_T = Ts[0]
    if not all(same(t, Ts[0]) for t in Ts):
        want_T = C(0)
        for t in Ts:
            want_T = want_T + t
        want_T = want_T / C(len(Ts))
    run.check(same(r.attrs.get('T_ref'), want_T), 'REF.fit', 'References.fit_HoRT_offset', label + stage + ' T_ref',
              'reference temperature after the fit is %s, expected the common (mean) reference temperature of the '
              'species %s' % (show(r.attrs.get('T_ref')), show(want_T)), owner.module, fn)
    off = r.attrs.get('offset')
    ok_off = isinstance(off, DictV) and sorted(off.d) == names and \
        all(same(off.d[k], x.items[j]) for j, k in enumerate(names))
    run.check(ok_off, 'DATAFLOW.offset', 'References.fit_HoRT_offset', label + stage + ' offsets',
              'the offsets stored after the fit are %s; expected one per descriptor %s of the current reference set, '
              'equal to the solution of this solve %s in the column order of the descriptor matrix'
              % (show(off), names, show(x)), owner.module, fn)
    for i, sp in enumerate(species):
        # matrix row = composition of the species over the sorted descriptor names (0 when absent)
        row_ok = all(same(M.items[i].items[j], sp.attrs[dname].d.get(k, C(0))) for j, k in enumerate(names))
        run.check(row_ok, 'DATAFLOW.matrix', 'References.get_descriptors_matrix', label + stage + ' row%d' % i,
                  'row %d of the descriptor matrix is %s, not the composition (%s) of %s over %s'
                  % (i, show(M.items[i]), dname, sp.name, names), owner.module, fn)
        Ti = sp.attrs['T_ref']
        dft = sp.attrs['model'].opaque_methods['get_HoRT'](I, sp.attrs['model'], [], {'T': Ti})
        run.check(same(y.items[i], dft - sp.attrs['HoRT_ref']), 'DATAFLOW.rhs', 'References.fit_HoRT_offset',
                  label + stage + ' rhs%d' % i, 'right-hand side entry is %s, expected H_dft(T_ref) - H_exp'
                  % show(y.items[i]), owner.module, fn)
        n += 2
        if not same(want_T, Ti):
            continue        # differing reference temperatures: reproduction only up to T_mean/T_i (not decided)
        adj = I.call_method(r, 'get_HoRT', [], {'descriptors': sp.attrs[dname], 'T': Ti})
        resid = y.items[i]
        for j in range(len(names)):
            resid = resid - M.items[i].items[j] * x.items[j]
        got = dft + adj - sp.attrs['HoRT_ref'] if isinstance(adj, Rat) else adj
        run.check(same(got, resid), 'ALG.reproduces', 'References.fit_HoRT_offset', label + stage + ' species%d' % i,
                  'adjusted minus experimental enthalpy of reference %d (%s) is %s but the least-squares residual of '
                  'its row is %s: fit and application disagree' % (i, sp.name, show(got, 160), show(resid, 160)),
                  owner.module, fn,
                  sample='H_dft + adjustment - H_exp == (y - M x)[%d]  for %s%s' % (i, label, stage))
        n += 1
    return n


def check(run, repo):
    run.explanation = (
        'References is interpreted abstractly. get_CvoR/CpoR/UoRT/SoR are 0 and GoRT = HoRT - SoR; get_HoRT with '
        'symbolic offsets and composition is -sum offset[d]*n_d * T_ref/T: homogeneous linear in the composition, '
        'T*HoRT free of T, descriptors absent from the references only warn. Through a species (references described '
        'by elements or by groups): HoRT/GoRT are shifted by that amount at the temperature the species itself is '
        'evaluated at (T, or the T of its <name>_kwargs entry), H/G with units by -(sum offset*n)*R*T_ref, S/Cp/Cv '
        '(dimensionless and with units) not at all, and with use_references=False no offset is left in the value. '
        'fit_HoRT_offset is interpreted through its real code (descriptor matrix, reference temperatures, right-hand '
        'side) with np.linalg.lstsq as an uninterpreted solver that returns fresh symbolic offsets on every call and '
        'accepts no truncation threshold (rcond absent/None/-1/<=1e-10); for every reference species i the adjusted '
        'enthalpy at T_ref minus the experimental value is identically the least-squares residual of row i (so a '
        'uniquely determined fit reproduces the experiment, and the residual is the solver\'s), for 2-3 references '
        'over 2-3 descriptors including a descriptor missing from one species, described by elements or by groups '
        '(the species carry an unrelated dictionary under the other name). The same is decided again after every step '
        'of: append a reference with a descriptor new to the set + refit, pop + refit, remove + refit, extend by two '
        '(one with a new descriptor) + refit - against the rule\'s own list of species: shape of the system, one '
        'offset per current descriptor equal to the solution of the last solve, T_ref, rows, right-hand side, '
        'reproduction. Reference temperatures differing by 0.01 K: the fit succeeds, each species is evaluated at '
        'its own T_ref and T_ref becomes the mean.')
    run.assumptions = ['np.linalg.lstsq without a truncation threshold returns the least-squares solution of the '
                       'system it is given (NumPy contract)']
    run.undecided = ['orthogonality of the residual for rank-deficient sets (NumPy contract)',
                     'how closely references with slightly different reference temperatures are reproduced '
                     '(factor T_mean/T_ref,i)']
    ci = repo.cls(REFS)
    for m_ in ('get_HoRT', 'get_GoRT', 'fit_HoRT_offset', 'get_descriptors', 'get_descriptors_matrix'):
        run.fn(REFS + '.' + m_)
    # ---- application ---------------------------------------------------------
    I = Interp(repo)
    D = I.D
    T, Tr = D.sym('T'), D.sym('T_ref')
    oA, oB = D.sym('offA'), D.sym('offB')
    r = Obj('refs', ci, attrs={'offset': DictV({'A': oA, 'B': oB}), 'T_ref': Tr})
    for q in ('get_CvoR', 'get_CpoR', 'get_UoRT', 'get_SoR'):
        owner, fn = repo.find_method(ci, q)
        got = I.call_method(r, q, [], {})
        run.check(same(got, C(0)), 'IDENT.zero', 'References.' + q, 'zero',
                  'the reference adjustment must contribute nothing to %s (got %s)' % (q[4:], show(got)),
                  owner.module, fn)
    nA, nB, nC = D.sym('nA'), D.sym('nB'), D.sym('nC')
    owner, fn = repo.find_method(ci, 'get_HoRT')
    cnt = {'A': nA, 'B': nB, 'C': nC}
    want = -(oA * nA + oB * nB) * Tr / T
    # the descriptor the references do not know (C) is listed last, first and in the middle of the composition: its
    # place must not matter, every known descriptor contributes
    for order in ('ABC', 'CAB', 'ACB'):
        desc = DictV({k: cnt[k] for k in order})
        tag = '' if order == 'ABC' else ' [composition listed as %s]' % ','.join(order)
        nwarn = len(I.warnings)
        H = I.call_method(r, 'get_HoRT', [], {'descriptors': desc, 'T': T})
        run.check(same(H, want), 'REF.apply', 'References.get_HoRT', 'T given' + tag,
                  'adjustment is %s, expected -(sum offset*n) * T_ref/T' % show(H), owner.module, fn,
                  sample='References.get_HoRT({A:nA,B:nB,C:nC}, T) == -(offA*nA+offB*nB)*T_ref/T')
        run.check(len(I.warnings) > nwarn and not isinstance(H, Raised), 'PATH.missing-descriptor',
                  'References.get_HoRT', 'absent descriptor' + tag,
                  'a descriptor absent from the references must produce a warning, not a failure', owner.module, fn)
        if isinstance(H, Rat):
            run.check(D.d(H * T, 'T').iszero(), 'DERIV.T-free', 'References.get_HoRT', 'T*HoRT' + tag,
                      'the adjustment in energy units depends on temperature', owner.module, fn)
            lin = nA * D.d(H, 'nA') + nB * D.d(H, 'nB') + nC * D.d(H, 'nC')
            run.check(same(lin, H), 'DERIV.linear', 'References.get_HoRT', 'composition' + tag,
                      'the adjustment is not homogeneous linear in the composition', owner.module, fn)
    desc = DictV(dict(cnt))
    H0 = I.call_method(r, 'get_HoRT', [], {'descriptors': DictV({'A': nA, 'B': nB})})
    run.check(same(H0, -(oA * nA + oB * nB)), 'REF.apply', 'References.get_HoRT', 'T omitted',
              'without T the adjustment must be the dimensionless offset at T_ref (got %s)' % show(H0), owner.module, fn)
    G = I.call_method(r, 'get_GoRT', [], {'descriptors': desc, 'T': T})
    o2, f2 = repo.find_method(ci, 'get_GoRT')
    run.check(same(G, want), 'TWIN.G=H-S', 'References.get_GoRT', 'twin', 'G adjustment is not H - S (S=0)', o2.module, f2)

    # ---- application through a species: the species hands over the composition the references are described by ---
    sci = repo.cls('pmutt.statmech.StatMech')
    for dname in ('elements', 'groups'):
        I2 = Interp(repo)
        D2 = I2.D
        T2, Tr2 = D2.sym('T'), D2.sym('T_ref')
        comp = {'elements': DictV({'A': D2.sym('nA'), 'B': D2.sym('nB')}),
                'groups': DictV({'CH3': D2.sym('gA'), 'OH': D2.sym('gB')})}
        off = DictV({k: D2.sym('off_' + k) for k in comp[dname].d})
        refs = Obj('refs', ci, attrs={'offset': off, 'T_ref': Tr2, 'descriptor': dname})
        modes = {a_: opaque_obj(I2, a_, {q_: ('T',) for q_ in ('get_HoRT', 'get_GoRT', 'get_SoR', 'get_CpoR',
                                                               'get_CvoR')})
                 for a_ in ('trans_model', 'vib_model', 'rot_model', 'elec_model', 'nucl_model')}
        sp = Obj('sp', sci, attrs=dict(modes, name='sp', elements=comp['elements'], groups=comp['groups'],
                                       references=refs, misc_models=None))
        owner2, fn2 = repo.find_method(sci, 'get_HoRT')
        for q in ('get_HoRT', 'get_GoRT'):
            with_refs = I2.call_method(sp, q, [], {'T': T2})
            without = I2.call_method(sp, q, [], {'T': T2, 'use_references': False})
            want_adj = C(0)
            for k, nk in comp[dname].d.items():
                want_adj = want_adj - off.d[k] * nk * Tr2 / T2
            ok = isinstance(with_refs, Rat) and isinstance(without, Rat) and same(with_refs - without, want_adj)
            run.check(ok, 'REF.apply', 'StatMech.' + q, 'references described by %s' % dname,
                      'a species whose references are described by its %r shifts %s by %s, expected '
                      '-(sum offset*n) * T_ref/T over that composition' % (
                          dname, q[4:], show(with_refs - without, 160) if ok is False and isinstance(with_refs, Rat)
                          and isinstance(without, Rat) else show(with_refs, 120)), owner2.module, fn2,
                      sample='StatMech.%s with References(descriptor=%r): shift = -(sum offset*n)*T_ref/T' % (q, dname))
            # the species is given its own temperature the documented way (<name>_kwargs); an entry for another
            # species is not its business: modes and adjustment are both evaluated at the species' temperature, so the
            # energy added is still -(sum offset*n)*R*T_ref whatever T is
            T3, T4 = D2.sym('T_sp'), D2.sym('T_other')
            kw_ = lambda: {'T': T2, 'sp_kwargs': DictV({'T': T3}), 'other_kwargs': DictV({'T': T4})}
            with_refs = I2.call_method(sp, q, [], kw_())
            without = I2.call_method(sp, q, [], dict(kw_(), use_references=False))
            want_adj = C(0)
            for k, nk in comp[dname].d.items():
                want_adj = want_adj - off.d[k] * nk * Tr2 / T3
            ok = isinstance(with_refs, Rat) and isinstance(without, Rat) and same(with_refs - without, want_adj)
            run.check(ok, 'REF.apply', 'StatMech.' + q, 'references described by %s, species-specific T' % dname,
                      'a species evaluated with T=T and %s_kwargs={T: T_sp} shifts %s by %s, expected '
                      '-(sum offset*n) * T_ref/T_sp (the temperature the species itself is evaluated at)' % (
                          'sp', q[4:], show(with_refs - without, 160) if isinstance(with_refs, Rat)
                          and isinstance(without, Rat) else show(with_refs, 120)), owner2.module, fn2,
                      sample='StatMech.%s(T=T, sp_kwargs={T: T_sp}) with references: shift = -(sum offset*n)*T_ref/T_sp'
                      % q)

            # the same in energy units: the energy added to H and G is -(sum offset*n)*R*T_ref - free of T - and it is
            # gone (no offset left in the value) when the references are switched off
            qu, units = {'get_HoRT': ('get_H', 'J/mol'), 'get_GoRT': ('get_G', 'kcal/mol')}[q]
            Ru = I2.native['pmutt.constants.R'](I2, None, [units + '/K'], {}, None)
            with_refs = I2.call_method(sp, qu, [], {'T': T2, 'units': units})
            without = I2.call_method(sp, qu, [], {'T': T2, 'units': units, 'use_references': False})
            want_E = C(0)
            for k, nk in comp[dname].d.items():
                want_E = want_E - off.d[k] * nk * Tr2 * Ru
            ok = isinstance(with_refs, Rat) and isinstance(without, Rat) and same(with_refs - without, want_E)
            o3, f3 = repo.find_method(sci, qu)
            run.check(ok, 'REF.apply', 'StatMech.' + qu, 'references described by %s' % dname,
                      'a species with references shifts %s(units=%r) by %s, expected -(sum offset*n)*R*T_ref' % (
                          qu[4:], units, show(with_refs - without, 160) if isinstance(with_refs, Rat)
                          and isinstance(without, Rat) else show(with_refs, 120)), o3.module, f3,
                      sample='StatMech.%s(T, units) with references: shift = -(sum offset*n)*R*T_ref' % qu)
            left = [str(a_) for a_ in atoms_of(without) if str(a_).startswith('off_')] if isinstance(without, Rat) \
                else ['?']
            run.check(not left, 'FWD.switch', 'StatMech.' + qu, 'use_references=False, %s' % dname,
                      '%s(use_references=False) still depends on the offsets %s: the adjustment is not switched off'
                      % (qu, left), o3.module, f3)
        # nothing is added to S and the heat capacities, dimensionless or with units
        for q, units in (('get_SoR', None), ('get_CpoR', None), ('get_CvoR', None), ('get_S', 'J/mol/K'),
                         ('get_Cp', 'J/mol/K'), ('get_Cv', 'J/mol/K')):
            kw_ = {'T': T2}
            if units:
                kw_['units'] = units
            with_refs = I2.call_method(sp, q, [], dict(kw_))
            without = I2.call_method(sp, q, [], dict(kw_, use_references=False))
            o3, f3 = repo.find_method(sci, q)
            ok = isinstance(with_refs, Rat) and isinstance(without, Rat) and same(with_refs, without)
            run.check(ok, 'IDENT.zero', 'StatMech.' + q, 'references described by %s' % dname,
                      'references change %s of a species by %s' % (q[4:], show(with_refs - without, 160) if isinstance(
                          with_refs, Rat) and isinstance(without, Rat) else show(with_refs, 120)), o3.module, f3)

    # ---- fitting ---------------------------------------------------------------
    n_fit = 0
    owner, fn = repo.find_method(ci, 'fit_HoRT_offset')
    fit_cases = [(comps, dname, False)
                 for dname in ('elements', 'groups')
                 for comps in ((('A', 'B'), ('A', 'B')), (('A', 'B'), ('B',), ('A', 'B', 'C')), (('A',), ('A', 'B')))]
    # reference temperatures that differ slightly (298.15 K vs 298.16 K): the fit still succeeds
    fit_cases.append(((('A', 'B'), ('B',), ('A', 'B')), 'elements', True))
    for comps, dname, vary_T in fit_cases:
        I = Interp(repo)
        D = I.D
        Tr = D.sym('Tr')
        sols = solver_model(I)
        Trefs = [Tr + C(Fr(1, 100)) if vary_T and i == 1 else Tr for i in range(len(comps))]
        species = [ref_species(I, 'ref%d' % i, comp, Trefs[i], dname) for i, comp in enumerate(comps)]
        r = Obj('refs', ci, closed=True)
        kw_ = {'references': ListV(list(species))}
        if dname != 'elements':
            kw_['descriptor'] = dname
        res = I.call_method(r, '__init__', [], kw_)
        label = 'references:%s' % '|'.join(''.join(c_) for c_ in comps)
        if dname != 'elements':
            label += ' described by %s' % dname
        if vary_T:
            label += ' T_ref differing by 0.01 K'
        if isinstance(res, Raised) or 'x' not in sols:
            run.fail('REF.fit', 'References.fit_HoRT_offset', label, 'constructing References with reference species '
                     'does not fit the offsets (%s)' % show(res), owner.module, fn)
            continue
        # descriptor counts are real numbers (fractional formula units, non-stoichiometric oxides, user descriptors):
        # nothing on the way to the solver may store them in an integer-typed buffer
        hz = list(I.dtype_hazards)
        hm = [m_ for m_ in repo.modules.values() if hz and m_.relpath == hz[0][1]]
        run.check(not hz, 'TYPE.int-buffer', 'References.get_descriptors_matrix', label + ' matrix element type',
                  'descriptor counts are stored into an array created with an integer element type: fractional '
                  'counts are truncated before the least-squares fit', hm[0] if hm else owner.module,
                  hz[0][0] if hz else fn)
        n_fit += verify_fit(run, repo, ci, I, r, species, sols, dname, label, '')
        if vary_T:
            continue
        # A sequence of changes to the reference set, each followed by a refit. The rule keeps its own list of the
        # species that are in the set; after every refit the system handed to the solver, the stored offsets (the
        # solution of THIS solve - the solver model numbers its solutions), T_ref and the reproduction of every
        # reference are decided again against that list.
        now = list(species)
        # ... a reference that brings a descriptor the set did not know (D)
        extra = ref_species(I, 'refX', ('A', 'D'), Tr, dname)
        I.call_method(r, 'append', [], {'obj': extra})
        now.append(extra)
        n_fit += refit(run, repo, ci, I, r, now, sols, dname, label, ' append+refit')
        # ... removing references again (pop of the last takes D away again, remove of the first)
        for how in ('pop', 'remove'):
            if repo.find_method(ci, how, missing_ok=True) is None:
                continue
            if how == 'pop':
                I.call_method(r, 'pop', [], {})
                now.pop()
            else:
                I.call_method(r, 'remove', [], {'obj': now[0]})
                now.pop(0)
            n_fit += refit(run, repo, ci, I, r, now, sols, dname, label, ' %s+refit' % how)
        # ... and adding several references at once (one of them with another new descriptor)
        if repo.find_method(ci, 'extend', missing_ok=True) is not None:
            more = [ref_species(I, 'refY', ('A',), Tr, dname), ref_species(I, 'refZ', ('B', 'A', 'E'), Tr, dname)]
            I.call_method(r, 'extend', [], {'seq': ListV(list(more))})
            now.extend(more)
            n_fit += refit(run, repo, ci, I, r, now, sols, dname, label, ' extend+refit')
    run.floor('fit instances', n_fit, 18)
    run.extra['fit_instances'] = n_fit


F_ = 'pmutt/empirical/references.py'
S_ = 'pmutt/statmech/__init__.py'
MUTANTS = [
    {'name': 'offset added instead of subtracted', 'expect': ('', 'References'),
     'edits': [(F_, '                HoRT -= self.offset[descriptor] * coefficient', '                HoRT += self.offset[descriptor] * coefficient')]},
    {'name': 'fit uses exp - dft', 'expect': ('', 'fit_HoRT_offset'),
     'edits': [(F_, '        ref_offset = HoRT_ref_dft - HoRT_ref_exp', '        ref_offset = HoRT_ref_exp - HoRT_ref_dft')]},
    {'name': 'T scaling inverted', 'expect': ('REF.apply', 'get_HoRT'),
     'edits': [(F_, '            return HoRT * self.T_ref / T', '            return HoRT * T / self.T_ref')]},
    {'name': 'missing descriptor fails', 'expect': ('', 'get_HoRT'),
     'edits': [(F_, '            except KeyError:\n                warn_msg = (\'References does not have offset value for the \'', '            except IndexError:\n                warn_msg = (\'References does not have offset value for the \'')]},
    {'name': 'matrix transposed indices', 'expect': ('', 'References'),
     'edits': [(F_, '                    descriptors_mat[i, j] = getattr(', '                    descriptors_mat[j, i] = getattr(')]},
]
MUTANTS += [
    {'name': 'wb: references evaluated with the raw keyword arguments, not the species\' own', 'expect': ('REF.apply', 'StatMech'),
     'edits': [(S_, '            ref_kwargs = copy(specie_kwargs)', '            ref_kwargs = copy(kwargs)')]},
    {'name': 'wb: descriptor tuple cached and never invalidated', 'expect': ('', 'fit_HoRT_offset'),
     'edits': [(F_, '        self.T_ref = T_ref\n        # If offset not specified but references is specified',
                '        self.T_ref = T_ref\n        self._descriptors = None\n        # If offset not specified but references is specified'),
               (F_, '        unique_descriptors = []\n        for reference in self.references:',
                '        if self._descriptors is not None:\n            return self._descriptors\n'
                '        unique_descriptors = []\n        for reference in self.references:'),
               (F_, '        return tuple(sorted(unique_descriptors))',
                '        self._descriptors = tuple(sorted(unique_descriptors))\n        return self._descriptors')]},
    {'name': 'wb: matrix always read from elements', 'expect': ('DATAFLOW.matrix', 'get_descriptors_matrix'),
     'edits': [(F_, '                        getattr(reference,\n                                self.descriptor)[descriptor_name]',
                '                        reference.elements[descriptor_name]')]},
    {'name': 'wb: lstsq with a truncation threshold', 'expect': ('REF.solver', 'fit_HoRT_offset'),
     'edits': [(F_, 'np.linalg.lstsq(descriptors_mat, ref_offset, rcond=None)[0]',
                'np.linalg.lstsq(descriptors_mat, ref_offset, rcond=1.e-2)[0]')]},
    {'name': 'wb: refit keeps the offsets it already had', 'expect': ('DATAFLOW.offset', 'fit_HoRT_offset'),
     'edits': [(F_, '        self.offset = {\n            descriptor: val\n            for descriptor, val in zip(descriptors, offset)\n        }',
                '        fitted = {\n            descriptor: val\n            for descriptor, val in zip(descriptors, offset)\n        }\n'
                '        self.offset = fitted if self.offset is None else {**fitted, **self.offset}')]},
    {'name': 'wb: differing reference temperatures refused', 'expect': ('', 'fit_HoRT_offset'),
     'edits': [(F_, '            warn(warn_msg)\n        self.T_ref = np.mean(T_refs)',
                '            raise ValueError(warn_msg)\n        self.T_ref = np.mean(T_refs)')]},
    {'name': 'wb: T_ref of the first reference instead of the mean', 'expect': ('REF.fit', 'fit_HoRT_offset'),
     'edits': [(F_, '        self.T_ref = np.mean(T_refs)', '        self.T_ref = T_refs[0]')]},
    {'name': 'wb: get_H does not hand on use_references', 'expect': ('', 'StatMech.get_H'),
     'edits': [(S_, '                             T=T,\n                             use_references=use_references,\n                             **kwargs) * T * R_adj',
                '                             T=T,\n                             **kwargs) * T * R_adj')]},
    {'name': 'wb: references add to the entropy of a species', 'expect': ('IDENT.zero', ''),
     'edits': [(F_, '    def get_SoR(self):\n        return 0.', '    def get_SoR(self):\n        return 1.')]},
]
EQUIV = []
