"""C17 - the coverage-effect function stays continuous piecewise-linear under edits."""
import itertools
from fractions import Fraction as Fr

from ..nf import Rat, C
from ..source import Unsupported, AnchorError
from ..xlate import Interp, Obj, ListV, DictV, Raised, RankOrder
from .common import same, show

COV = 'pmutt.mixture.cov.PiecewiseCovEffect'


class World:
    """one symbolic model instance + the reference list of (breakpoint, slope) pairs kept by the checker"""

    def __init__(self, repo, n_init):
        self.ranks = {}
        self.I = Interp(repo, order=RankOrder(self.ranks, const_ranks=True))
        self.I.order.ranks = self.ranks
        D = self.I.D
        self.ci = repo.cls(COV)
        self.pairs = [(C(0), D.sym('s0'), Fr(0))]
        for k in range(1, n_init):
            self.pairs.append((self.new_bp('b%d' % k, 10 * k), D.sym('s%d' % k), Fr(10 * k)))
        self.obj = Obj('cov', self.ci, closed=True)
        self.counter = 0
        r = self.I.call_method(self.obj, '__init__', [], {
            'name_i': 'A', 'name_j': 'B',
            'intervals': ListV([p[0] for p in self.pairs]), 'slopes': ListV([p[1] for p in self.pairs])})
        self.init_result = r

    def new_bp(self, name, rank):
        self.ranks[name] = Fr(rank)
        return self.I.D.sym(name)

    def insert(self, rank):
        self.counter += 1
        x = self.new_bp('x%d' % self.counter, rank)
        s = self.I.D.sym('k%d' % self.counter)
        r = self.I.call_method(self.obj, 'insert', [], {'interval': x, 'slope': s})
        # reference: sorted insertion, after any equal breakpoint
        pos = len([p for p in self.pairs if p[2] <= rank])
        self.pairs.insert(pos, (x, s, Fr(rank)))
        return r

    def pop(self, i):
        r = self.I.call_method(self.obj, 'pop', [], {'i': C(i)})
        if i != 0 and -len(self.pairs) <= i < len(self.pairs):
            self.pairs.pop(i)
        return r


def invariants(run, w, label, owner_fn):
    I = w.I
    D = I.D
    o = w.obj
    mod, fn = owner_fn
    # only the documented attributes are read; how (and under which name) the intercepts are stored is private -
    # continuity is decided on the values get_UoRT returns
    iv, sl = o.attrs.get('intervals'), o.attrs.get('slopes')
    ok_lists = all(isinstance(v, ListV) for v in (iv, sl)) and len(iv) == len(sl) == len(w.pairs)
    if not run.check(ok_lists, 'PAIR.lengths', 'PiecewiseCovEffect', label,
                     'intervals and slopes must have the same length as the number of breakpoints '
                     '(%d): %s / %s' % (len(w.pairs), show(iv, 60), show(sl, 60)), mod, fn):
        return False
    # ascending order and pairing
    ok_order = all(same(a, p[0]) for a, p in zip(iv.items, w.pairs))
    run.check(ok_order, 'ORDER.ascending', 'PiecewiseCovEffect', label,
              'breakpoints are %s but the ascending order is %s' % (show(iv, 120), show(ListV([p[0] for p in w.pairs]), 120)),
              mod, fn)
    ok_pair = all(same(a, p[1]) for a, p in zip(sl.items, w.pairs))
    run.check(ok_pair, 'PAIR.slopes', 'PiecewiseCovEffect', label,
              'slopes are %s but paired with their breakpoints they must be %s'
              % (show(sl, 120), show(ListV([p[1] for p in w.pairs]), 120)), mod, fn)
    if not (ok_order and ok_pair):
        return False
    # reference intercepts: 0 for the first piece, then the continuity recurrence at every breakpoint
    ic_items = [C(0)]
    for k in range(1, len(w.pairs)):
        xk = w.pairs[k][0]
        ic_items.append(ic_items[k - 1] + (w.pairs[k - 1][1] - w.pairs[k][1]) * xk)
    ic = ListV(ic_items)
    # evaluation on, between and beyond the breakpoints
    T = D.sym('T')
    Rk = D.sym('kb') * D.sym('Na') * D.sym('U<kcal>')
    positions = []
    rk = [p[2] for p in w.pairs]
    for k, r in enumerate(rk):
        positions.append((r, 'on breakpoint %d' % k))
        nxt = rk[k + 1] if k + 1 < len(rk) else r + 10
        if nxt > r:
            positions.append(((r + nxt) / 2, 'inside piece %d' % k))
    positions.append((rk[-1] + 7, 'beyond the last breakpoint'))
    for r, txt in positions:
        w.ranks['xq'] = Fr(r)
        x = D.sym('xq')
        got = I.call_method(o, 'get_UoRT', [], {'x': x, 'T': T})
        k = max(i for i, rr in enumerate(rk) if rr <= r)
        want = (sl.items[k] * x + ic.items[k]) / (Rk * T)
        good = same(got, want)
        if not good and any(rr == r for rr in rk):
            # on a breakpoint the two adjacent pieces agree: either may be used
            k2 = min(i for i, rr in enumerate(rk) if rr == r)
            alt = [(sl.items[j] * x + ic.items[j]) / (Rk * T) for j in range(max(0, k2 - 1), k + 1)]
            good = any(same(got, a) for a in alt)
        # the right slope with another offset: the pieces do not join (continuity); anything else: wrong piece
        offset_only = not good and isinstance(got, Rat) and D.d(got - want, 'xq').iszero()
        run.check(good, 'REF.continuity' if offset_only else 'REF.lookup', 'PiecewiseCovEffect.get_UoRT',
                  label + ' / x ' + txt,
                  'at coverage %s the value is %s, expected piece %d of the continuous piecewise-linear energy that '
                  'starts at 0: %s' % (txt, show(got, 120), k, show(want, 120)), mod, fn)
        # energy is independent of temperature
        run.check(isinstance(got, Rat) and D.d(got * T, 'T').iszero(), 'DERIV.T-free', 'PiecewiseCovEffect.get_UoRT',
                  label + ' / x ' + txt, 'T*U/RT depends on temperature', mod, fn)
    return True


def check(run, repo):
    run.explanation = (
        'PiecewiseCovEffect is interpreted abstractly through its real constructor, insert, pop and '
        'get_UoRT with symbolic breakpoints and slopes whose ordering is supplied by an ordering oracle. After every '
        'sequence of operations (1-3 initial breakpoints; up to 2 (quick) / 3 (thorough) inserts below, between, '
        'equal to and above the existing breakpoints and pops) the lists are compared with the reference sorted pair '
        'list kept by the checker: ascending order, slope pairing, equal lengths, and get_UoRT on, between and '
        'beyond the breakpoints equals slope*x+intercept of the containing piece divided by RT, the intercepts being '
        'the checker\'s own continuity recurrence starting at 0 (only the documented attributes intervals and slopes '
        'are read), independent of T; S, Cv, Cp are 0; to_dict/from_dict rebuilds the same '
        'lists.')
    run.assumptions = ['np.argmax of a boolean array is the index of the first True and 0 when there is none']
    run.undecided = ['numeric evaluation with floating-point breakpoints']
    ci = repo.cls(COV)
    for m_ in ('__init__', 'insert', 'pop', 'get_UoRT', 'to_dict', 'from_dict'):
        run.fn(COV + '.' + m_)
    depth = 3 if run.tier == 'thorough' else 2
    n_seq = 0
    n_enum = 0
    init_owner = (ci.module, ci.methods['__init__'])
    ins_owner = (ci.module, ci.methods['insert'])
    pop_owner = (ci.module, ci.methods['pop'])
    for n_init in (1, 2, 3):
        base_ranks = [10 * k for k in range(n_init)]
        # operation alphabet: insert at characteristic positions, pop indices
        ins_pos = sorted(set([5, 15, 25, 10, 20] if n_init > 1 else [5, 15]))
        ops = [('insert', r) for r in ins_pos] + [('pop', i) for i in (1, 2, 0, -1)]
        failed = set()
        for L in range(0, depth + 1):
            for seq in itertools.product(ops, repeat=L):
                n_enum += 1
                if any(seq[:k] in failed for k in range(len(seq))):
                    continue        # a prefix already violates an invariant: reported there, do not cascade
                w = World(repo, n_init)
                label = 'init:%d ops:%s' % (n_init, ' '.join('%s(%s)' % o for o in seq) or '-')
                if isinstance(w.init_result, Raised):
                    run.fail('REF.construct', 'PiecewiseCovEffect.__init__', label, 'constructor raises %s'
                             % w.init_result.exc, *init_owner)
                    continue
                valid = True
                last_owner = init_owner
                for op, arg in seq:
                    if op == 'insert':
                        r = w.insert(arg)
                        last_owner = ins_owner
                        if isinstance(r, Raised):
                            run.fail('REF.insert', 'PiecewiseCovEffect.insert', label, 'insert raises %s' % r.exc,
                                     *ins_owner)
                            valid = False
                            break
                    else:
                        n_before = len(w.pairs)
                        idx_ok = arg != 0 and -n_before <= arg < n_before and not (arg < 0 and n_before + arg == 0)
                        if arg < 0 and n_before + arg == 0:
                            # the first breakpoint addressed from the end: the documentation refuses index 0 only,
                            # nothing is claimed about this spelling
                            valid = False
                            break
                        r = w.pop(arg)
                        last_owner = pop_owner
                        if not idx_ok:
                            # popping a non-existent index (or the first breakpoint) must be refused and leave the
                            # model untouched
                            if not isinstance(r, Raised):
                                run.fail('REF.pop', 'PiecewiseCovEffect.pop', label,
                                         'pop(%d) on %d breakpoints is accepted' % (arg, n_before), *pop_owner)
                                valid = False
                                break
                            continue        # refused: the sequence goes on with the model as it was
                        if isinstance(r, Raised):
                            run.fail('REF.pop', 'PiecewiseCovEffect.pop', label, 'pop raises %s' % r.exc, *pop_owner)
                            valid = False
                            break
                if not valid:
                    failed.add(seq)
                    continue
                n_seq += 1
                # one finding per operation kind: key on the last operation, not on the whole sequence
                key = 'after %s' % ('%s %s' % (seq[-1][0], _where(seq[-1], w)) if seq else 'construction')
                before = len(run.findings)
                nfail0 = run.obligations - run.discharged
                invariants(run, w, key, last_owner)
                if run.obligations - run.discharged > nfail0:
                    failed.add(seq)
    run.floor('operation sequences enumerated', n_enum, 60)
    run.extra['sequences'] = n_seq
    # entropy and heat capacities vanish
    I = Interp(repo)
    o = Obj('cov', ci)
    for q in ('get_SoR', 'get_CvoR', 'get_CpoR'):
        owner, fn = repo.find_method(ci, q)
        got = I.call_method(o, q, [], {})
        run.check(same(got, C(0)), 'REF.zero', 'PiecewiseCovEffect.' + q, 'zero', 'coverage effects must contribute '
                  'no %s (got %s)' % (q[4:], show(got)), owner.module, fn)
    # with no entropy, every energy form (H, F, G) is the same excess energy as U at the temperature asked for, and
    # is independent of temperature in energy units
    w = World(repo, 2)
    w.ranks['xq'] = Fr(5)
    Dw = w.I.D
    xq, Tq = Dw.sym('xq'), Dw.sym('Tq')
    u = w.I.call_method(w.obj, 'get_UoRT', [], {'x': xq, 'T': Tq})
    for q in ('get_HoRT', 'get_FoRT', 'get_GoRT'):
        if repo.find_method(ci, q, missing_ok=True) is None:
            continue
        owner, fn = repo.find_method(ci, q)
        run.fn(owner.qual + '.' + q)
        got = w.I.call_method(w.obj, q, [], {'x': xq, 'T': Tq})
        run.check(isinstance(got, Rat) and isinstance(u, Rat) and same(got, u), 'TWIN.energy-forms',
                  'PiecewiseCovEffect.' + q, 'same excess energy as U',
                  '%s(x, T) is %s but the excess energy U/RT at the same coverage and temperature is %s'
                  % (q, show(got, 120), show(u, 120)), owner.module, fn)
        run.check(isinstance(got, Rat) and Dw.d(got * Tq, 'Tq').iszero(), 'DERIV.T-free', 'PiecewiseCovEffect.' + q,
                  'temperature independent', 'T * %s depends on temperature: the excess energy in energy units must '
                  'not' % q[4:], owner.module, fn)
    # serialise / reload
    w = World(repo, 3)
    w.insert(15)
    d = w.I.call_method(w.obj, 'to_dict', [], {})
    owner, fn = repo.find_method(ci, 'from_dict')
    if isinstance(d, DictV):
        snap = dict(d.d)
        o2 = w.I.call_function(owner.module, fn, [], {'json_obj': DictV(dict(d.d))}, self_obj=ci, owner=owner)
        ok = isinstance(o2, Obj) and all(same(o2.attrs.get(k), w.obj.attrs.get(k))
                                         for k in ('intervals', 'slopes', 'name_i', 'name_j'))
        if ok:
            # and it evaluates like the original (whatever private state the reload has to rebuild)
            w.ranks['xq'] = Fr(17)
            xq2, Tq2 = w.I.D.sym('xq'), w.I.D.sym('Tq')
            ok = same(w.I.call_method(o2, 'get_UoRT', [], {'x': xq2, 'T': Tq2}),
                      w.I.call_method(w.obj, 'get_UoRT', [], {'x': xq2, 'T': Tq2}))
        run.check(ok, 'TABLE.roundtrip', 'PiecewiseCovEffect.from_dict', 'to_dict->from_dict',
                  'reloading the serialised model does not rebuild the same breakpoints/slopes/intercepts (%s)'
                  % show(o2), owner.module, fn)
        if ok:
            # the reloaded copy, the dictionary and the original are independent: editing one leaves the others as
            # they were (a dictionary that shares its lists with the model is not a saved state)
            xq2, Tq2 = w.I.D.sym('xq'), w.I.D.sym('Tq')
            before = w.I.call_method(w.obj, 'get_UoRT', [], {'x': xq2, 'T': Tq2})
            n_before = len(w.obj.attrs['intervals'].items)
            w.ranks['xnew'] = Fr(12)
            w.I.call_method(o2, 'insert', [], {'interval': w.I.D.sym('xnew'), 'slope': w.I.D.sym('knew')})
            after = w.I.call_method(w.obj, 'get_UoRT', [], {'x': xq2, 'T': Tq2})
            o_t, f_t = repo.find_method(ci, 'to_dict')
            run.check(same(before, after) and len(w.obj.attrs['intervals'].items) == n_before, 'EFFECT.shared-state',
                      'PiecewiseCovEffect.to_dict', 'edit the reloaded copy',
                      'inserting a breakpoint into the copy rebuilt by from_dict(to_dict()) changes the original '
                      '(value at the same coverage %s -> %s, %d -> %d breakpoints): the dictionary carries the '
                      'model\'s own lists instead of copies' % (show(before, 80), show(after, 80), n_before,
                                                               len(w.obj.attrs['intervals'].items)), o_t.module, f_t)
            d2 = w.I.call_method(w.obj, 'to_dict', [], {})
            saved = [len(v.items) for v in d2.d.values() if isinstance(v, ListV)] if isinstance(d2, DictV) else []
            w.I.call_method(w.obj, 'insert', [], {'interval': w.I.D.sym('xnew2'), 'slope': w.I.D.sym('knew2')}) \
                if w.ranks.setdefault('xnew2', Fr(7)) else None
            now = [len(v.items) for v in d2.d.values() if isinstance(v, ListV)] if isinstance(d2, DictV) else []
            run.check(saved == now, 'EFFECT.shared-state', 'PiecewiseCovEffect.to_dict', 'edit after saving',
                      'a dictionary taken with to_dict() changes when the model is edited afterwards (list lengths %s '
                      '-> %s)' % (saved, now), o_t.module, f_t)
    else:
        run.fail('TABLE.roundtrip', 'PiecewiseCovEffect.to_dict', 'to_dict', 'to_dict does not return a dict',
                 owner.module, fn)


def _where(op, w):
    if op[0] == 'pop':
        return 'of an interior/last breakpoint'
    r = op[1]
    ranks = [p[2] for p in w.pairs]
    if ranks.count(r) > 1:
        return 'equal to a breakpoint'
    if r == max(ranks):
        return 'above all breakpoints'
    return 'between breakpoints'


C_ = 'pmutt/mixture/cov.py'
MUTANTS = [
    {'name': 'the first breakpoint can be removed', 'expect': ('REF.pop', 'pop'),
     'edits': [('pmutt/mixture/cov.py', "        if i == 0:\n            err_msg = 'First index cannot be removed'", "        if i is None:\n            err_msg = 'First index cannot be removed'")]},
    {'name': 'pop forgets to recompute intercepts', 'expect': ('', ''),
     'edits': [(C_, '        self.slopes.pop(i)\n        self._set_intercepts()', '        self.slopes.pop(i)')]},
    {'name': 'insert puts slope one position later', 'expect': ('PAIR.slopes', ''),
     'edits': [(C_, '        self.slopes.insert(i, slope)', '        self.slopes.insert(i + 1, slope)')]},
    {'name': 'intercept recurrence uses current slope', 'expect': ('REF.continuity', ''),
     'edits': [(C_, '                prev_slope = self.slopes[i - 1]', '                prev_slope = self.slopes[i]')]},
    {'name': 'lookup without the -1', 'expect': ('REF.lookup', ''),
     'edits': [(C_, 'i = np.argmax(x < np.array(self.intervals)) - 1', 'i = np.argmax(x < np.array(self.intervals))')]},
    {'name': 'lookup uses <=', 'expect': ('REF.lookup', ''),
     'edits': [(C_, 'i = np.argmax(x < np.array(self.intervals)) - 1', 'i = np.argmax(x <= np.array(self.intervals)) - 1')]},
]
EQUIV = []
