"""C17 - the coverage-effect function stays continuous piecewise-linear under edits."""
import itertools
from fractions import Fraction as Fr

from ..nf import Rat, C
from ..source import Unsupported, AnchorError, params
from ..xlate import Interp, Obj, ListV, DictV, Raised, RankOrder, _RaisedExc
from .common import same, show
from .rxnfix import get_public

COV = 'pmutt.mixture.cov.PiecewiseCovEffect'
# positions of breakpoints and coverages are written as integer codes 0, 5, 10, ... (also in labels and keys); the
# ordering oracle is told code/SCALE, so that every breakpoint and coverage of an instance lies in [0, 1] (the domain
# of the property) on the right side of the constants 0 and 1 the code under analysis may compare with
SCALE = 40


def _rank(code):
    return Fr(code) / SCALE


def _subst(v, atom, by):
    """``v`` with the symbol ``atom`` replaced by ``by`` (None when it does not occur linearly in the numerator)"""
    if not isinstance(v, Rat):
        return None
    if atom not in v.atoms():
        return v
    sp = v.split_linear(atom)
    if sp is None:
        return None
    return sp[0] * by + sp[1]


def _cov(w, code):
    """(symbol name, symbol) of the coverage at position ``code``: one symbol per position, whose rank is fixed when
    it is created - the same coverage asked twice is the same number, two coverages are two numbers (the code under
    analysis may remember what it computed per coverage)"""
    code = Fr(code)
    name = 'xq%d' % code if code.denominator == 1 else 'xq%d_%d' % (code.numerator, code.denominator)
    w.ranks.setdefault(name, _rank(code))
    return name, w.I.D.sym(name)


# coverages every model is evaluated at before an edit and again after it (next to the positions the edit touches):
# between the breakpoints of the initial models, and above every breakpoint a sequence inserts below coverage 1
PROBES = (12, 39)


def _attr(I, o, name):
    """the documented attribute ``name`` of a model as a user reads it: the stored value, or the value of the class's
    property of that name; None when the model has neither"""
    if not isinstance(o, Obj) or o.ci is None:
        return None
    try:
        return get_public(I, o, name)       # Python's lookup order: property, instance attribute, class attribute
    except _RaisedExc:
        return None                         # AttributeError


def _kind(v):
    """which Python container the interpreter's sequence value stands for"""
    if not isinstance(v, ListV):
        return type(v).__name__
    for flag, txt in (('is_tuple', 'tuple'), ('is_array', 'numpy array'), ('is_set', 'set'),
                      ('is_iterator', 'one-shot iterator'), ('is_generator', 'generator')):
        if getattr(v, flag, False):
            return txt
    return 'list'


def _method(repo, ci, name):
    """(module, function node) of the method wherever the class or one of its bases defines it"""
    owner, fn = repo.find_method(ci, name)
    return owner.module, fn


class World:
    """one symbolic model instance + the reference list of (breakpoint, slope, position code) kept by the checker"""

    def __init__(self, repo, n_init, positional=False):
        self.ranks = {}
        self.I = Interp(repo, order=RankOrder(self.ranks, const_ranks=True))
        self.I.order.ranks = self.ranks
        D = self.I.D
        self.ci = repo.cls(COV)
        self.pairs = [(C(0), D.sym('s0'), Fr(0))]
        for k in range(1, n_init):
            self.pairs.append((self.new_bp('b%d' % k, 10 * k), D.sym('s%d' % k), Fr(10 * k)))
        self.counter = 0
        self.probed = []
        # the model is built the way a user builds it: ClassName(...) - whichever __init__ Python would run (the
        # class's own, an inherited one, the one a dataclass generates)
        iv, sl = ListV([p[0] for p in self.pairs]), ListV([p[1] for p in self.pairs])
        if positional:
            # the documented order: name_i, name_j, intervals, slopes
            r = self.I.construct(self.ci, ['A', 'B', iv, sl], {})
        else:
            r = self.I.construct(self.ci, [], {'name_i': 'A', 'name_j': 'B', 'intervals': iv, 'slopes': sl})
        self.obj = r if isinstance(r, Obj) else None
        self.init_result = r if isinstance(r, Raised) else None

    def new_bp(self, name, rank):
        self.ranks[name] = _rank(rank)
        return self.I.D.sym(name)

    def insert(self, rank):
        self.counter += 1
        # an insertion equal to the first breakpoint is the number 0 itself (the first breakpoint of every model)
        x = self.new_bp('x%d' % self.counter, rank) if rank != 0 else C(0)
        s = self.I.D.sym('k%d' % self.counter)
        # (the documented call m.insert(interval, slope), by position and by name in turn)
        if self.counter % 2:
            r = self.I.call_method(self.obj, 'insert', [x, s], {})
        else:
            r = self.I.call_method(self.obj, 'insert', [], {'interval': x, 'slope': s})
        # reference: sorted insertion, after any equal breakpoint
        pos = len([p for p in self.pairs if p[2] <= rank])
        self.pairs.insert(pos, (x, s, Fr(rank)))
        return r

    def probe(self, also=()):
        """the coverage sweep of a user between two edits: the value is decided elsewhere, what matters is what the
        evaluation leaves behind.  The coverages are evaluated again after the edits (``invariants``)."""
        D = self.I.D
        r = None
        for code in PROBES + tuple(also):
            if code not in self.probed:
                self.probed.append(Fr(code))
            if code == PROBES[0]:
                r = self.I.call_method(self.obj, 'get_UoRT', [_cov(self, code)[1], D.sym('T')], {})
            else:
                r = self.I.call_method(self.obj, 'get_UoRT', [], {'x': _cov(self, code)[1], 'T': D.sym('T')})
        return r

    def pop(self, i):
        self.n_pop = getattr(self, 'n_pop', 0) + 1
        if self.n_pop % 2:
            r = self.I.call_method(self.obj, 'pop', [C(i)], {})
        else:
            r = self.I.call_method(self.obj, 'pop', [], {'i': C(i)})
        if i != 0 and -len(self.pairs) <= i < len(self.pairs):
            self.pairs.pop(i)
        return r


class View:
    """another model living in the interpreter of a World, with its own reference pair list"""

    def __init__(self, w, obj, pairs, probed=()):
        self.I, self.ranks, self.ci, self.obj, self.pairs = w.I, w.ranks, w.ci, obj, list(pairs)
        # coverages this model, or a model next to it, has been evaluated at before
        self.probed = [Fr(c_) for c_ in probed]


def two_models(run, repo, ci):
    """several models alive at the same time, built with as few arguments as the constructor asks for: editing one
    leaves the others, and models built later, as they were"""
    owner, fn = repo.find_method(ci, '__init__')
    _names, defaults, _va, _kw = params(fn)
    w = World(repo, 1)                  # supplies the interpreter and the ordering oracle
    I, D = w.I, w.I.D

    def build(tag):
        kw = {'name_i': 'A' + tag, 'name_j': 'B' + tag}
        if 'intervals' not in defaults:
            kw['intervals'] = ListV([C(0)])
        if 'slopes' not in defaults:
            kw['slopes'] = ListV([D.sym('s0' + tag)])
        return I.construct(ci, [], kw)

    def lists(o):
        got = [_attr(I, o, 'intervals'), _attr(I, o, 'slopes')]
        return [list(v.items) if isinstance(v, ListV) else None for v in got]

    def value(o, rank):
        return I.call_method(o, 'get_UoRT', [], {'x': _cov(w, rank)[1], 'T': D.sym('T')})

    a, b = build('a'), build('b')
    key0 = 'lists omitted' if ('intervals' in defaults or 'slopes' in defaults) else 'lists given'
    if isinstance(a, Raised) or isinstance(b, Raised) or None in lists(a) or None in lists(b):
        run.fail('REF.construct', 'PiecewiseCovEffect.__init__', 'two models, ' + key0,
                 'constructor gives %s / %s' % (show(a, 60), show(b, 60)), owner.module, fn)
        return
    snap = lists(b)
    before = [value(b, r) for r in (3, 7)]
    # reference for the model that is edited: what it lists after construction, plus the inserted pair
    rk = [I.order.rank(x) if isinstance(x, Rat) else None for x in lists(a)[0]]
    rk = [x * SCALE if x is not None else None for x in rk]         # position codes
    pairs_a = list(zip(lists(a)[0], lists(a)[1], rk))
    w.ranks['xa'] = _rank(5)
    xa, ka = D.sym('xa'), D.sym('ka')
    r = I.call_method(a, 'insert', [], {'interval': xa, 'slope': ka})
    if isinstance(r, Raised):
        return                          # reported by the sequences
    after = [value(b, r) for r in (3, 7)]

    def same_lists(l1, l2):
        return all(len(u) == len(v) and all(same(p, q) for p, q in zip(u, v)) for u, v in zip(l1, l2))

    run.check(same_lists(lists(b), snap) and all(same(p, q) for p, q in zip(before, after)), 'EFFECT.shared-state',
              'PiecewiseCovEffect.__init__', 'edit another model, ' + key0,
              'inserting a breakpoint into one model changes another model that was built independently of it '
              '(breakpoints %s -> %s, value below/above the new breakpoint %s -> %s)'
              % (show(ListV(snap[0]), 60), show(ListV(lists(b)[0]), 60), show(ListV(before), 100),
                 show(ListV(after), 100)), owner.module, fn)
    if all(x is not None for x in rk) and rk == sorted(rk) and rk and rk[0] == 0 and Fr(5) not in rk:
        pos = len([x for x in rk if x <= 5])
        pairs_a.insert(pos, (xa, ka, Fr(5)))
        # (3 and 7: where the OTHER model was evaluated last - what one model computed for a coverage is not what
        # another model has there)
        invariants(run, View(w, a, pairs_a, probed=(3, 7)), 'edited model next to another, ' + key0,
                   _method(repo, ci, 'insert'))
    c_ = build('b')
    run.check(not isinstance(c_, Raised) and None not in lists(c_) and same_lists(lists(c_), snap),
              'EFFECT.shared-state', 'PiecewiseCovEffect.__init__', 'build after an edit, ' + key0,
              'a model built after another model was edited starts as %s / %s, the same construction before the edit '
              'gave %s / %s' % (tuple(show(ListV(v), 60) if v is not None else '?' for v in lists(c_))
                                + tuple(show(ListV(v), 60) for v in snap)), owner.module, fn)


def invariants(run, w, label, owner_fn, on_breakpoints=True):
    I = w.I
    D = I.D
    o = w.obj
    mod, fn = owner_fn
    # only the documented attributes are read; how (and under which name) the intercepts are stored is private -
    # continuity is decided on the values get_UoRT returns
    iv, sl = _attr(I, o, 'intervals'), _attr(I, o, 'slopes')
    ok_lists = all(isinstance(v, ListV) for v in (iv, sl)) and len(iv) == len(sl) == len(w.pairs)
    if not run.check(ok_lists, 'PAIR.lengths', 'PiecewiseCovEffect', label,
                     'intervals and slopes must have the same length as the number of breakpoints '
                     '(%d): %s / %s' % (len(w.pairs), show(iv, 60), show(sl, 60)), mod, fn):
        return False
    # the constructor was given two lists, and lists are what the class documents and edits (list.insert / list.pop,
    # also in the hands of the user): an edit must not leave another kind of sequence behind
    kinds = (_kind(iv), _kind(sl))
    run.check(kinds == ('list', 'list'), 'TYPE.container', 'PiecewiseCovEffect', label,
              'the model was built from two lists; now intervals is a %s and slopes a %s (the documented attributes are '
              'lists: a later insert / pop / append on them is not available or does something else)' % kinds, mod, fn,
              sig='intervals:%s slopes:%s' % kinds)
    # ascending order and pairing
    ok_order = all(same(a, p[0]) for a, p in zip(iv.items, w.pairs))
    run.check(ok_order, 'ORDER.ascending', 'PiecewiseCovEffect', label,
              'breakpoints are %s but the ascending order is %s' % (show(iv, 120), show(ListV([p[0] for p in w.pairs]), 120)),
              mod, fn)
    ok_pair = all(same(a, p[1]) for a, p in zip(sl.items, w.pairs))
    run.check(ok_pair, 'PAIR.slopes', 'PiecewiseCovEffect', label,
              'slopes are %s but paired with their breakpoints they must be %s'
              % (show(sl, 120), show(ListV([p[1] for p in w.pairs]), 120)), mod, fn)
    if not (ok_order and ok_pair):
        return False
    # reference intercepts: 0 for the first piece, then the continuity recurrence at every breakpoint
    ic_items = [C(0)]
    for k in range(1, len(w.pairs)):
        xk = w.pairs[k][0]
        ic_items.append(ic_items[k - 1] + (w.pairs[k - 1][1] - w.pairs[k][1]) * xk)
    ic = ListV(ic_items)
    # evaluation on, between and beyond the breakpoints
    T = D.sym('T')
    Rk = D.sym('kb') * D.sym('Na') * D.sym('U<kcal>')
    positions = []
    rk = [p[2] for p in w.pairs]
    for k, r in enumerate(rk):
        if on_breakpoints:
            positions.append((r, 'on breakpoint %d' % k))
        nxt = rk[k + 1] if k + 1 < len(rk) else r + 10
        if nxt > r:
            positions.append(((r + nxt) / 2, 'inside piece %d' % k))
    positions.append((rk[-1] + 7, 'beyond the last breakpoint'))
    # ... and where the model was evaluated before it was edited (a coverage asked for a second time)
    for r in w.probed:
        if r not in [p[0] for p in positions]:
            positions.append((r, 'evaluated before the edit: on a breakpoint' if r in rk else
                              'evaluated before the edit: beyond the last breakpoint' if r > rk[-1] else
                              'evaluated before the edit: inside piece %d' % max(i for i, rr in enumerate(rk) if rr <= r)))
    for r, txt in positions:
        xname, x = _cov(w, r)
        got = I.call_method(o, 'get_UoRT', [], {'x': x, 'T': T})
        k = max(i for i, rr in enumerate(rk) if rr <= r)
        want = (sl.items[k] * x + ic.items[k]) / (Rk * T)
        good = same(got, want)
        if not good and any(rr == r for rr in rk):
            # on a breakpoint the two adjacent pieces agree: either may be used
            k2 = min(i for i, rr in enumerate(rk) if rr == r)
            alt = [(sl.items[j] * x + ic.items[j]) / (Rk * T) for j in range(max(0, k2 - 1), k + 1)]
            good = any(same(got, a) for a in alt)
            if not good:
                # ... and the coverage IS the breakpoint (the oracle answers xq == breakpoint with True, so the code
                # may use either): the values are compared with the breakpoint written for the coverage - the
                # number 0 for the first one
                for j in range(k2, k + 1):
                    g_, w_ = _subst(got, xname, w.pairs[j][0]), _subst(want, xname, w.pairs[j][0])
                    if g_ is not None and w_ is not None and same(g_, w_):
                        good = True
                        break
        # the right slope with another offset: the pieces do not join (continuity); anything else: wrong piece
        offset_only = not good and isinstance(got, Rat) and D.d(got - want, xname).iszero()
        run.check(good, 'REF.continuity' if offset_only else 'REF.lookup', 'PiecewiseCovEffect.get_UoRT',
                  label + ' / x ' + txt,
                  'at coverage %s the value is %s, expected piece %d of the continuous piecewise-linear energy that '
                  'starts at 0: %s' % (txt, show(got, 120), k, show(want, 120)), mod, fn)
        # energy is independent of temperature
        run.check(isinstance(got, Rat) and D.d(got * T, 'T').iszero(), 'DERIV.T-free', 'PiecewiseCovEffect.get_UoRT',
                  label + ' / x ' + txt, 'T*U/RT depends on temperature', mod, fn)
    return True


def reloaded(run, w, key):
    """to_dict -> from_dict of the model as it stands: the copy lists the reference breakpoints and slopes and
    evaluates to the reference function beyond the last breakpoint (where every intercept has been used)"""
    I, D, ci = w.I, w.I.D, w.ci
    owner, fn = w.I.repo.find_method(ci, 'from_dict')
    d = I.call_method(w.obj, 'to_dict', [], {})
    if not isinstance(d, DictV):
        run.fail('TABLE.roundtrip', 'PiecewiseCovEffect.to_dict', 'reload ' + key, 'to_dict does not return a '
                 'dictionary (%s)' % show(d, 80), owner.module, fn)
        return
    o2 = I.call_function(owner.module, fn, [], {'json_obj': DictV(dict(d.d))}, self_obj=ci, owner=owner)
    why = None
    if not isinstance(o2, Obj):
        why = 'from_dict gives %s' % show(o2, 80)
    else:
        iv, sl = _attr(I, o2, 'intervals'), _attr(I, o2, 'slopes')
        want_iv, want_sl = [p[0] for p in w.pairs], [p[1] for p in w.pairs]
        for nm, v, want in (('intervals', iv, want_iv), ('slopes', sl, want_sl)):
            if not (isinstance(v, ListV) and len(v.items) == len(want) and all(same(a, b) for a, b in
                                                                              zip(v.items, want))):
                why = 'the reloaded %s are %s, the model had %s' % (nm, show(v, 100), show(ListV(want), 100))
                break
    if why is None:
        ic = C(0)
        for k in range(1, len(w.pairs)):
            ic = ic + (w.pairs[k - 1][1] - w.pairs[k][1]) * w.pairs[k][0]
        x, T = _cov(w, w.pairs[-1][2] + 7)[1], D.sym('T')
        got = I.call_method(o2, 'get_UoRT', [], {'x': x, 'T': T})
        want = (w.pairs[-1][1] * x + ic) / (D.sym('kb') * D.sym('Na') * D.sym('U<kcal>') * T)
        if not same(got, want):
            why = 'beyond the last breakpoint the reloaded model gives %s, the continuous piecewise-linear energy ' \
                  'of the listed pieces is %s' % (show(got, 100), show(want, 100))
    run.check(why is None, 'TABLE.roundtrip', 'PiecewiseCovEffect.from_dict', 'reload ' + key,
              'serialising and reloading changes the model: %s' % why, owner.module, fn)


def edges(run, repo, ins_owner, pop_owner):
    """indices and positions the operation alphabet of the sequences does not contain: removal by every index a
    model of 2-5 breakpoints has (counted from either end) and by indices it does not have, and an insertion at
    coverage 1, the upper end of the domain"""
    thorough = run.tier == 'thorough'
    for n_init, n_ins in ((1, 0), (2, 0), (3, 0), (3, 1), (3, 2)) if thorough else ((2, 0), (3, 1)):
        n = n_init + n_ins
        for i in sorted(set(range(-n - 2, n + 3)) | {7, -7}) if thorough else (-n - 1, -n + 1, -2, n - 1, n, n + 1, 7):
            if i == 0 or i == -n:
                continue                # the first breakpoint: decided by the sequences / nothing is claimed
            if i in (1, 2, -1) and (n_ins == 0 or not thorough):
                continue                # in the alphabet of the sequences
            w = World(repo, n_init)
            if isinstance(w.init_result, Raised):
                return                  # reported by the sequences
            if any(isinstance(w.insert(r), Raised) for r in (5, 15)[:n_ins]):
                return
            w.probe()
            lists0 = [list(v.items) if isinstance(v, ListV) else None
                      for v in (_attr(w.I, w.obj, 'intervals'), _attr(w.I, w.obj, 'slopes'))]
            r = w.pop(i)
            label = 'pop(%d) on %d breakpoints' % (i, n)
            if -n < i < n:
                if isinstance(r, Raised):
                    run.fail('REF.pop', 'PiecewiseCovEffect.pop', label, 'pop raises %s' % r.exc, *pop_owner)
                    continue
                invariants(run, w, 'after pop of an interior/last breakpoint', pop_owner)
                continue
            # an index the model does not have: refused, and the model is what it was
            lists1 = [list(v.items) if isinstance(v, ListV) else None
                      for v in (_attr(w.I, w.obj, 'intervals'), _attr(w.I, w.obj, 'slopes'))]
            if not run.check(isinstance(r, Raised) and lists0 == lists1, 'REF.pop', 'PiecewiseCovEffect.pop',
                             'index out of range',
                             'pop(%d) on %d breakpoints is accepted or changes the model: breakpoints %s -> %s, '
                             'slopes %s -> %s (result %s)'
                             % (i, n, show(ListV(lists0[0] or []), 60), show(ListV(lists1[0] or []), 60),
                                show(ListV(lists0[1] or []), 60), show(ListV(lists1[1] or []), 60), show(r, 40)),
                             *pop_owner):
                continue
            invariants(run, w, 'after a refused pop', pop_owner, on_breakpoints=False)
    for n_init in (1, 2, 3) if thorough else (2,):
        w = World(repo, n_init)
        if isinstance(w.init_result, Raised):
            return
        w.probe(also=(SCALE,))
        r = w.insert(SCALE)
        if isinstance(r, Raised):
            run.fail('REF.insert', 'PiecewiseCovEffect.insert', 'insert at coverage 1', 'insert of a breakpoint at '
                     'coverage 1 into %d breakpoints raises %s' % (n_init, r.exc), *ins_owner)
            continue
        invariants(run, w, 'after insert at coverage 1', ins_owner)
        reloaded(run, w, 'after insert at coverage 1')


def check(run, repo):
    run.explanation = (
        'PiecewiseCovEffect is interpreted abstractly: built the way a user builds it (ClassName(...) with keyword and '
        'with positional arguments - whichever __init__ Python runs), edited through insert and pop and evaluated through '
        'get_UoRT (called by position and by name in turn) with symbolic breakpoints and slopes whose ordering is supplied by an ordering oracle (all breakpoints '
        'and coverages lie in [0, 1]: position code/40). After every '
        'sequence of operations (1-3 initial breakpoints; up to 2 (quick) / 3 (thorough) inserts equal to the first '
        'breakpoint (the number 0), below, between, '
        'equal to and above the existing breakpoints and pops) the lists are compared with the reference sorted pair '
        'list kept by the checker: ascending order, slope pairing, equal lengths, and get_UoRT on, between and '
        'beyond the breakpoints equals slope*x+intercept of the containing piece divided by RT, the intercepts being '
        'the checker\'s own continuity recurrence starting at 0 (only the documented attributes intervals and slopes '
        'are read), independent of T (on a breakpoint either adjacent piece, or any expression with the same value '
        'when the breakpoint is written for the coverage); S, Cv, Cp are 0; to_dict/from_dict rebuilds the same '
        'lists. Every sequence is run twice: with an evaluation before every edit, and with an evaluation before '
        'the first edit only (nothing an evaluation leaves behind may survive one edit or several edits in a row; H, F, '
        'G and the reloaded copy likewise: evaluated, edited, evaluated); the model reached by '
        'every sequence of up to 2 operations (breakpoints repeated by an insert onto a breakpoint included) is '
        'serialised and reloaded and must list the reference pairs and evaluate to the reference beyond the last '
        'breakpoint; removal by every index a model of 2-5 breakpoints has, counted from either end, and by indices '
        'it does not have (refused, model untouched); an insert at coverage 1; two models are alive in one '
        'interpreter, built with the list arguments omitted when the '
        'constructor has defaults for them: editing one leaves the other and a model built afterwards as they were. '
        'Every coverage is a symbol of its own whose position is fixed (the same coverage asked twice is the same '
        'number): before an edit the model is evaluated between the initial breakpoints, above all breakpoints and on '
        'the coverage the edit touches, and after the edits again at those coverages; an edited model is also '
        'evaluated where the model next to it (and the original of a reloaded copy) was evaluated last. After every edit '
        'intervals and slopes are still lists (not tuples / numpy arrays). get_UoRT with the documented defaults '
        '(coverage 0, 298.15 K).')
    run.assumptions = ['np.argmax of a boolean array is the index of the first True and 0 when there is none']
    run.undecided = ['numeric evaluation with floating-point breakpoints']
    ci = repo.cls(COV)
    for m_ in ('__init__', 'insert', 'pop', 'get_UoRT', 'to_dict', 'from_dict'):
        run.fn(COV + '.' + m_)
    depth = 3 if run.tier == 'thorough' else 2
    n_seq = 0
    n_enum = 0
    # the methods may live in a base class (a mix-in): they are looked up the way Python does
    init_owner = _method(repo, ci, '__init__')
    ins_owner = _method(repo, ci, 'insert')
    pop_owner = _method(repo, ci, 'pop')
    for n_init in (1, 2, 3):
        # operation alphabet: insert at characteristic positions (0 = equal to the first breakpoint), pop indices
        # (above two breakpoints, the third position is a new case only for a third insert)
        ins_pos = [0, 5, 15] if n_init == 1 else [0, 5, 10, 15, 20] if n_init == 2 and depth < 3 else \
            [0, 5, 10, 15, 20, 25]
        ops = [('insert', r) for r in ins_pos] + [('pop', i) for i in (1, 2, 0, -1)]
        failed = set()
        # every sequence is run twice: evaluated before EVERY edit, and evaluated before the FIRST edit only (two
        # or more edits with no evaluation in between: whatever an evaluation leaves behind must not survive them
        # either - e.g. an insert and a pop leave the number of breakpoints as it was)
        plans = [(L, seq, pattern) for L in range(0, depth + 1) for seq in itertools.product(ops, repeat=L)
                 for pattern in (('every', 'first') if L >= 2 else ('every',))]
        for L, seq, pattern in plans:
            n_enum += 1
            if any(seq[:k] in failed for k in range(len(seq) + 1)):
                continue        # a prefix already violates an invariant: reported there, do not cascade
            if pattern == 'first' and run.tier != 'thorough' and not _all_edit(seq, n_init):
                continue        # quick tier: only sequences in which every operation changes the model
            w = World(repo, n_init)
            label = 'init:%d ops:%s%s' % (n_init, ' '.join('%s(%s)' % o for o in seq) or '-',
                                          ' (evaluated before the first edit only)' if pattern == 'first' else '')
            if isinstance(w.init_result, Raised):
                run.fail('REF.construct', 'PiecewiseCovEffect.__init__', label, 'constructor raises %s'
                         % w.init_result.exc, *init_owner)
                continue
            valid = True
            last_owner = init_owner
            for n_op, (op, arg) in enumerate(seq):
                # the model is evaluated before every edit as well (a coverage sweep between two edits): an
                # evaluation must not leave anything behind that survives the next edit. The value itself was
                # decided when this prefix was the whole sequence.
                if pattern == 'every' or n_op == 0:
                    # ... also where the edit is going to happen: on the coverage of the new breakpoint / of the
                    # breakpoint that is removed
                    n_ = len(w.pairs)
                    w.probe(also=(arg,) if op == 'insert' else (w.pairs[arg][2],) if -n_ <= arg < n_ else ())
                if op == 'insert':
                    r = w.insert(arg)
                    last_owner = ins_owner
                    if isinstance(r, Raised):
                        run.fail('REF.insert', 'PiecewiseCovEffect.insert', label, 'insert raises %s' % r.exc,
                                 *ins_owner)
                        valid = False
                        break
                else:
                    n_before = len(w.pairs)
                    idx_ok = arg != 0 and -n_before <= arg < n_before and not (arg < 0 and n_before + arg == 0)
                    if arg < 0 and n_before + arg == 0:
                        # the first breakpoint addressed from the end: the documentation refuses index 0 only,
                        # nothing is claimed about this spelling
                        valid = False
                        break
                    r = w.pop(arg)
                    last_owner = pop_owner
                    if not idx_ok:
                        # popping a non-existent index (or the first breakpoint) must be refused and leave the
                        # model untouched
                        if not isinstance(r, Raised):
                            run.fail('REF.pop', 'PiecewiseCovEffect.pop', label,
                                     'pop(%d) on %d breakpoints is accepted' % (arg, n_before), *pop_owner)
                            valid = False
                            break
                        continue        # refused: the sequence goes on with the model as it was
                    if isinstance(r, Raised):
                        run.fail('REF.pop', 'PiecewiseCovEffect.pop', label, 'pop raises %s' % r.exc, *pop_owner)
                        valid = False
                        break
            if not valid:
                failed.add(seq)
                continue
            n_seq += 1
            # one finding per operation kind: key on the last operation, not on the whole sequence
            key = 'after %s' % ('%s %s' % (seq[-1][0], _where(seq[-1], w)) if seq else 'construction')
            if pattern == 'first':
                key += ', no evaluation between the edits'
            before = len(run.findings)
            nfail0 = run.obligations - run.discharged
            # (which side of a breakpoint belongs to which piece was decided with an evaluation before every edit:
            # the quick tier evaluates the second run inside the pieces and beyond them only)
            invariants(run, w, key, last_owner, on_breakpoints=pattern == 'every' or run.tier == 'thorough')
            if run.obligations - run.discharged > nfail0:
                failed.add(seq)
            elif len(seq) <= 2 and pattern == 'every':
                # the model reached by this sequence, serialised and reloaded, is the same function
                reloaded(run, w, key)
    run.floor('operation sequences enumerated', n_enum, 60)
    run.extra['sequences'] = n_seq
    edges(run, repo, ins_owner, pop_owner)
    two_models(run, repo, ci)
    # a model built with positional arguments (the sequences and from_dict pass keywords) is the same model
    for n_init in (2, 3) if run.tier == 'thorough' else (2,):
        w = World(repo, n_init, positional=True)
        if isinstance(w.init_result, Raised):
            run.fail('REF.construct', 'PiecewiseCovEffect.__init__', 'positional arguments', 'PiecewiseCovEffect(name_i, '
                     'name_j, intervals, slopes) raises %s' % w.init_result.exc, *init_owner)
            continue
        if invariants(run, w, 'built with positional arguments', init_owner):
            w.probe(also=(5,))
            if not isinstance(w.insert(5), Raised):
                invariants(run, w, 'built with positional arguments, after insert', ins_owner)
    energy_forms_and_zeros(run, repo, ci)
    roundtrip(run, repo, ci, ins_owner)


def energy_forms_and_zeros(run, repo, ci):
    # entropy and heat capacities vanish: of a model as built, and of the same model after an edit
    w = World(repo, 2)
    if isinstance(w.init_result, Raised):
        return                          # reported by the sequences
    for when in ('zero', 'zero after an insert'):
        for q in ('get_SoR', 'get_CvoR', 'get_CpoR'):
            owner, fn = repo.find_method(ci, q)
            got = w.I.call_method(w.obj, q, [], {})
            run.check(same(got, C(0)), 'REF.zero', 'PiecewiseCovEffect.' + q, when, 'coverage effects must '
                      'contribute no %s (got %s)' % (q[4:], show(got)), owner.module, fn)
        if isinstance(w.insert(5), Raised):
            break
    # with no entropy, every energy form (H, F, G) is the same excess energy as U at the temperature asked for, and
    # is independent of temperature in energy units
    w = World(repo, 2)
    if isinstance(w.init_result, Raised):
        return                          # reported by the sequences
    Dw = w.I.D
    Tq = Dw.sym('Tq')
    forms = [q for q in ('get_HoRT', 'get_FoRT', 'get_GoRT') if repo.find_method(ci, q, missing_ok=True) is not None]

    def energy_forms(code, key, history):
        xq = _cov(w, code)[1]
        u = w.I.call_method(w.obj, 'get_UoRT', [], {'x': xq, 'T': Tq})
        for q in forms:
            owner, fn = repo.find_method(ci, q)
            run.fn(owner.qual + '.' + q)
            got = w.I.call_method(w.obj, q, [], {'x': xq, 'T': Tq})
            run.check(isinstance(got, Rat) and isinstance(u, Rat) and same(got, u), 'TWIN.energy-forms',
                      'PiecewiseCovEffect.' + q, 'same excess energy as U' + key,
                      '%s%s(x, T) is %s but the excess energy U/RT at the same coverage and temperature is %s'
                      % (history, q, show(got, 120), show(u, 120)), owner.module, fn)
            if not key:
                run.check(isinstance(got, Rat) and Dw.d(got * Tq, 'Tq').iszero(), 'DERIV.T-free',
                          'PiecewiseCovEffect.' + q, 'temperature independent', 'T * %s depends on temperature: the '
                          'excess energy in energy units must not' % q[4:], owner.module, fn)

    energy_forms(5, '', '')
    # the documented defaults: coverage 0 (where the excess energy is zero), 298.15 K
    o_u, f_u = repo.find_method(ci, 'get_UoRT')
    got0 = w.I.call_method(w.obj, 'get_UoRT', [], {'T': Tq})
    run.check(same(got0, C(0)), 'REF.default', 'PiecewiseCovEffect.get_UoRT', 'default coverage',
              'get_UoRT(T=T) - at the documented default coverage 0 - is %s: the excess energy is zero at zero '
              'coverage' % show(got0, 100), o_u.module, f_u)
    x5 = _cov(w, 5)[1]
    got_d = w.I.call_method(w.obj, 'get_UoRT', [], {'x': x5})
    got_e = w.I.call_method(w.obj, 'get_UoRT', [], {'x': x5, 'T': C(Fr('298.15'))})
    run.check(isinstance(got_d, Rat) and same(got_d, got_e), 'REF.default', 'PiecewiseCovEffect.get_UoRT',
              'default temperature', 'get_UoRT(x=x) is %s but get_UoRT(x=x, T=298.15) - the documented default '
              'temperature - is %s' % (show(got_d, 100), show(got_e, 100)), o_u.module, f_u)
    energy_forms(17, ' at a second coverage', 'evaluated below a breakpoint, then above it: ')
    # ... and still after an edit: nothing an energy form computed before the edit may survive it (the coverage was
    # asked before the edit, too)
    r_ins = w.insert(15)
    if not isinstance(r_ins, Raised):
        energy_forms(17, ' after an insert', 'evaluated, then a breakpoint inserted, then evaluated above it: ')
        energy_forms(5, ' below an insert', 'evaluated, then a breakpoint inserted, then evaluated below it: ')


def roundtrip(run, repo, ci, ins_owner):
    # serialise / reload
    w = World(repo, 3)
    if isinstance(w.init_result, Raised) or isinstance(w.insert(15), Raised):
        return                          # reported by the sequences
    d = w.I.call_method(w.obj, 'to_dict', [], {})
    owner, fn = repo.find_method(ci, 'from_dict')
    if isinstance(d, DictV):
        snap = dict(d.d)
        o2 = w.I.call_function(owner.module, fn, [], {'json_obj': DictV(dict(d.d))}, self_obj=ci, owner=owner)
        ok = isinstance(o2, Obj) and all(same(_attr(w.I, o2, k), _attr(w.I, w.obj, k))
                                         for k in ('intervals', 'slopes', 'name_i', 'name_j'))
        if ok:
            # and it evaluates like the original (whatever private state the reload has to rebuild)
            xq2, Tq2 = _cov(w, 17)[1], w.I.D.sym('Tq')
            ok = same(w.I.call_method(o2, 'get_UoRT', [], {'x': xq2, 'T': Tq2}),
                      w.I.call_method(w.obj, 'get_UoRT', [], {'x': xq2, 'T': Tq2}))
        run.check(ok, 'TABLE.roundtrip', 'PiecewiseCovEffect.from_dict', 'to_dict->from_dict',
                  'reloading the serialised model does not rebuild the same breakpoints/slopes/intercepts (%s)'
                  % show(o2), owner.module, fn)
        if ok:
            # the reloaded copy, the dictionary and the original are independent: editing one leaves the others as
            # they were (a dictionary that shares its lists with the model is not a saved state)
            xq2, Tq2 = _cov(w, 17)[1], w.I.D.sym('Tq')
            before = w.I.call_method(w.obj, 'get_UoRT', [], {'x': xq2, 'T': Tq2})
            def n_bp():
                v = _attr(w.I, w.obj, 'intervals')
                return len(v.items) if isinstance(v, ListV) else -1

            n_before = n_bp()
            w.ranks['xnew'] = _rank(12)
            w.I.call_method(o2, 'insert', [], {'interval': w.I.D.sym('xnew'), 'slope': w.I.D.sym('knew')})
            after = w.I.call_method(w.obj, 'get_UoRT', [], {'x': xq2, 'T': Tq2})
            o_t, f_t = repo.find_method(ci, 'to_dict')
            run.check(same(before, after) and n_bp() == n_before, 'EFFECT.shared-state',
                      'PiecewiseCovEffect.to_dict', 'edit the reloaded copy',
                      'inserting a breakpoint into the copy rebuilt by from_dict(to_dict()) changes the original '
                      '(value at the same coverage %s -> %s, %d -> %d breakpoints): the dictionary carries the '
                      'model\'s own lists instead of copies' % (show(before, 80), show(after, 80), n_before,
                                                               n_bp()), o_t.module, f_t)
            if same(before, after) and n_bp() == n_before:
                # the copy was evaluated, then edited: it is the reference function of its own pair list
                pairs2 = list(w.pairs)
                pairs2.insert(len([p for p in pairs2 if p[2] <= 12]), (w.I.D.sym('xnew'), w.I.D.sym('knew'), Fr(12)))
                v2 = View(w, o2, pairs2, probed=(17,))
                if invariants(run, v2, 'reloaded copy after insert', ins_owner):
                    # ... and a breakpoint it was reloaded with is removed again
                    o_p, f_p = repo.find_method(ci, 'pop')
                    r_pop = w.I.call_method(o2, 'pop', [C(1)], {})
                    v2.pairs.pop(1)
                    if run.check(not isinstance(r_pop, Raised), 'REF.pop', 'PiecewiseCovEffect.pop',
                                 'reloaded copy', 'pop(1) on the reloaded and edited copy raises %s'
                                 % getattr(r_pop, 'exc', None), o_p.module, f_p):
                        v2.probed.append(Fr(10))
                        invariants(run, v2, 'reloaded copy after insert and pop', (o_p.module, f_p))
            d2 = w.I.call_method(w.obj, 'to_dict', [], {})
            saved = [len(v.items) for v in d2.d.values() if isinstance(v, ListV)] if isinstance(d2, DictV) else []
            w.I.call_method(w.obj, 'insert', [], {'interval': w.I.D.sym('xnew2'), 'slope': w.I.D.sym('knew2')}) \
                if w.ranks.setdefault('xnew2', _rank(7)) else None
            now = [len(v.items) for v in d2.d.values() if isinstance(v, ListV)] if isinstance(d2, DictV) else []
            run.check(saved == now, 'EFFECT.shared-state', 'PiecewiseCovEffect.to_dict', 'edit after saving',
                      'a dictionary taken with to_dict() changes when the model is edited afterwards (list lengths %s '
                      '-> %s)' % (saved, now), o_t.module, f_t)
    else:
        run.fail('TABLE.roundtrip', 'PiecewiseCovEffect.to_dict', 'to_dict', 'to_dict does not return a dict',
                 owner.module, fn)


def _all_edit(seq, n):
    """every operation of the sequence changes a model that starts with n breakpoints (no refused pop)"""
    for op, arg in seq:
        if op == 'insert':
            n += 1
        elif arg != 0 and -n < arg < n:
            n -= 1
        else:
            return False
    return True


def _where(op, w):
    if op[0] == 'pop':
        return 'of an interior/last breakpoint'
    r = op[1]
    ranks = [p[2] for p in w.pairs]
    if ranks.count(r) > 1:
        return 'equal to a breakpoint'
    if r == max(ranks):
        return 'above all breakpoints'
    return 'between breakpoints'


C_ = 'pmutt/mixture/cov.py'
_LOOK = '        i = np.argmax(x < np.array(self.intervals)) - 1'
_INIT = '        self._set_intercepts()\n        self.name = name'
_MEMO = ('        if x not in self._pieces:\n            self._pieces[x] = np.argmax(x < np.array(self.intervals)) - 1\n'
         '        i = self._pieces[x]')
_TWO_INSERTS = '        self.intervals.insert(i, interval)\n        self.slopes.insert(i, slope)\n'
_SET_BODY = ('        self._intercepts = []\n        for i, (interval, slope) in enumerate(zip(self.intervals,\n'
             '                                                  self.slopes)):\n            if i == 0:\n'
             '                self._intercepts.append(0.)\n            else:\n'
             '                # Calculate H value at interval\n                prev_intercept = self._intercepts[-1]\n'
             '                prev_slope = self.slopes[i - 1]\n                H = prev_slope * interval + prev_intercept\n'
             '                # Calculate intercept of new area of curve\n'
             '                self._intercepts.append(H - slope * interval)\n')
_DATACLASS = [
    (C_, 'import numpy as np\n', 'from dataclasses import dataclass\nfrom typing import List, Optional\n\nimport numpy as np\n'),
    (C_, 'class PiecewiseCovEffect(_ModelBase):', '@dataclass(eq=False, repr=False)\nclass PiecewiseCovEffect(_ModelBase):')]
_HAND_INIT = ('    def __init__(self, name_i, name_j, intervals, slopes, name=None):\n        self.name_i = name_i\n'
              '        self.name_j = name_j\n        self.intervals = intervals\n        self.slopes = slopes\n'
              '        self._set_intercepts()\n        self.name = name\n')
_CACHED_PROP = [
    (C_, 'import numpy as np\n', 'from functools import cached_property\n\nimport numpy as np\n'),
    (C_, _LOOK, '        i = np.argmax(x < self._thresholds) - 1'),
    (C_, "    def get_HoRT(self, x=0., T=c.T0('K')):", '    @cached_property\n    def _thresholds(self):\n'
     "        return np.array(self.intervals)\n\n    def get_HoRT(self, x=0., T=c.T0('K')):")]
_CTX_MGR = [
    (C_, 'import numpy as np\n', 'from contextlib import contextmanager\n\nimport numpy as np\n'),
    (C_, _TWO_INSERTS + '        self._set_intercepts()\n', '        with self._editing():\n'
     '            self.intervals.insert(i, interval)\n            self.slopes.insert(i, slope)\n'),
    (C_, '        self.intervals.pop(i)\n        self.slopes.pop(i)\n        self._set_intercepts()\n',
     '        with self._editing():\n            self.intervals.pop(i)\n            self.slopes.pop(i)\n')]
MUTANTS = [
    {'name': 'the first breakpoint can be removed', 'expect': ('REF.pop', 'pop'),
     'edits': [('pmutt/mixture/cov.py', "        if i == 0:\n            err_msg = 'First index cannot be removed'", "        if i is None:\n            err_msg = 'First index cannot be removed'")]},
    {'name': 'pop forgets to recompute intercepts', 'expect': ('', ''),
     'edits': [(C_, '        self.slopes.pop(i)\n        self._set_intercepts()', '        self.slopes.pop(i)')]},
    {'name': 'insert puts slope one position later', 'expect': ('PAIR.slopes', ''),
     'edits': [(C_, '        self.slopes.insert(i, slope)', '        self.slopes.insert(i + 1, slope)')]},
    {'name': 'intercept recurrence uses current slope', 'expect': ('REF.continuity', ''),
     'edits': [(C_, '                prev_slope = self.slopes[i - 1]', '                prev_slope = self.slopes[i]')]},
    {'name': 'lookup without the -1', 'expect': ('REF.lookup', ''),
     'edits': [(C_, 'i = np.argmax(x < np.array(self.intervals)) - 1', 'i = np.argmax(x < np.array(self.intervals))')]},
    {'name': 'lookup uses <=', 'expect': ('REF.lookup', ''),
     'edits': [(C_, 'i = np.argmax(x < np.array(self.intervals)) - 1', 'i = np.argmax(x <= np.array(self.intervals)) - 1')]},
    # white-box review: an evaluation between two edits, reload after an insert onto a breakpoint, two live models
    {'name': 'thresholds cached at the first evaluation, not refreshed by insert/pop', 'expect': ('REF.lookup', 'get_UoRT'),
     'edits': [(C_, '        self._set_intercepts()\n        self.name = name', '        self._set_intercepts()\n        self._thresholds = None\n        self.name = name'),
               (C_, '        i = np.argmax(x < np.array(self.intervals)) - 1', '        if self._thresholds is None:\n            self._thresholds = np.array(self.intervals)\n        i = np.argmax(x < self._thresholds) - 1')]},
    {'name': 'constructor keeps one entry per repeated breakpoint', 'expect': ('TABLE.roundtrip', 'from_dict'),
     'edits': [(C_, '        self.intervals = intervals\n        self.slopes = slopes\n',
                '        self.intervals = []\n        self.slopes = []\n        for interval, slope in zip(intervals, slopes):\n'
                '            if self.intervals and interval == self.intervals[-1]:\n                continue\n'
                '            self.intervals.append(interval)\n            self.slopes.append(slope)\n')]},
    {'name': 'breakpoint and slope lists as mutable default arguments', 'expect': ('EFFECT.shared-state', '__init__'),
     'edits': [(C_, 'def __init__(self, name_i, name_j, intervals, slopes, name=None):',
                'def __init__(self, name_i, name_j, intervals=[0.], slopes=[0.], name=None):')]},
    {'name': 'enthalpy remembered across an insert', 'expect': ('TWIN.energy-forms', 'get_HoRT'),
     'edits': [(C_, '        return self.get_UoRT(x=x, T=T)\n', "        if getattr(self, '_H', None) is None:\n"
                '            self._H = self.get_UoRT(x=x, T=T) * T\n        return self._H / T\n')]},
    # white-box review, round 2: two edits with no evaluation between them, an insert equal to the first breakpoint
    # and at coverage 1, indices the model does not have; one-shot zip objects, list.index by value, numpy booleans
    {'name': 'thresholds cached, rebuilt when the number of breakpoints changed', 'expect': ('REF.lookup', 'get_UoRT'),
     'edits': [(C_, '        self._set_intercepts()\n        self.name = name', '        self._set_intercepts()\n        self._thresholds = None\n        self.name = name'),
               (C_, '        i = np.argmax(x < np.array(self.intervals)) - 1',
                '        if self._thresholds is None or len(self._thresholds) != len(self.intervals):\n'
                '            self._thresholds = np.array(self.intervals)\n        i = np.argmax(x < self._thresholds) - 1')]},
    {'name': 'insert refuses a breakpoint equal to the first one', 'expect': ('REF.insert', 'insert'),
     'edits': [(C_, '        self.intervals.insert(i, interval)\n', "        if interval <= 0.:\n            raise ValueError("
                "'New intervals must be positive')\n        self.intervals.insert(i, interval)\n")]},
    {'name': 'insert refuses a breakpoint at coverage 1', 'expect': ('REF.insert', 'insert'),
     'edits': [(C_, '        self.intervals.insert(i, interval)\n', "        if interval >= 1.:\n            raise ValueError("
                "'New intervals must be below 1 ML')\n        self.intervals.insert(i, interval)\n")]},
    {'name': 'pop wraps indices the model does not have', 'expect': ('REF.pop', 'pop'),
     'edits': [(C_, "        if i == 0:\n            err_msg = 'First index cannot be removed'",
                "        i = i % len(self.intervals)\n        if i == 0:\n            err_msg = 'First index cannot be removed'")]},
    {'name': 'zip object counted with list() and then looped over', 'expect': ('REF.continuity', 'get_UoRT'),
     'edits': [(C_, '        self._intercepts = []\n        for i, (interval, slope) in enumerate(zip(self.intervals,\n'
                '                                                  self.slopes)):\n            if i == 0:\n'
                '                self._intercepts.append(0.)\n            else:\n'
                '                # Calculate H value at interval\n                prev_intercept = self._intercepts[-1]\n'
                '                prev_slope = self.slopes[i - 1]\n                H = prev_slope * interval + prev_intercept\n'
                '                # Calculate intercept of new area of curve\n'
                '                self._intercepts.append(H - slope * interval)\n',
                '        pieces = zip(self.intervals, self.slopes)\n        self._intercepts = [0.] * len(list(pieces))\n'
                '        for i, (interval, slope) in enumerate(pieces):\n            if i == 0:\n                continue\n'
                '            prev_intercept = self._intercepts[i - 1]\n            prev_slope = self.slopes[i - 1]\n'
                '            H = prev_slope * interval + prev_intercept\n'
                '            self._intercepts[i] = H - slope * interval\n')]},
    {'name': 'piece located with list.index of the breakpoint value', 'expect': ('REF.lookup', 'get_UoRT'),
     'edits': [(C_, '        i = np.argmax(x < np.array(self.intervals)) - 1',
                '        lower = [interval for interval in self.intervals if interval <= x][-1]\n'
                '        i = self.intervals.index(lower)')]},
    {'name': 'numpy truth value compared with the singleton True', 'expect': ('ORDER.ascending', 'PiecewiseCovEffect'),
     'edits': [(C_, '        if np.any(larger):', '        if np.any(larger) is True:')]},
    # white-box review, round 3: one symbol per coverage (what is remembered per coverage is looked up again after the
    # edit, at the coverage of the edit, in another model), the kind of container an edit leaves behind, construction
    # and calls by position, documented defaults, numpy on generator objects
    {'name': 'piece index remembered per coverage, never forgotten', 'expect': ('REF.lookup', 'get_UoRT'),
     'edits': [(C_, _INIT, '        self._pieces = {}\n' + _INIT), (C_, _LOOK, _MEMO)]},
    {'name': 'piece index remembered per coverage, forgotten by insert but not by pop', 'expect': ('REF.lookup', 'get_UoRT'),
     'edits': [(C_, _INIT, '        self._pieces = {}\n' + _INIT),
               (C_, '        self.slopes.insert(i, slope)\n', '        self.slopes.insert(i, slope)\n        self._pieces = {}\n'),
               (C_, _LOOK, _MEMO)]},
    {'name': 'piece index forgotten for the coverages above a new breakpoint, not for the one on it',
     'expect': ('REF.', 'get_UoRT'),
     'edits': [(C_, _INIT, '        self._pieces = {}\n' + _INIT),
               (C_, '        self.slopes.insert(i, slope)\n', '        self.slopes.insert(i, slope)\n'
                '        self._pieces = {k: v for k, v in self._pieces.items() if k < interval}\n'),
               (C_, '        self.slopes.pop(i)\n', '        self.slopes.pop(i)\n        self._pieces = {}\n'),
               (C_, _LOOK, _MEMO)]},
    {'name': 'value remembered per (coverage, temperature), never forgotten', 'expect': ('REF.', 'get_UoRT'),
     'edits': [(C_, _INIT, '        self._memo = {}\n' + _INIT),
               (C_, _LOOK, '        if (x, T) in self._memo:\n            return self._memo[x, T]\n' + _LOOK),
               (C_, '        return UoRT\n', '        self._memo[x, T] = UoRT\n        return UoRT\n')]},
    {'name': 'piece index per coverage in one dictionary shared by all models (emptied by every edit)',
     'expect': ('REF.lookup', 'get_UoRT'),
     'edits': [(C_, '    def __init__(self, name_i, name_j, intervals, slopes, name=None):',
                '    _pieces = {}\n\n    def __init__(self, name_i, name_j, intervals, slopes, name=None):'),
               (C_, '        self._intercepts = []\n', '        self._intercepts = []\n        for key in list(self._pieces):\n'
                '            del self._pieces[key]\n'),
               (C_, _LOOK, _MEMO)]},
    {'name': 'insert leaves numpy arrays behind', 'expect': ('TYPE.container', 'PiecewiseCovEffect'),
     'edits': [(C_, _TWO_INSERTS,
                '        self.intervals = np.concatenate((self.intervals[:i], [interval], self.intervals[i:]))\n'
                '        self.slopes = np.concatenate((self.slopes[:i], [slope], self.slopes[i:]))\n')]},
    {'name': 'insert leaves tuples behind', 'expect': ('TYPE.container', 'PiecewiseCovEffect'),
     'edits': [(C_, _TWO_INSERTS,
                '        self.intervals = tuple(self.intervals[:i]) + (interval,) + tuple(self.intervals[i:])\n'
                '        self.slopes = tuple(self.slopes[:i]) + (slope,) + tuple(self.slopes[i:])\n')]},
    {'name': 'insert leaves tuples behind (the columns of zip(*pieces))', 'expect': ('TYPE.container', 'PiecewiseCovEffect'),
     'edits': [(C_, _TWO_INSERTS,
                '        pieces = list(zip(self.intervals, self.slopes))\n        pieces.insert(i, (interval, slope))\n'
                '        self.intervals, self.slopes = list(zip(*pieces))\n')]},
    {'name': 'numpy truth value of a generator expression', 'expect': ('ORDER.ascending', 'PiecewiseCovEffect'),
     'edits': [(C_, '        larger = interval < np.array(self.intervals)\n        if np.any(larger):\n'
                '            i = np.argmax(larger)\n',
                '        if np.any(interval < existing for existing in self.intervals):\n'
                '            i = np.argmax(interval < np.array(self.intervals))\n')]},
    {'name': 'intercepts in an integer buffer made from integer literals', 'expect': ('TYPE.int-buffer', '_set_intercepts'),
     'edits': [(C_, _SET_BODY,
                '        intercepts = np.array([0] * len(self.slopes))\n        for i in range(1, len(intercepts)):\n'
                '            interval = self.intervals[i]\n'
                '            H = self.slopes[i - 1] * interval + intercepts[i - 1]\n'
                '            intercepts[i] = H - self.slopes[i] * interval\n'
                '        self._intercepts = intercepts.tolist()\n')]},
    {'name': 'thresholds in a cached_property that no edit invalidates', 'expect': ('REF.lookup', 'get_UoRT'),
     'edits': _CACHED_PROP},
    {'name': 'context manager around the edits recomputes the intercepts on entry', 'expect': ('REF.', 'get_UoRT'),
     'edits': _CTX_MGR + [(C_, '    def pop(self, i):', '    @contextmanager\n    def _editing(self):\n'
                           '        self._set_intercepts()\n        yield\n\n    def pop(self, i):')]},
    {'name': 'constructor takes the slopes before the breakpoints', 'expect': ('', 'PiecewiseCovEffect'),
     'edits': [(C_, '    def __init__(self, name_i, name_j, intervals, slopes, name=None):',
                '    def __init__(self, name_i, name_j, slopes, intervals, name=None):')]},
    {'name': 'dataclass whose fields are not in the order of the documented arguments', 'expect': ('', 'PiecewiseCovEffect'),
     'edits': _DATACLASS + [(C_, _HAND_INIT, '    name_i: str\n    name_j: str\n    slopes: List[float]\n'
                             '    intervals: List[float]\n    name: Optional[str] = None\n\n'
                             '    def __post_init__(self):\n        self._set_intercepts()\n')]},
    {'name': 'default coverage of get_UoRT is a full monolayer', 'expect': ('REF.default', 'get_UoRT'),
     'edits': [(C_, "    def get_UoRT(self, x=0., T=c.T0('K')):", "    def get_UoRT(self, x=1., T=c.T0('K')):")]},
    {'name': 'default temperature of get_UoRT is 273.15 K', 'expect': ('REF.default', 'get_UoRT'),
     'edits': [(C_, "    def get_UoRT(self, x=0., T=c.T0('K')):", "    def get_UoRT(self, x=0., T=273.15):")]},
    {'name': 'insertion by a sort that puts the new piece before an equal breakpoint', 'expect': ('', 'PiecewiseCovEffect'),
     'edits': [(C_, _TWO_INSERTS,
                '        pieces = sorted(zip([interval] + self.intervals, [slope] + self.slopes), key=lambda piece: piece[0])\n'
                '        self.intervals[:] = [piece[0] for piece in pieces]\n'
                '        self.slopes[:] = [piece[1] for piece in pieces]\n')]},
]
MUTANTS += [
    # white-box round 3, A4: np.interp is flat beyond the last breakpoint
    {'name': 'evaluation by np.interp over the energies at the breakpoints', 'expect': ('REF.', 'get_UoRT'),
     'edits': [(C_, "        i = np.argmax(x < np.array(self.intervals)) - 1\n        UoRT = (self.slopes[i] * x +\n"
                "                self._intercepts[i]) / (c.R('kcal/mol/K') * T)",
                "        energies = [slope * interval + intercept for interval, slope, intercept\n"
                "                    in zip(self.intervals, self.slopes, self._intercepts)]\n"
                "        UoRT = np.interp(x, self.intervals, energies) / (c.R('kcal/mol/K') * T)")]},
]
EQUIV = [
    # white-box review, round 2 (behaviour-preserving: must stay silent)
    {'name': 'shortcut at zero coverage',
     'edits': [(C_, '        i = np.argmax(x < np.array(self.intervals)) - 1',
                "        if x == 0.:\n            return 0. / (c.R('kcal/mol/K') * T)\n"
                '        i = np.argmax(x < np.array(self.intervals)) - 1')]},
    {'name': 'pop moved into a mix-in base class',
     'edits': [(C_, 'class PiecewiseCovEffect(_ModelBase):',
                'class _PiecewiseLinear:\n    def pop(self, i):\n        if i == 0:\n'
                "            raise ValueError('First index cannot be removed')\n        self.intervals.pop(i)\n"
                '        self.slopes.pop(i)\n        self._set_intercepts()\n\n\n'
                'class PiecewiseCovEffect(_PiecewiseLinear, _ModelBase):'),
               (C_, '    def pop(self, i):\n        """Removes the interval', '    def _pop_here(self, i):\n        """Removes the interval')]},
    {'name': 'breakpoints kept behind a property of the documented name',
     'edits': [(C_, '    def insert(self, interval, slope):', '    @property\n    def intervals(self):\n        return self._bps\n\n'
                '    @intervals.setter\n    def intervals(self, v):\n        self._bps = v\n\n    def insert(self, interval, slope):')]},
    {'name': 'insert refuses breakpoints outside the domain [0, 1]',
     'edits': [(C_, '        self.intervals.insert(i, interval)\n', "        if interval < 0. or interval > 1.:\n"
                "            raise ValueError('Intervals are coverages between 0 and 1 ML')\n"
                '        self.intervals.insert(i, interval)\n')]},
    # white-box review, round 3
    {'name': 'the class as a dataclass with __post_init__',
     'edits': _DATACLASS + [(C_, _HAND_INIT, '    name_i: str\n    name_j: str\n    intervals: List[float]\n'
                             '    slopes: List[float]\n    name: Optional[str] = None\n\n'
                             '    def __post_init__(self):\n        self._set_intercepts()\n')]},
    {'name': 'piece index remembered per coverage, forgotten by _set_intercepts',
     'edits': [(C_, '        self._intercepts = []\n', '        self._intercepts = []\n        self._pieces = {}\n'),
               (C_, _LOOK, _MEMO)]},
    {'name': 'value remembered per (coverage, temperature), forgotten by _set_intercepts',
     'edits': [(C_, '        self._intercepts = []\n', '        self._intercepts = []\n        self._memo = {}\n'),
               (C_, _LOOK, '        if (x, T) in self._memo:\n            return self._memo[x, T]\n' + _LOOK),
               (C_, '        return UoRT\n', '        self._memo[x, T] = UoRT\n        return UoRT\n')]},
    {'name': 'insertion by a stable sort of the pieces',
     'edits': [(C_, _TWO_INSERTS,
                '        pieces = sorted(zip(self.intervals + [interval], self.slopes + [slope]), key=lambda piece: piece[0])\n'
                '        self.intervals[:] = [piece[0] for piece in pieces]\n'
                '        self.slopes[:] = [piece[1] for piece in pieces]\n')]},
    {'name': 'intercepts in a float buffer made from float literals',
     'edits': [(C_, _SET_BODY,
                '        intercepts = np.array([0.] * len(self.slopes))\n        for i in range(1, len(intercepts)):\n'
                '            interval = self.intervals[i]\n'
                '            H = self.slopes[i - 1] * interval + intercepts[i - 1]\n'
                '            intercepts[i] = H - self.slopes[i] * interval\n'
                '        self._intercepts = intercepts.tolist()\n')]},
    {'name': 'insert through zip(*pieces) whose columns are made lists again',
     'edits': [(C_, _TWO_INSERTS,
                '        pieces = list(zip(self.intervals, self.slopes))\n        pieces.insert(i, (interval, slope))\n'
                '        self.intervals, self.slopes = (list(column) for column in zip(*pieces))\n')]},
    {'name': 'thresholds in a cached_property dropped from __dict__ by _set_intercepts',
     'edits': _CACHED_PROP + [(C_, '        self._intercepts = []\n', '        self._intercepts = []\n'
                               "        self.__dict__.pop('_thresholds', None)\n")]},
    {'name': 'edits inside a context manager that recomputes the intercepts on exit',
     'edits': _CTX_MGR + [(C_, '    def pop(self, i):', '    @contextmanager\n    def _editing(self):\n        yield\n'
                           '        self._set_intercepts()\n\n    def pop(self, i):')]},
    {'name': 'default temperature resolved in the body',
     'edits': [(C_, "    def get_UoRT(self, x=0., T=c.T0('K')):", "    def get_UoRT(self, x=0., T=None):"),
               (C_, _LOOK, "        if T is None:\n            T = c.T0('K')\n" + _LOOK)]},
]
