"""Regular expressions over abstract strings.

A pattern is a literal of the analysed source; what it does to a string is
fixed by which of the pattern's own character sets each character belongs to.
The engine therefore

1. parses the pattern (``re._parser``) and collects its single-character atoms
   (literals, sets, categories, ``.``);
2. partitions the alphabet of every symbolic field (species name: a letter
   followed by letters, digits, ``( ) * _``; element symbol: an upper-case
   letter followed by lower-case ones; formatted number: the text of a witness
   value printed with the field's own format spec) by membership in those
   atoms, and spells the field with one representative per position taken from
   the *generic* block - the characters no positive atom of the pattern
   mentions;
3. lets the ``re`` module match the pattern against that spelling - the match
   positions, not the characters, are the result - and lifts every matched or
   split span back to an abstract string through the origin of each
   character (a whole field comes back as the field, a span that cuts a field
   comes back as the literal characters of the spelling and is recorded as a
   cut);
4. repeats the match with the first, an interior and the last character of every
   name replaced by a representative of each non-generic block the grammar
   allows there; a different set of spans means the outcome depends on how the
   user spelled the name and is recorded as a hazard, never silently resolved.

Nothing of pMuTT is executed; ``re`` serves as the transfer function of the
pattern literal.
"""
import re
import string

try:                                        # Python >= 3.11
    import re._parser as sre_parse
    import re._constants as sre_c
except ImportError:                         # pragma: no cover
    import sre_parse
    import sre_constants as sre_c

from .absstr import Seg, SegStr
from .source import Unsupported

UPPER = string.ascii_uppercase
LOWER = string.ascii_lowercase
LETTERS = UPPER + LOWER
NAMECHARS = LETTERS + string.digits + '()*_'
# preferred spellings of the generic block (no common chemical meaning, rarely literal in a pattern)
PREFER = 'QXZJWVKqxzjwvk'


def _class_src(items):
    out = []
    neg = False
    for op, av in items:
        if op is sre_c.NEGATE:
            neg = True
        elif op is sre_c.LITERAL:
            out.append(re.escape(chr(av)))
        elif op is sre_c.RANGE:
            out.append('%s-%s' % (re.escape(chr(av[0])), re.escape(chr(av[1]))))
        elif op is sre_c.CATEGORY:
            out.append({sre_c.CATEGORY_DIGIT: r'\d', sre_c.CATEGORY_NOT_DIGIT: r'\D',
                        sre_c.CATEGORY_SPACE: r'\s', sre_c.CATEGORY_NOT_SPACE: r'\S',
                        sre_c.CATEGORY_WORD: r'\w', sre_c.CATEGORY_NOT_WORD: r'\W'}[av])
        else:
            raise Unsupported('regular expression set item %r' % (op,))
    return '[%s%s]' % ('^' if neg else '', ''.join(out)), neg


_ATOMS_CACHE = {}
_BLOCKS_CACHE = {}


def atoms_of(pat, flags=0):
    """[(compiled single-character regex, positive?)] for every character atom of the pattern (a pure function of the
    pattern text and the flags: kept per pattern)"""
    if (pat, flags) not in _ATOMS_CACHE:
        _ATOMS_CACHE[(pat, flags)] = _atoms_of(pat, flags)
    return _ATOMS_CACHE[(pat, flags)]


def _atoms_of(pat, flags=0):
    out = []

    def walk(sub):
        for op, av in sub:
            if op is sre_c.LITERAL:
                out.append((re.escape(chr(av)), True))
            elif op is sre_c.NOT_LITERAL:
                out.append(('[^%s]' % re.escape(chr(av)), False))
            elif op is sre_c.IN:
                src, neg = _class_src(av)
                out.append((src, not neg))
            elif op is sre_c.ANY:
                out.append(('.', False))
            elif op is sre_c.CATEGORY:
                out.append(_class_src([(sre_c.CATEGORY, av)])[0:1] + (True,))
            elif op in (sre_c.MAX_REPEAT, sre_c.MIN_REPEAT) or getattr(sre_c, 'POSSESSIVE_REPEAT', None) is op:
                walk(av[2])
            elif op is sre_c.SUBPATTERN:
                walk(av[3])
            elif op is sre_c.BRANCH:
                for b in av[1]:
                    walk(b)
            elif op in (sre_c.ASSERT, sre_c.ASSERT_NOT):
                walk(av[1])
            elif op is sre_c.AT or op is sre_c.GROUPREF:
                pass
            elif getattr(sre_c, 'ATOMIC_GROUP', None) is op:
                walk(av)
            else:
                raise Unsupported('regular expression construct %r' % (op,))
    walk(sre_parse.parse(pat, flags))
    seen = []
    for src, pos in out:
        if (src, pos) not in seen:
            seen.append((src, pos))
    return [(re.compile(src, re.DOTALL | (flags & (re.IGNORECASE | re.ASCII))), pos) for src, pos in seen]


def signature(atoms, ch):
    return tuple(bool(rx.fullmatch(ch)) for rx, _ in atoms)


def blocks(atoms, alphabet):
    """{signature: [chars]} and the generic signature (no positive atom matches) if present; a pure function of the
    atoms' sources and the alphabet: kept"""
    key = (tuple((rx.pattern, rx.flags, pos) for rx, pos in atoms), ''.join(alphabet))
    if key not in _BLOCKS_CACHE:
        _BLOCKS_CACHE[key] = _blocks(atoms, alphabet)
    out, generic = _BLOCKS_CACHE[key]
    return {k_: list(v_) for k_, v_ in out.items()}, generic


def _blocks(atoms, alphabet):
    out = {}
    for ch in alphabet:
        out.setdefault(signature(atoms, ch), []).append(ch)
    generic = None
    for sig in out:
        if not any(hit and pos for hit, (_, pos) in zip(sig, atoms)):
            generic = sig
    return out, generic


def pick(chars):
    for c in PREFER:
        if c in chars:
            return c
    return chars[0]


ANYCHARS = ''.join(chr(c_) for c_ in range(33, 127))


def grammar(seg):
    """per-position alphabets of a symbolic text field"""
    w = seg.width if seg.width is not None else 3
    if w <= 0:
        return []
    if seg.cls == 'alpha':
        return [UPPER] + [LOWER] * (w - 1)
    if seg.cls == 'any':
        return [ANYCHARS] * w               # free text without blanks (a token of a value, a note)
    return [LETTERS] + [NAMECHARS] * (w - 1)


class NumPolicy:
    """how formatted numbers are spelled: the witness value decides the signs"""

    def __init__(self, negative=False, small=False):
        self.negative = negative        # False, True, or a predicate on the field (which quantities can be negative)
        self.small = small

    def value(self, seg=None):
        v = 1.2345e-05 if self.small else 1.2345e+05
        neg = self.negative(seg) if callable(self.negative) else self.negative
        return -v if neg else v

    def label(self):
        return '%s numbers %s' % ('negative' if self.negative else 'positive',
                                  'below one (negative exponent)' if self.small else 'above one')


def spell_number(seg, policy):
    spec = seg.spec or ''
    if spec in ('', 'd') or (spec.isdigit()) or (spec.endswith('d') and re.fullmatch(r'[ +\-]?0?\d*d', spec)):
        # printed without a float presentation: an integer count (len(), stoichiometric index, element count)
        return '7' * (seg.width or 1)
    if spec.startswith('%'):
        try:
            return spec % policy.value(seg)
        except (TypeError, ValueError):
            raise Unsupported('format spec %r' % spec)
    try:
        txt = format(policy.value(seg), spec)
    except (TypeError, ValueError):
        raise Unsupported('format spec %r' % spec)
    return txt


class Spelling:
    def __init__(self, s, atoms, policy, variant=None):
        """variant: (field index, position, replacement char)"""
        self.s = s
        chars = []
        origin = []
        self.hazard_sites = []          # (field index, position, [replacement chars])
        self.lens = {}
        for si, sg in enumerate(s.segs):
            if sg.kind == 'lit':
                for k, ch in enumerate(sg.text):
                    chars.append(ch)
                    origin.append((si, k))
                continue
            if sg.cls == 'num':
                txt = spell_number(sg, policy)
            else:
                g = grammar(sg)
                txt = ''
                for p, alpha in enumerate(g):
                    bl, generic = blocks(atoms, alpha)
                    if generic is None:
                        if len(bl) == 1:
                            generic = next(iter(bl))
                        else:
                            # every character of this position is mentioned by the pattern: spell with the largest
                            # block, the others are variants
                            generic = max(bl, key=lambda k_: len(bl[k_]))
                    ch = pick(bl[generic])
                    if p in (0, len(g) // 2, len(g) - 1):
                        others = [pick(v) for k_, v in bl.items() if k_ != generic]
                        if others:
                            self.hazard_sites.append((si, p, others))
                    if variant is not None and variant[0] == si and variant[1] == p:
                        ch = variant[2]
                    txt += ch
            for k, ch in enumerate(txt):
                chars.append(ch)
                origin.append((si, k))
            self.lens[si] = len(txt)
        self.text = ''.join(chars)
        self.origin = origin

    def lift(self, a, b, cuts=None):
        """abstract string of text[a:b]"""
        out = []
        i = a
        while i < b:
            si, k = self.origin[i]
            sg = self.s.segs[si]
            if sg.kind == 'lit':
                j = i
                while j < b and self.origin[j][0] == si:
                    j += 1
                out.append(Seg('lit', text=self.text[i:j]))
                i = j
                continue
            n = self.lens[si]
            j = i
            while j < b and self.origin[j][0] == si:
                j += 1
            if k == 0 and j - i == n:
                out.append(sg)
            else:
                if cuts is not None:
                    cuts.append((sg, self.text[i:j]))
                out.append(Seg('lit', text=self.text[i:j]))
            i = j
        return SegStr(out)


def _spans(kind, rx, text, maxsplit=0):
    """structural outcome: list of (start, end) spans (split pieces / match+groups)"""
    if kind == 'split':
        out = []
        pos = 0
        n = 0
        for m in rx.finditer(text):
            if maxsplit and n >= maxsplit:
                break
            out.append(('piece', pos, m.start()))
            for g in range(1, rx.groups + 1):
                out.append(('group', m.start(g), m.end(g)))
            pos = m.end()
            n += 1
        out.append(('piece', pos, len(text)))
        return out
    if kind == 'sub':
        out = []
        pos = 0
        n = 0
        for m in rx.finditer(text):
            if maxsplit and n >= maxsplit:
                break
            out.append(('piece', pos, m.start()))
            pos = m.end()
            n += 1
        out.append(('piece', pos, len(text)))
        return out
    if kind == 'findall':
        out = []
        for m in rx.finditer(text):
            if rx.groups == 0:
                out.append(('match', m.start(), m.end()))
            else:
                out.append(('tuple',) + tuple((m.start(g), m.end(g)) for g in range(1, rx.groups + 1)))
        return out
    if kind == 'finditer':
        return [[(m.start(g), m.end(g)) for g in range(0, rx.groups + 1)] for m in rx.finditer(text)]
    if kind in ('search', 'match', 'fullmatch'):
        m = getattr(rx, kind)(text)
        if m is None:
            return None
        return [(m.start(g), m.end(g)) for g in range(0, rx.groups + 1)]
    raise Unsupported('re.%s' % kind)


class Result:
    def __init__(self, spelling, spans, cuts, hazards):
        self.spelling = spelling
        self.spans = spans
        self.cuts = cuts
        self.hazards = hazards


def run(kind, pat, s, policy, flags=0, maxsplit=0):
    """match ``pat`` against the abstract string; returns Result (spans on the generic spelling)"""
    atoms = atoms_of(pat, flags)
    rx = re.compile(pat, flags)
    sp = Spelling(s, atoms, policy)
    spans = _spans(kind, rx, sp.text, maxsplit)
    hazards = []
    for si, p, others in sp.hazard_sites:
        for ch in others:
            v = Spelling(s, atoms, policy, variant=(si, p, ch))
            if _spans(kind, rx, v.text, maxsplit) != spans:
                where = 'first' if p == 0 else 'last' if p == sp.lens[si] - 1 else 'an interior'
                hazards.append((s.segs[si], '%s character %r' % (where, ch), v.text))
    return Result(sp, spans, [], hazards)


def spell_plain(s, policy, table):
    """spelling for positional search (str.index/rindex with an abstract needle): every distinct name is spelled
    with its own private character (equal names - equal text), numbers by the witness policy"""
    chars = []
    for sg in s.segs:
        if sg.kind == 'lit':
            chars.append(sg.text)
        elif sg.cls == 'num':
            chars.append(spell_number(sg, policy))
        else:
            key = sg.value if isinstance(sg.value, str) else repr(sg.value)
            if key not in table:
                table[key] = chr(0xE000 + len(table))
            chars.append(table[key] * (sg.width if sg.width is not None else 3))
    return ''.join(chars)
