"""Driver. Exit 0 = all armed rule instances hold (known findings printed),
1 = VIOLATION, 2 = ANALYSIS-ERROR (anchor vanished, construct outside the
accepted fragment, floor/canary failure, internal error)."""
import argparse
import importlib
import json
import os
import sys
import traceback
sys.setrecursionlimit(12000)

sys.path.insert(0, os.path.dirname(os.path.dirname(os.path.abspath(__file__))))

from pmv.report import Run, AnalysisError          # noqa: E402
from pmv.source import Repo, AnchorError, Unsupported  # noqa: E402


def main(argv=None):
    ap = argparse.ArgumentParser()
    ap.add_argument('prop')
    ap.add_argument('--tier', default=os.environ.get('VERIF_TIER') or 'quick',
                    choices=['quick', 'thorough'])
    ap.add_argument('--replay')
    ap.add_argument('--repo', default=os.environ.get('PMV_REPO', '/repo'))
    ap.add_argument('--no-selftest', action='store_true')
    args = ap.parse_args(argv)
    prop = args.prop.upper()
    try:
        seed = int(os.environ.get('VERIF_SEED', '0') or 0)
    except ValueError:
        seed = 0
    replay = None
    try:
        if args.replay:
            with open(args.replay) as fh:
                replay = json.load(fh)
            replay['_path'] = args.replay
        repo = Repo(args.repo)
        run = Run(prop, args.tier, seed, repo)
        try:
            mod = importlib.import_module('pmv.rules.%s' % prop.lower())
        except ImportError as e:
            raise AnalysisError('no rule module for %s (%s)' % (prop, e))
        mod.check(run, repo)
        # functions analysed = what the interpreter actually entered (names are not assumed, private helpers may be
        # renamed or moved without the evidence going stale)
        from pmv.xlate import VISITED
        run.fn(*sorted(VISITED))
        if args.tier == 'thorough' and not args.no_selftest and replay is None:
            from pmv.selftest import selftest
            selftest(run, repo, mod)
        code = run.finish(replay=replay)
    except (AnchorError, Unsupported, AnalysisError) as e:
        print('ANALYSIS-ERROR property=%s %s: %s' % (prop, type(e).__name__, e))
        return 2
    except Exception:
        traceback.print_exc()
        print('ANALYSIS-ERROR property=%s internal error in the checker' % prop)
        return 2
    return code


if __name__ == '__main__':
    sys.exit(main())
