"""Driver. Exit 0 = all armed rule instances hold (known findings printed),
1 = VIOLATION, 2 = ANALYSIS-ERROR (anchor vanished, construct outside the
accepted fragment, floor/canary failure, internal error)."""
import argparse
import importlib
import json
import os
import sys
import traceback
sys.setrecursionlimit(12000)

sys.path.insert(0, os.path.dirname(os.path.dirname(os.path.abspath(__file__))))

from pmv.report import Run, AnalysisError, FloorError          # noqa: E402
from pmv.source import Repo, AnchorError, Unsupported  # noqa: E402


def report_hazards(run, repo, log):
    """hazards the interpreter met anywhere in this run and that no rule turned into a finding of its own: a store of
    a real value into a buffer whose element type is taken from the caller's container (integer input truncates every
    stored value) breaks any property that compares the stored values with the model"""
    import ast as _ast
    seen = set()
    reported = {(f.relpath, f.line) for f in run.findings}
    for kind, node, rel, item in log:
        if kind == 'replace':
            ln = getattr(node, 'lineno', 0)
            if (rel, ln) in seen or (rel, ln) in reported:
                continue
            seen.add((rel, ln))
            m = [x for x in repo.modules.values() if x.relpath == rel]
            if m:
                from pmv.source import norm
                run.fail('EFFECT.replace-text', '%s:%s' % (m[0].name.split('.', 1)[-1], norm(node)[:50]),
                         'replace:%r' % (item[1],),
                         'str.replace(%r, ...) is applied to a text that contains user-supplied names or tokens whose '
                         'spelling may contain %r: those occurrences are rewritten as well' % (item[1], item[1]),
                         m[0], node)
            continue
        if kind != 'dtype':
            continue
        ln = getattr(node, 'lineno', 0)
        if (rel, ln) in seen or (rel, ln) in reported:
            continue
        seen.add((rel, ln))
        m = [x for x in repo.modules.values() if x.relpath == rel]
        if not m:
            continue
        fname = '?'
        for fn in _ast.walk(m[0].tree):
            if isinstance(fn, (_ast.FunctionDef, _ast.AsyncFunctionDef)) and fn.lineno <= ln <= (fn.end_lineno or ln):
                fname = fn.name
        from pmv.source import norm
        run.fail('TYPE.int-buffer', '%s.%s' % (m[0].name.split('.', 1)[-1], fname), 'store:' + norm(node)[:60],
                 'a computed (real) value is stored into an array whose element type is taken from a container the '
                 'caller supplies or is an integer type: with integer input the stored values are truncated',
                 m[0], node)


def check_placeholders(repo, log):
    """a formatted text the interpreter could not spell abstractly was replaced by a placeholder; that is harmless in
    the text of an exception or a warning and nowhere else"""
    import ast as _ast
    for rel, ln in sorted(set(log)):
        m = [x for x in repo.modules.values() if x.relpath == rel]
        if not m:
            continue
        fn = None
        for f in _ast.walk(m[0].tree):
            if isinstance(f, (_ast.FunctionDef, _ast.AsyncFunctionDef)) and f.lineno <= ln <= (f.end_lineno or ln):
                fn = f
        if fn is None:
            raise AnalysisError('a formatted text without abstract spelling at %s:%d (module level)' % (rel, ln))
        stmt = None
        for st in _ast.walk(fn):
            if isinstance(st, _ast.stmt) and st.lineno <= ln <= (st.end_lineno or st.lineno) and \
                    not isinstance(st, (_ast.FunctionDef, _ast.If, _ast.For, _ast.While, _ast.Try, _ast.With)):
                stmt = st

        def message_only(node):
            return isinstance(node, _ast.Raise) or (
                isinstance(node, _ast.Expr) and isinstance(node.value, _ast.Call) and
                _ast.unparse(node.value.func).split('.')[-1] in ('warn', 'warning', 'error', 'info', 'debug', 'print'))
        ok = stmt is not None and message_only(stmt)
        if not ok and isinstance(stmt, _ast.Assign) and len(stmt.targets) == 1 and isinstance(stmt.targets[0], _ast.Name):
            name = stmt.targets[0].id
            uses = [u for u in _ast.walk(fn) if isinstance(u, _ast.Name) and u.id == name and
                    isinstance(u.ctx, _ast.Load)]
            holders = [h for h in _ast.walk(fn) if isinstance(h, _ast.stmt) and message_only(h)]
            ok = bool(uses) and all(any(u in list(_ast.walk(h)) for h in holders) for u in uses)
        if not ok:
            raise AnalysisError('a formatted text the analysis cannot spell is used outside an exception or warning '
                                'message at %s:%d' % (rel, ln))


def run_rules(mod, run, repo):
    """the rule module of one property on one tree, plus what holds for every property (hazards, placeholders).
    A construct outside the interpreted fragment normally ends the analysis (exit 2); if violations that are not known
    findings were already established on other instances, those are what is reported - the rest of the module was not
    run, which is said in a note.  Returns True when the module ran to its end."""
    from pmv import xlate as _x
    _x.HAZARD_LOG[:] = []
    _x.PLACEHOLDER_LOG[:] = []
    complete = True
    try:
        mod.check(run, repo)
    except Unsupported as e:
        if not run.split_known()[0]:
            raise
        complete = False
        run.notes.append('the analysis stopped at a construct outside the interpreted fragment (%s); the violations '
                         'reported were established before that point, the remaining instances were not run' % e)
    except FloorError as e:
        # a floor that fails because calls raise everywhere: the violations that explain it are what is reported
        if not run.split_known()[0]:
            raise
        complete = False
        run.notes.append('%s; the violations reported explain the missing instances' % e)
    report_hazards(run, repo, _x.HAZARD_LOG)
    if complete and not run.split_known()[0]:
        check_placeholders(repo, _x.PLACEHOLDER_LOG)
    elif _x.PLACEHOLDER_LOG and complete:
        run.notes.append('a formatted text without abstract spelling was met (%s:%s); the violations reported do not '
                         'depend on it' % _x.PLACEHOLDER_LOG[0])
    return complete


def main(argv=None):
    ap = argparse.ArgumentParser()
    ap.add_argument('prop')
    ap.add_argument('--tier', default=os.environ.get('VERIF_TIER') or 'quick',
                    choices=['quick', 'thorough'])
    ap.add_argument('--replay')
    ap.add_argument('--repo', default=os.environ.get('PMV_REPO', '/repo'))
    ap.add_argument('--no-selftest', action='store_true')
    args = ap.parse_args(argv)
    prop = args.prop.upper()
    try:
        seed = int(os.environ.get('VERIF_SEED', '0') or 0)
    except ValueError:
        seed = 0
    replay = None
    try:
        if args.replay:
            with open(args.replay) as fh:
                replay = json.load(fh)
            replay['_path'] = args.replay
        repo = Repo(args.repo)
        run = Run(prop, args.tier, seed, repo)
        try:
            mod = importlib.import_module('pmv.rules.%s' % prop.lower())
        except ImportError as e:
            raise AnalysisError('no rule module for %s (%s)' % (prop, e))
        complete = run_rules(mod, run, repo)
        # functions analysed = what the interpreter actually entered (names are not assumed, private helpers may be
        # renamed or moved without the evidence going stale)
        from pmv.xlate import VISITED
        run.fn(*sorted(VISITED))
        if args.tier == 'thorough' and not args.no_selftest and replay is None and complete:
            from pmv.selftest import selftest
            selftest(run, repo, mod)
        code = run.finish(replay=replay)
    except (AnchorError, Unsupported, AnalysisError) as e:
        print('ANALYSIS-ERROR property=%s %s: %s' % (prop, type(e).__name__, e))
        return 2
    except Exception:
        traceback.print_exc()
        print('ANALYSIS-ERROR property=%s internal error in the checker' % prop)
        return 2
    return code


if __name__ == '__main__':
    sys.exit(main())
