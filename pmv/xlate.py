"""Syntax-directed abstract interpreter: Python AST -> normal forms (nf.Rat).

One abstract value per expression, no path conditions, no search: a test that
cannot be decided from concrete abstract values (strings, None, booleans,
list lengths) or from the *ordering oracle* supplied by the rule makes the
instance ``Unsupported`` (exit 2), never a guess.

Abstract values
  Rat            scalar (exact rational function over atoms)
  str/None/bool  concrete python values
  ListV          python list / 1-D or 2-D ndarray of known length
  Elem           ndarray of unknown length, given by its generic element
  SumV           scalar + sum over the generic element (np.sum of an Elem)
  Obj            symbolic object (self, a species, ...) with lazily created
                 attribute atoms; methods are inlined through the MRO
  Raised         the path ends in ``raise``
"""
import ast
import re
from fractions import Fraction as Fr

from . import nf
from .nf import Rat, Poly, C, PyFloat, as_pyfloat
from .source import Unsupported, AnchorError, Module, ClassInfo, params, body_wo_doc
from .fold import token_num, fold_num
from .absstr import SegStr, Seg, Cut, parse_format, spec_width, to_segstr


class ListV:
    def __init__(self, items):
        self.items = list(items)

    def __len__(self):
        return len(self.items)

    def __repr__(self):
        return 'ListV(%r)' % (self.items,)


EXC_BASES = {}      # exception classes defined in the analysed package: name -> names of its bases (Interp fills it)


def exc_matches(exc, names):
    """does an exception of class ``exc`` (a name) match an except/suppress specification (names)?  Built-in classes
    follow Python's hierarchy (KeyError is a LookupError, IOError is OSError); a class of the package is also what its
    bases are (class IncompatibleUnitsError(ValueError) is caught by `except ValueError`)"""
    import builtins as _b
    anc, todo = [], [exc.split('.')[-1]]
    while todo:
        x = todo.pop()
        if x not in anc:
            anc.append(x)
            todo.extend(b_.split('.')[-1] for b_ in EXC_BASES.get(x, ()))
    for nm in names:
        short = nm.split('.')[-1]
        if short in anc:
            return True
        c_ = getattr(_b, short, None)
        for x in anc:
            e_ = getattr(_b, x, None)
            if isinstance(e_, type) and isinstance(c_, type) and issubclass(e_, BaseException) and issubclass(e_, c_):
                return True
    return False


def _leaves(v, out):
    for x in v.items:
        if isinstance(x, ListV):
            _leaves(x, out)
        else:
            out.append(x)
    return out


class ViewItems(list):
    """the entries of a basic slice of a numpy array (a[1:3], a[:, j]): numpy hands out a VIEW, so what is stored into it
    is stored into the array it was cut from.  ``sinks[k]`` = (container ListV, position) of entry k in the base."""

    def __init__(self, sinks):
        list.__init__(self, [c_.items[i_] for c_, i_ in sinks])
        self.sinks = list(sinks)

    def __setitem__(self, k, v):
        if isinstance(k, slice):
            ks = list(range(*k.indices(len(self))))
            vs = list(v)
            if len(ks) != len(vs):
                raise Unsupported('resizing store into a view of an array')
            for k_, v_ in zip(ks, vs):
                self[k_] = v_
            return
        list.__setitem__(self, k, v)
        c_, i_ = self.sinks[k]
        c_.items[i_] = v
        sync_reshape(c_)


def sync_reshape(arr):
    """numpy's reshape hands out a view: what is stored into the reshaped array (or one of its rows) is stored into
    the array it was made from"""
    root = getattr(arr, 'reshape_root', arr)
    base = getattr(root, 'reshape_of', None)
    if base is None:
        return
    flat = _leaves(root, [])
    pos = [0]

    def fill(v):
        for k, x in enumerate(v.items):
            if isinstance(x, ListV):
                fill(x)
            else:
                v.items[k] = flat[pos[0]]
                pos[0] += 1
    fill(base)
    sync_reshape(base)


def unhashable(v):
    """a value Python refuses as a set member / dictionary key: a dict, a list, a set, an array, an instance of a class
    that defines __eq__ without __hash__ (CPython then sets __hash__ = None; subclasses inherit it), a tuple holding one"""
    if isinstance(v, DictV):
        return True
    if isinstance(v, ListV):
        if getattr(v, 'is_tuple', False) or getattr(v, 'frozen', False):
            return any(unhashable(x) for x in v.items) if getattr(v, 'is_tuple', False) else False
        if is_iter(v):
            return False
        return True
    if isinstance(v, Obj) and v.ci is not None:
        for k in v.ci.mro:
            if '__hash__' in k.methods:
                return False
            if '__hash__' in k.class_attrs:
                nd = k.class_attrs['__hash__']
                return isinstance(nd, ast.Constant) and nd.value is None
            if '__eq__' in k.methods:
                return True
            if any(d.split('(')[0].split('.')[-1] == 'dataclass' for d in k.decorators):
                d_ = next(d for d in k.decorators if d.split('(')[0].split('.')[-1] == 'dataclass')
                if 'frozen=True' in d_.replace(' ', '') or 'unsafe_hash=True' in d_.replace(' ', ''):
                    return False
                return 'eq=False' not in d_.replace(' ', '')
    return False


def make_set(I, items, n=None):
    """a set of hashable abstract values: strings and decided-distinct numbers, insertion order kept"""
    out = []
    for x in items:
        px = I.plain(x) if isinstance(x, (str,)) or type(x).__name__ == 'SegStr' else x
        dup = False
        for y in out:
            if isinstance(px, str) or isinstance(y, str):
                same_ = isinstance(px, str) and isinstance(y, str) and px == y
            elif isinstance(px, Rat) and isinstance(y, Rat):
                d_ = px - y
                if d_.iszero():
                    same_ = True
                elif d_.is_const():
                    same_ = False
                else:
                    raise Unsupported('set of symbolic numbers (equality undecided)', n)
            elif isinstance(px, bool) or isinstance(y, bool) or px is None or y is None:
                same_ = px is y
            elif isinstance(px, ListV) and isinstance(y, ListV):
                same_ = repr(px) == repr(y)
            else:
                same_ = px is y
            dup = dup or same_
        if not dup:
            if unhashable(px):
                raise _RaisedExc(Raised('TypeError', n))            # unhashable
            out.append(px)
    r_ = ListV(out)
    r_.is_set = True
    return r_


def is_iter(v):
    """a one-shot iterator (generator object, iter(...), zip/map object): what has been taken from it is gone"""
    return isinstance(v, ListV) and (getattr(v, 'is_iterator', False) or getattr(v, 'is_generator', False))


def check_sources(v):
    """a generator over a file runs when it is consumed: if the file has been closed by then, reading it raises"""
    srcs = getattr(v, 'sources', None)
    if srcs and any(s_.attrs.get('__closed__') for s_ in srcs) and (v.items or not getattr(v, 'touched', False)):
        raise _RaisedExc(Raised('ValueError'))              # I/O operation on closed file
    if is_iter(v):
        v.touched = True


def take(v, n=None):
    """the next n (default: all remaining) items of a ListV; an iterator loses them"""
    if getattr(v, 'tainted', False):
        raise Unsupported('an iterator whose position is not known (it was partly consumed through a generator)')
    check_sources(v)
    items = list(v.items) if n is None else list(v.items[:n])
    if is_iter(v):
        del v.items[:len(items)]
    return items


class Elem:
    """vector of unknown length; ``r`` is its generic element (Rat or ListV row)"""

    def __init__(self, r):
        self.r = r

    def __repr__(self):
        return 'Elem(%r)' % (self.r,)


class SuperV:
    """super() kept as a value: attribute access resolves after ``owner`` in the MRO of ``self_obj``"""

    def __init__(self, self_obj, owner):
        self.self_obj = self_obj
        self.owner = owner


class MaskV:
    """element-wise boolean mask over a data vector of unknown length: a conjunction of comparisons
    [(op, left, right)] (left/right: the generic element of a vector, or a scalar)"""

    def __init__(self, terms):
        self.terms = list(terms)

    def __repr__(self):
        return 'MaskV(%s)' % ' & '.join('%r %s %r' % (a, o, b) for o, a, b in self.terms)


class VecItem:
    """item appended to a list inside a loop over an Elem"""

    def __init__(self, r):
        self.r = r


class SumV:
    def __init__(self, scalar, elem):
        self.scalar = scalar
        self.elem = elem

    def __repr__(self):
        return 'SumV(%r + SUM %r)' % (self.scalar, self.elem)


class Raised:
    def __init__(self, exc, node=None, args=None):
        self.exc = exc
        self.node = node
        self.args = args       # evaluated constructor arguments (None: not known)

    def __repr__(self):
        return 'Raised(%s)' % self.exc


class Obj:
    def __init__(self, name, ci=None, attrs=None, vec_attrs=(), opaque_methods=None, closed=False):
        self.name = name
        self.closed = closed         # True: only attributes that were assigned exist
        self.ci = ci
        self.attrs = dict(attrs or {})
        self.vec_attrs = set(vec_attrs)
        self.opaque_methods = opaque_methods or {}
        self.opaque_params = {}      # opaque method name -> tuple of expected parameter names
        self.missing = set()         # attribute names the object does not have (AttributeError)
        self.isa = set()             # class names an opaque object is an instance of
        self.writes = []

    def __repr__(self):
        return 'Obj(%s)' % self.name


class FuncRef:
    def __init__(self, module, fn, self_obj=None, owner=None, closure=None, defaults=None, frame_self=None):
        self.module = module
        self.fn = fn
        self.self_obj = self_obj
        self.owner = owner
        self.closure = closure          # scope of the enclosing function (lambda / nested def), by reference
        self.defaults = defaults        # {parameter: value} evaluated when the def / lambda was executed
        self.frame_self = frame_self    # `self` of the enclosing method (for super() inside a nested function)


class _FrozenTable(dict):
    """a snapshot handed out where Python hands out a live view: reading is exact, a write through it is refused"""

    def _no(self, *a, **k):
        raise Unsupported('write through __dict__ of an object with __slots__')
    __setitem__ = __delitem__ = pop = popitem = setdefault = update = clear = _no


class PropertyV:
    """what the builtin ``property(fget, fset)`` returns when it is called as an ordinary function (e.g. inside a
    factory): the two functions, with their closures"""

    def __init__(self, fget, fset):
        self.fget, self.fset = fget, fset


class Env(dict):
    """local scope of a nested function / lambda, chained to the scope it was defined in (reads fall through to the
    enclosing scope, writes stay local - Python's closure rules without ``nonlocal``)"""

    def __init__(self, parent, local=None):
        dict.__init__(self, local or {})
        self.parent = parent

    def __contains__(self, k):
        return dict.__contains__(self, k) or k in self.parent

    def __getitem__(self, k):
        if dict.__contains__(self, k):
            return dict.__getitem__(self, k)
        return self.parent[k]

    def get(self, k, d=None):
        return self[k] if k in self else d

    def keys(self):
        return list(dict.keys(self)) + [k for k in self.parent.keys() if not dict.__contains__(self, k)]

    def __iter__(self):
        return iter(self.keys())

    def items(self):
        return [(k, self[k]) for k in self.keys()]

    def values(self):
        return [self[k] for k in self.keys()]

    def __len__(self):
        return len(self.keys())

    def pop(self, k, *d):
        if dict.__contains__(self, k):
            return dict.pop(self, k)
        if d:
            return d[0]
        raise KeyError(k)


class DictV:
    def __init__(self, d=None):
        self.d = dict(d or {})
        self.keyobj = {}          # normalised key -> original key value (abstract strings, numbers)

    def nkey(self, k):
        """hashable normal form of a key; remembers the original"""
        if isinstance(k, (str, int)) and not isinstance(k, bool):
            return k
        if unhashable(k):
            raise _RaisedExc(Raised('TypeError'))           # unhashable type
        nk = repr(k)
        if isinstance(k, Rat) and nk not in self.keyobj:
            # a number as key: whether it is one of the numbers already there must be decided, not assumed
            for ok_, ov_ in self.keyobj.items():
                if isinstance(ov_, Rat) and ok_ in self.d:
                    d_ = k - ov_
                    if d_.iszero():
                        return ok_
                    if not d_.is_const():
                        I_ = CUR_INTERP[0]
                        same_ = I_.order(k, '==', ov_) if I_ is not None and I_.order is not None else None
                        if same_ is True:
                            return ok_
                        if same_ is None:
                            raise Unsupported('dictionary keys: equality of symbolic numbers %r and %r undecided'
                                              % (k, ov_))
            for ok_ in self.d:
                if isinstance(ok_, int) and not isinstance(ok_, bool):
                    d_ = k - C(ok_)
                    if d_.iszero():
                        return ok_
                    if not d_.is_const():
                        I_ = CUR_INTERP[0]
                        same_ = I_.order(k, '==', C(ok_)) if I_ is not None and I_.order is not None else None
                        if same_ is True:
                            return ok_
                        if same_ is None:
                            raise Unsupported('dictionary keys: equality of the symbolic number %r and %r undecided'
                                              % (k, ok_))
        self.keyobj[nk] = k
        return nk

    def okey(self, nk):
        return self.keyobj.get(nk, nk)


class HazardList(list):
    """a list of hazards of one kind that also feeds the process-wide log (main.py checks that every kind met in a run
    was consumed by the rule or is reported)"""

    def __init__(self, kind):
        list.__init__(self)
        self.kind = kind

    def append(self, item):
        list.append(self, item)
        rel = item[1] if self.kind in ('dtype', 'underflow') else CUR_REL[0]
        HAZARD_LOG.append((self.kind, item[0], rel, item))


def _hazard_property(kind):
    attr = '_hz_' + kind

    def getter(self):
        return getattr(self, attr)

    def setter(self, value):
        hl = HazardList(kind)
        list.extend(hl, value)
        setattr(self, attr, hl)
    return property(getter, setter)


CUR_NODE = [None]       # the statement being interpreted
CUR_INTERP = [None]     # the interpreter at work (for decisions taken below the frame level: dictionary keys)
CUR_REL = [None]        # file of the statement being interpreted (for hazards recorded below the frame level)


class KwSeen(dict):
    """keyword arguments handed to a library model: remembers which ones the model looked at, so that an argument
    the model does not know (np.max(..., initial=0.)) stops the analysis instead of being dropped silently"""

    def __init__(self, d):
        dict.__init__(self, d)
        self.seen = set()

    def get(self, k, d=None):
        self.seen.add(k)
        return dict.get(self, k, d)

    def __getitem__(self, k):
        self.seen.add(k)
        return dict.__getitem__(self, k)

    def __contains__(self, k):
        self.seen.add(k)
        return dict.__contains__(self, k)

    def pop(self, k, *d):
        self.seen.add(k)
        return dict.pop(self, k, *d)

    def _all(self):
        self.seen.update(dict.keys(self))

    def items(self):
        self._all()
        return dict.items(self)

    def keys(self):
        self._all()
        return dict.keys(self)

    def values(self):
        self._all()
        return dict.values(self)

    def __iter__(self):
        self._all()
        return dict.__iter__(self)

    def copy(self):
        self._all()
        return dict(self)


# keyword arguments of library functions that have no influence on the abstract value (stated one by one)
NATIVE_KW_IGNORED = {
    'collections.namedtuple': None, 'dataclasses.replace': None,
    'warnings.warn': {'stacklevel'},
    'numpy.isclose': {'equal_nan'}, 'numpy.allclose': {'equal_nan'},
    'scipy.optimize.minimize': None,       # the solver is uninterpreted: rules look at what it is given
    'scipy.optimize.curve_fit': None,
    'numpy.linalg.lstsq': None,
    'pandas.read_excel': None,
    'yaml.dump': None,
}


class _Return(Exception):
    def __init__(self, value):
        self.value = value


class _Break(Exception):
    pass


class _Continue(Exception):
    pass


class _RaisedExc(Exception):
    def __init__(self, raised):
        self.raised = raised


BUILTIN_EXC = {'RuntimeWarning', 'UserWarning', 'DeprecationWarning', 'Warning', 'FutureWarning',
               'ValueError', 'KeyError', 'TypeError', 'AttributeError', 'RuntimeError',
               'NotImplementedError', 'IndexError', 'Exception', 'ZeroDivisionError',
               'NameError', 'UnboundLocalError', 'AssertionError', 'StopIteration', 'LookupError', 'ArithmeticError',
               'OSError', 'IOError', 'FileNotFoundError'}


# decorators whose effect on calls is modelled (binding of methods, memoisation) or nil (metadata, abstractness)
KNOWN_DECORATORS = frozenset(('classmethod', 'staticmethod', 'property', 'lru_cache', 'cache', 'abstractmethod',
                              'wraps', 'override', 'final', 'no_type_check', 'cached_property'))      # the typing markers change nothing
FILE_METHODS = frozenset(a_ for a_ in dir(__import__('io').TextIOWrapper) if not a_.startswith('__'))
LOCAL_IMPORTS = '\x00imports'      # key of the per-scope table of function-local imports
PLACEHOLDER_LOG = []     # where a formatted text had no abstract spelling and was replaced by a placeholder
HAZARD_LOG = []      # (kind, node, relpath): every hazard any interpreter of this process recorded (see main.py)
VISITED = set()      # qualified names of every function of the analysed package that was interpreted in this process
COVER = None         # development aid (tools/coverage.py): set of (module name, line) of the statements interpreted
ARGCOVER = None      # development aid: (module name, function line) -> {parameter: set of values it was bound to}


def unknown_decorators(fn):
    """the decorators of a def that are not among those whose effect on calls is modelled directly"""
    out = []
    for d_ in getattr(fn, 'decorator_list', None) or ():
        dn = ast.unparse(d_.func if isinstance(d_, ast.Call) else d_)
        if not (dn.split('.')[-1] in KNOWN_DECORATORS or
                (dn.split('.')[-1] in ('setter', 'getter', 'deleter') and '.' in dn)):
            out.append(dn)
    return out


def own_nodes(fn):
    """the nodes of a function's own body, without the bodies of functions, lambdas and classes nested in it"""
    stack = list(fn.body) if isinstance(fn.body, list) else [fn.body]
    while stack:
        nd = stack.pop()
        if isinstance(nd, (ast.FunctionDef, ast.AsyncFunctionDef, ast.Lambda, ast.ClassDef)):
            continue                    # a nested def / class: its body is not this function's
        yield nd
        for ch in ast.iter_child_nodes(nd):
            stack.append(ch)


def numeric_table(module, node):
    """a dict literal with string keys whose values are numeric constant expressions (numbers, arithmetic over
    numbers and module constants such as Na)"""
    if not node.keys or not all(k is None or (isinstance(k, ast.Constant) and isinstance(k.value, str))
                                for k in node.keys):
        return False

    def numeric(v):
        if isinstance(v, ast.Constant):
            return isinstance(v.value, (int, float)) and not isinstance(v.value, bool)
        if isinstance(v, ast.BinOp):
            return numeric(v.left) and numeric(v.right)
        if isinstance(v, ast.UnaryOp):
            return numeric(v.operand)
        return isinstance(v, (ast.Name, ast.Attribute))
    return all(numeric(v) for k, v in zip(node.keys, node.values) if k is not None) and \
        sum(1 for k in node.keys if k is not None) >= 1


def unit_table(repo):
    """(module, variable name, ast.Dict) of the table of conversion factors: the numeric dict literal that the
    public ``pmutt.constants.convert_unit`` consults - found by following its code, wherever a refactoring keeps it"""
    m = repo.module('pmutt.constants')
    fn = m.functions.get('convert_unit')
    if fn is None:
        raise AnchorError('pmutt.constants.convert_unit not found')
    cands = [(tm, nm, nd) for tm, nm, nd in repo.reached_tables(m, fn) if numeric_table(tm, nd)]
    if not cands:
        raise AnchorError('no table of conversion factors is reached from pmutt.constants.convert_unit')
    # several numeric tables (e.g. prefixes): the conversion factors are the one with the energy and length units
    cands.sort(key=lambda c_: -sum(1 for k in c_[2].keys if k is not None and
                                   k.value in ('J', 'kJ', 'eV', 'm', 'cm', 'bar', 'Pa', 's')))
    return cands[0]


class Interp:
    cuts = _hazard_property('cut')
    hazards = _hazard_property('text')
    dtype_hazards = _hazard_property('dtype')
    replace_hazards = _hazard_property('replace')
    underflow_hazards = _hazard_property('underflow')
    re_hazards = _hazard_property('regex')
    def __init__(self, repo, domain=None, order=None, max_depth=32):
        self.repo = repo
        self.D = domain or nf.Domain()
        self.order = order            # callable(left Rat, op str, right Rat) -> bool|None
        self.max_depth = max_depth
        self.memo = {}                # results of functions decorated with functools.lru_cache / cache
        self.data_kind = {}           # atoms that stand for user data (see fitmodel): atom -> generic/const/nan
        self.global_vars = {}         # (module, name) -> value assigned through a ``global`` statement
        self.depth = 0
        self.stack = []               # ids of the FunctionDefs being inlined (recursion guard)
        self.warnings = []
        self.positive_syms = set() # further atoms the rule declares positive (a second temperature ...)
        self.decorated = {}        # id(def) -> what its (user-defined) decorators made of it
        self.lazy_atoms = set()    # atoms created for attributes an open object was never given
        self.np_syms = {}          # atom name -> 'int64' | 'float32' | 'float64': symbols the rule declares numpy scalars
        self.suppressed_warnings = []       # warnings.warn calls that a filter in force turned into nothing
        self.warn_filters = []              # newest first, like warnings.filters
        self.calls = []               # inlined (qualname) trace
        self.native = dict(NATIVE)
        self.opaque_funcs = {}        # qualified function name -> handler(interp, args, kwargs)
        self.unit_one = None          # set of unit strings whose table factor is exactly 1
        self.table_atoms = None       # when a dict: numeric dict literals become atoms
        self.table_names = {}         # id(ast.Dict) -> canonical table name used in atom names (rules set it)
        self.table_env = {}
        self._table_cache = {}
        self.integrals = {}
        self.n_objects = 0
        self.default_cache = {}
        self._is_gen = {}
        self.module_globals = {}      # (module, node id) -> shared mutable module-level container
        EXC_BASES.clear()
        for ci_ in repo.all_classes():
            if ci_.base_exprs and ci_.name not in EXC_BASES:
                EXC_BASES[ci_.name] = list(ci_.base_exprs)
        self.evaluating = set()       # ids of module-level right-hand sides being evaluated (X = f(X))
        self.eq_depth = 0
        self.class_patches = {}       # (class, name) -> what a class decorator bound under that name in the class
        self.classes_ready = set()    # classes whose decorators have been applied in this interpreter
        self.func_attrs = {}          # (def node id, closure id, name) -> attribute stored on a function object
        self.sym_strings = {}         # placeholder python str -> (width, cls): symbolic text values
        self.num_widths = {}          # repr(Rat) -> printed width of that number under %d / %.1f / str()
        self.cuts = []                # (node, text) operations that cut through a symbolic field
        self.hazards = []             # (node, text) substring tests whose outcome depends on user text
        self.token_syms = {'units'}  # symbols that stand for a text left open by the rule (unit strings)
        self.track_print_precision = False   # rules that read numbers back from printed text switch this on
        self.printed = {}            # PRINTED{spec}{value} atom -> (format spec, value that was printed)
        self.int_syms = set()        # symbols a rule declares to stand for Python ints (isinstance, np dtype)
        self.dtype_hazards = []      # stores of real values into buffers typed like a caller's container
        self.replace_hazards = []    # (node, old, field, remaining count): str.replace may reach into user text
        self.generic_point = False   # decide == of non-identical symbolic numbers as False (generic values)
        self.underflow_hazards = []  # (node, file, factor): np.log of a product over a vector of unknown length
        self.real_checked = set()    # root atoms that went through np.isreal
        self.re_hazards = []         # (node, pattern, field, what, spelling): regex outcome depends on user text
        from .absre import NumPolicy
        self.num_policy = NumPolicy()
        self.files = {}               # file name -> list of abstract lines
        self.opaque_classes = {}      # class qual -> handler(interp, frame, args, kwargs)
        self.extrema = {}             # MAX{..}/MIN{..} atom -> list of argument values
        self.roots = {}               # root atom -> polynomial coefficients (highest power first)
        self.prefixes = None

    # ------------------------------------------------------------------
    # units model (verified against the literal tables by C12)
        self._install_module_filters()

    def _unit_tables(self):
        if self.unit_one is not None:
            return
        cached = getattr(self.repo, '_unit_tables_cache', None)
        if cached is not None:
            # folded once per repository index (the tables are source literals)
            self.unit_one, self.unit_pow10, self.prefixes = set(cached[0]), dict(cached[1]), dict(cached[2])
            return
        self._fold_unit_tables()
        self.repo._unit_tables_cache = (set(self.unit_one), dict(self.unit_pow10), dict(self.prefixes))

    def _fold_unit_tables(self):
        m = self.repo.module('pmutt.constants')
        fn = m.functions.get('convert_unit')
        if fn is None:
            raise AnchorError('pmutt.constants.convert_unit not found')
        um, _uname, ud = unit_table(self.repo)
        self.unit_one = set()
        self.unit_pow10 = {}
        from .fold import fold_table
        try:
            entries = fold_table(um, ud, {'Na': fold_num(um, um.assigns['Na'][-1])} if 'Na' in um.assigns else None)
        except Unsupported:
            entries = []
            for k, v in zip(ud.keys, ud.values):
                try:
                    entries.append((k.value if isinstance(k, ast.Constant) else None, fold_num(um, v), v))
                except Unsupported:
                    continue
        for key_, num, _v in entries:
            if isinstance(key_, str) and num.exact and num.v == 1:
                self.unit_one.add(key_)
        self.prefixes = {}
        if 'prefixes' in m.assigns and isinstance(m.assigns['prefixes'][-1], ast.Dict):
            pd = m.assigns['prefixes'][-1]
            for k, v in zip(pd.keys, pd.values):
                if isinstance(k, ast.Constant):
                    self.prefixes[k.value] = fold_num(m, v).v

    def unit(self, u):
        """factor atom of a unit string (number of u per SI unit)."""
        self._unit_tables()
        if not isinstance(u, str):
            raise Unsupported('symbolic unit string in unit factor')
        out = C(1)
        for part in u.split(' '):
            base = part
            if base.endswith('/mol') and base[:-4] in ('J', 'kJ', 'cal', 'kcal'):
                base = base[:-4]
            if base in self.unit_one:
                continue
            out = out * self.D.sym('U<%s>' % base)
        return out

    # ------------------------------------------------------------------
    def _bind(self, module, fn, args, kwargs, self_obj, owner, name, preset=None):
        # the bound exists to stop runaway recursion only: extracting helpers makes call chains longer without
        # changing behaviour, so the limit is on re-entering the same function, with a generous overall ceiling
        if self.depth >= self.max_depth or self.stack.count(id(fn)) >= 6:
            raise Unsupported('inlining depth exceeded at %s' % (name or fn.name))
        names, defaults, vararg, kwarg = params(fn)
        env = {}
        if self_obj is not None:
            first = (fn.args.posonlyargs + fn.args.args)[0].arg
            if isinstance(self_obj, ClassInfo):
                env[first] = self_obj
            elif isinstance(self_obj, Obj) and any(ast.unparse(d) == 'classmethod' for d in fn.decorator_list):
                env[first] = self_obj.ci
            else:
                env[first] = self_obj
        args = list(args)
        kwargs = dict(kwargs)
        pos_names = [x.arg for x in fn.args.posonlyargs + fn.args.args]
        if self_obj is not None:
            pos_names = pos_names[1:]
        for n_, v in zip(pos_names, args):
            env[n_] = v
        if len(args) > len(pos_names):
            if vararg:
                env[vararg] = ListV(args[len(pos_names):])
                env[vararg].is_tuple = True
            else:
                raise _RaisedExc(Raised('TypeError', fn))
        extra = {}
        for k, v in kwargs.items():
            if k in names:
                if k in env:
                    raise _RaisedExc(Raised('TypeError', fn))
                env[k] = v
            elif kwarg:
                extra[k] = v
            else:
                raise _RaisedExc(Raised('TypeError', fn))
        if kwarg:
            env[kwarg] = DictV(extra)
        if vararg and vararg not in env:
            env[vararg] = ListV([])
            env[vararg].is_tuple = True
        for n_ in names:
            if n_ not in env:
                if preset is not None and n_ in preset:
                    env[n_] = preset[n_]
                elif n_ in defaults:
                    dk = (id(fn), n_)
                    if dk not in self.default_cache:
                        env0 = {}
                        if owner is not None and isinstance(owner, ClassInfo) and fn in owner.node.body:
                            # defaults are evaluated while the class body runs: names bound above the def are seen
                            for nm in ast.walk(defaults[n_]):
                                if isinstance(nm, ast.Name) and nm.id in owner.class_attrs and \
                                        owner.class_attrs[nm.id].lineno < fn.lineno:
                                    env0[nm.id] = Frame(self, owner.module, {}, owner, None).ev(
                                        owner.class_attrs[nm.id])
                        self.default_cache[dk] = Frame(self, module, env0, owner, None).ev(defaults[n_])
                    env[n_] = self.default_cache[dk]     # evaluated once, shared by every call (Python semantics)
                else:
                    raise _RaisedExc(Raised('TypeError', fn))
        return env

    def sign_of(self, value):
        """sign of a printed number where the rule fixed it for this run (``sign_policy``: 'nonnegative' /
        'negative' for every symbolic number), else None"""
        pol = getattr(self, 'sign_policy', None)
        if pol is None or not isinstance(value, Rat) or value.is_const() or value.iszero():
            return None
        return pol == 'nonnegative'

    def filter_text_is_foreign(self, text):
        cache = self.repo.__dict__.setdefault('_foreign_filter_text', {})       # a function of the sources only
        if text not in cache:
            head = text.lower()[:12]
            skip = set()
            found = False
            for m in self.repo.modules.values():
                for nd in ast.walk(m.tree):
                    if isinstance(nd, ast.Call) and isinstance(nd.func, (ast.Name, ast.Attribute)) and \
                            (nd.func.id if isinstance(nd.func, ast.Name) else nd.func.attr) in ('filterwarnings',
                                                                                                  'simplefilter'):
                        for a in ast.walk(nd):
                            skip.add(id(a))
                for nd in ast.walk(m.tree):
                    if isinstance(nd, ast.Constant) and isinstance(nd.value, str) and id(nd) not in skip and \
                            (head in nd.value.lower() or ' ' in nd.value.strip() and
                             head.startswith(nd.value.lower().lstrip()[:12])):
                        found = True
            cache[text] = not found
        return cache[text]

    def _install_module_filters(self):
        """warnings.filterwarnings / simplefilter calls at module level of the analysed package act process-wide from
        import on: they are part of the state every function runs in"""
        def module_level(body):
            # statements run at import, incl. those under a module-level if / try / with: a filter installed under a
            # condition is taken as installed (whether the condition holds depends on how the interpreter was started)
            for st_ in body:
                yield st_
                if isinstance(st_, (ast.If, ast.Try, ast.With)):
                    for attr_ in ('body', 'orelse', 'finalbody'):
                        yield from module_level(getattr(st_, attr_, None) or [])
                    for h_ in getattr(st_, 'handlers', None) or []:
                        yield from module_level(h_.body)
        FILTER_API = ('filterwarnings', 'simplefilter', 'resetwarnings', 'filters')

        def touches_filters(node, m, depth=0):
            """does running this statement (or a helper of the same module it calls) reach the warnings filter API?"""
            for nd in ast.walk(node):
                if isinstance(nd, ast.Attribute) and isinstance(nd.value, ast.Name):
                    al = m.aliases.get(nd.value.id)
                    if al and al[0] == 'module' and al[1] == 'warnings' and nd.attr in FILTER_API:
                        return True
                elif isinstance(nd, ast.Name):
                    al = m.aliases.get(nd.id)
                    if al and al[0] == 'object' and al[1] == 'warnings' and al[2] in FILTER_API:
                        return True
                    if nd.id in m.functions and depth < 4 and touches_filters(m.functions[nd.id], m, depth + 1):
                        return True
            return False

        def direct(st, m):
            f = st.value.func
            if isinstance(f, ast.Attribute) and isinstance(f.value, ast.Name):
                al = m.aliases.get(f.value.id)
                return bool(al and al[0] == 'module' and al[1] == 'warnings')
            if isinstance(f, ast.Name):
                al = m.aliases.get(f.id)
                return bool(al and al[0] == 'object' and al[1] == 'warnings')
            return False
        for m in self.repo.modules.values():
            body = list(m.tree.body)
            for st in m.tree.body:
                if isinstance(st, ast.ClassDef):
                    body.extend(x for x in st.body if not isinstance(x, (ast.FunctionDef, ast.AsyncFunctionDef)))
            for st in module_level(body):
                # code run at import that is not a bare filter call (loops, calls of helpers of the module, statements
                # of a class body) is executed for what it does to the filter list; the walk only selects it
                if (isinstance(st, (ast.For, ast.While)) or
                        (isinstance(st, ast.Expr) and isinstance(st.value, ast.Call) and not direct(st, m))) and \
                        touches_filters(st, m):
                    Frame(self, m, {}, None, None).exec_stmt(st)
                    continue
                if not (isinstance(st, ast.Expr) and isinstance(st.value, ast.Call)):
                    continue
                f = st.value.func
                name = None
                if isinstance(f, ast.Attribute) and isinstance(f.value, ast.Name):
                    al = m.aliases.get(f.value.id)
                    if al and al[0] == 'module' and al[1] == 'warnings':
                        name = f.attr
                elif isinstance(f, ast.Name):
                    al = m.aliases.get(f.id)
                    if al and al[0] == 'object' and al[1] == 'warnings':
                        name = al[2]
                if name not in ('filterwarnings', 'simplefilter'):
                    continue
                fr = Frame(self, m, {}, None, None)
                args = [fr.ev(a_) for a_ in st.value.args]
                kwargs = {k_.arg: fr.ev(k_.value) for k_ in st.value.keywords}
                _add_filter(self, args, kwargs, st, name == 'simplefilter')

    def eval_global(self, m, node):
        """the value a module-level binding creates, once per interpreter (at import in Python)"""
        key = (m.name, id(node))
        if key not in self.module_globals:
            if id(node) in self.evaluating:
                raise Unsupported('module-level name defined in terms of itself')
            self.evaluating.add(id(node))
            try:
                self.module_globals[key] = Frame(self, m, {}, None, None).ev(node)
            finally:
                self.evaluating.discard(id(node))
        return self.module_globals[key]

    def table_revised(self, m, node):
        """name of the module-level table `node` when statements run at import, other than its binding and the
        recognised `name.update({literal})`, mention it; None when the literal (plus those updates) is the table"""
        key = ('revised', m.name, id(node))
        if key in self.module_globals:
            return self.module_globals[key]
        names = [nm for nm, vals in m.assigns.items() if vals and vals[-1] is node]
        out = None
        if names:
            nm = names[0]
            known = set()
            for u_ in m.updates.get(nm, []):
                known.add(id(u_))

            def stmts(body):
                for st in body:
                    if isinstance(st, (ast.FunctionDef, ast.AsyncFunctionDef, ast.ClassDef)):
                        continue
                    yield st
            for st in stmts(m.tree.body):
                if isinstance(st, (ast.Assign, ast.AnnAssign)) and getattr(st, 'value', None) is node:
                    continue
                if isinstance(st, ast.Expr) and isinstance(st.value, ast.Call) and st.value.args and \
                        id(st.value.args[0]) in known:
                    continue
                if any(isinstance(x, ast.Name) and x.id == nm for x in ast.walk(st)):
                    out = nm
                    break
        self.module_globals[key] = out
        return out

    def module_body(self, m, n=None):
        """the names a module's body leaves behind, from running it once per interpreter (imports, defs and classes are
        resolved through the index as everywhere else)"""
        key = (m.name, '<body>')
        if key not in self.module_globals:
            fr = Frame(self, m, {}, None, None)
            self.module_globals[key] = fr.env
            for st in m.tree.body:
                if isinstance(st, (ast.Import, ast.ImportFrom, ast.FunctionDef, ast.AsyncFunctionDef, ast.ClassDef)):
                    continue
                if isinstance(st, ast.Expr) and isinstance(st.value, ast.Constant):
                    continue
                fr.exec_stmt(st)
        return self.module_globals[key]

    def parsed_number(self, field, how='float'):
        """the number read back from a printed value: the value itself when the format loses nothing (an integer
        printed with d), otherwise the value as rounded by that format - a different number, named by the format"""
        v, spec = field.value, (field.spec or '')
        if not self.track_print_precision:
            return v
        plain = spec.lstrip('%').lstrip(' +-<>^0123456789,_')
        integral = v.iszero() or (v.is_const() and v.const_value().denominator == 1) or \
            (v.integer_coefficients() and v.atoms() and all(a_ in self.int_syms for a_ in v.atoms()))
        if integral and (plain in ('', 'd', 's') or plain.endswith(('f', 'e', 'E', 'g', 'G'))):
            return v            # whole numbers survive every numeric format (at the widths considered)
        if v.is_const() or v.iszero():
            return v            # concrete numbers are printed as literal text, not as fields
        if plain in ('', 's', 'r'):
            return v            # str / repr / '{}' of a float is the shortest text that reads back as the same float
        m_ = re.fullmatch(r'\.(\d+)([gGeE])', plain)
        if m_ and int(m_.group(1)) >= (17 if m_.group(2) in 'gG' else 16):
            return v            # 17 significant digits carry every double exactly
        name = 'PRINTED{%s}{%r}' % (spec, v)
        self.D.kind.setdefault(name, 'printed')
        self.printed[name] = (spec, v)
        return Rat.atom(name)

    def call_native(self, name, fr, args, kwargs, n):
        """a modelled library function; every keyword argument must be one the model reads (or is listed as having no
        influence), otherwise the construct is outside what is modelled"""
        h = self.native[name]
        if name.startswith('numpy.') and name != 'numpy.fromiter' and \
                any(is_iter(a) or isinstance(a, ZipV) for a in args):
            # numpy does not run over an iterator object: it wraps it in a 0-d object array. np.any / np.all hand the
            # object back (true as a condition), the others compute nothing of what was meant
            if name in ('numpy.any', 'numpy.all') and len(args) == 1 and not kwargs:
                return True
            if name in ('numpy.argmax', 'numpy.argmin') and len(args) == 1 and not kwargs:
                return C(0)             # the one entry of the 0-d object array that holds the iterator
            raise Unsupported('%s of an iterator object (generator, map, zip ...)' % name, n)
        if any(is_iter(a) for a in args) and not name.startswith(('itertools.', 'functools.', 'more_itertools.')):
            args = drain(args)
        if not kwargs or NATIVE_KW_IGNORED.get(name, ()) is None:
            return h(self, fr, args, kwargs, n)
        kw = KwSeen(kwargs)
        out = h(self, fr, args, kw, n)
        unread = set(dict.keys(kw)) - kw.seen - set(NATIVE_KW_IGNORED.get(name, ()))
        if unread:
            raise Unsupported('keyword argument(s) %s of %s are not modelled' % (sorted(unread), name), n)
        return out

    def decorated_value(self, module, fn, owner):
        """what the (user-defined) decorators of a def made of it: applied once per interpreter, as at import"""
        dec = self.decorated.get(id(fn))
        if dec is None:
            if len(unknown_decorators(fn)) != len(fn.decorator_list):
                raise Unsupported('user-defined decorator combined with @property/@classmethod/... on %s'
                                  % fn.name, fn, module.relpath)
            dec = FuncRef(module, fn, None, owner)
            dec.raw = True
            df = Frame(self, module, {}, owner, None)
            for d_ in reversed(fn.decorator_list):
                dec = df.apply(df.ev(d_), [dec], {}, d_)
            self.decorated[id(fn)] = dec
        return dec

    def call_function(self, module, fn, args, kwargs, self_obj=None, owner=None, name=None, closure=None,
                      preset=None, frame_self=None, raw=False):
        """inline a FunctionDef with evaluated args. Returns value or Raised."""
        CUR_INTERP[0] = self
        module = getattr(fn, '_home_module', module)    # a module-level function bound in a class body elsewhere
        try:
            env = self._bind(module, fn, args, kwargs, self_obj, owner, name, preset)
            if closure is not None:
                env = Env(closure, env)
        except _RaisedExc as r:
            if self.depth > 0:
                raise
            return r.raised
        memo_key = None
        if unknown_decorators(fn) and not raw:
            # a decorator replaces the function by whatever it returns: the package's own decorators are applied (once
            # per interpreter, as at import) and the result is what gets called
            dec = self.decorated_value(module, fn, owner)
            df = Frame(self, module, {}, owner, None)
            try:
                self.depth += 1
                return df.apply(dec, ([self_obj] if self_obj is not None else []) + list(args), dict(kwargs), fn)
            except _RaisedExc as r:
                if self.depth > 1:
                    raise
                return r.raised
            finally:
                self.depth -= 1
        if raw and owner is not None and self_obj is None and args and fn.args.args and \
                fn.args.args[0].arg in ('self', 'cls'):
            # the undecorated method called by its wrapper: the first argument is the object
            self_obj, args = args[0], list(args[1:])
        if getattr(fn, 'decorator_list', None) and any(
                ast.unparse(d_.func if isinstance(d_, ast.Call) else d_).split('.')[-1] in ('lru_cache', 'cache')
                for d_ in fn.decorator_list):
            # functools.lru_cache / cache: equal arguments give back the very same object
            def hk(v):
                if isinstance(v, (str, bool)) or v is None:
                    return ('v', v)
                if isinstance(v, Rat):
                    return ('r', repr(v))
                if isinstance(v, (ListV, DictV)):
                    raise _RaisedExc(Raised('TypeError', fn))        # unhashable argument
                return ('o', id(v))
            try:
                memo_key = (id(fn), tuple(hk(a_) for a_ in args),
                            tuple(sorted((k_, hk(v_)) for k_, v_ in kwargs.items())))
            except _RaisedExc as r:
                if self.depth > 0:
                    raise
                return r.raised
            if memo_key in self.memo:
                return self.memo[memo_key]
        self.depth += 1
        self.stack.append(id(fn))
        self.calls.append(name or fn.name)
        VISITED.add('%s.%s' % (owner.qual if owner is not None else module.name, fn.name))
        if ARGCOVER is not None and hasattr(fn, 'args'):
            rec = ARGCOVER.setdefault((module.name, fn.lineno), {})
            for a_ in fn.args.posonlyargs + fn.args.args + fn.args.kwonlyargs:
                if a_.arg in ('self', 'cls'):
                    continue
                seen_ = rec.setdefault(a_.arg, set())
                if len(seen_) < 6 and a_.arg in env:
                    seen_.add(repr(env[a_.arg])[:60] if not isinstance(env[a_.arg], (Obj, ListV, DictV))
                              else type(env[a_.arg]).__name__ + (':%d' % len(env[a_.arg].items)
                                                                  if isinstance(env[a_.arg], ListV) else ''))
        try:
            fr = Frame(self, module, env, owner, self_obj if self_obj is not None else frame_self)
            fr.fn = fn
            is_gen = self._is_gen.get(id(fn))
            if is_gen is None:
                is_gen = any(isinstance(x, (ast.Yield, ast.YieldFrom)) for x in own_nodes(fn))
                self._is_gen[id(fn)] = is_gen
            if is_gen:
                fr.yields = []
            def gen_result():
                # the generator was run to its end here, whereas Python runs it step by step between the consumer's
                # rounds: that is the same unless a mutable object handed out in one round is changed in a later one
                seen_ = {}
                for k_, y_ in enumerate(fr.yields):
                    parts_ = [y_] + (list(y_.items) if isinstance(y_, ListV) else [])
                    for p_ in parts_:
                        if isinstance(p_, (DictV, Obj)) or (isinstance(p_, ListV) and p_ is not y_):
                            if seen_.setdefault(id(p_), k_) != k_:
                                raise Unsupported('generator %s yields the same mutable object in several rounds '
                                                  '(lazy evaluation is not modelled)' % fn.name, fn, module.relpath)
                g_ = ListV(fr.yields)
                g_.is_generator = True      # a generator object: consumed as it is iterated
                return g_
            try:
                fr.exec_block(body_wo_doc(fn))
            except _Return as r:
                if is_gen:
                    return gen_result()
                if memo_key is not None:
                    self.memo[memo_key] = r.value
                return r.value
            except _RaisedExc as r:
                if self.depth > 1:
                    raise
                return r.raised
            if is_gen:
                return gen_result()
            return None
        finally:
            self.depth -= 1
            self.stack.pop()

    # ---- abstract strings ------------------------------------------------
    def seg(self, v, spec=None):
        """abstract string of a value that is being printed"""
        if isinstance(v, SegStr):
            return v
        if isinstance(v, str):
            if v in self.sym_strings:
                w, cls = self.sym_strings[v]
                return SegStr.field(v, w, cls)
            return SegStr.lit(v)
        if isinstance(v, Rat) and v.eq(Rat.atom('pi')):
            import math
            try:
                return SegStr.lit(format(math.pi, spec or ''))
            except (ValueError, TypeError):
                raise Unsupported('format spec %r' % (spec,))
        if isinstance(v, Rat):
            if v.is_const() and spec in (None, '', 'd') and v.const_value().denominator == 1:
                return SegStr.lit(str(int(v.const_value())))
            if v.is_const() or v.iszero():
                # a concrete number prints as Python prints it
                cv = v.const_value() if not v.iszero() else Fr(0)
                try:
                    if spec and spec.startswith('%'):
                        return SegStr.lit(spec % (int(cv) if spec.endswith('d') else float(cv)))
                    floaty = bool(spec) and (spec[-1] in 'eEfFgG%' or '.' in spec)
                    if cv.denominator == 1 and not floaty:
                        # integral value without a float presentation type: printed as an integer (len(), counters)
                        return SegStr.lit(format(int(cv), spec or ''))
                    return SegStr.lit(format(float(cv), spec or ''))
                except (ValueError, TypeError):
                    raise Unsupported('format spec %r for a number' % (spec,))
            w = None
            if spec:
                try:
                    w = spec_width(spec.lstrip('%'), self.num_widths.get(repr(v)))
                except Unsupported:
                    w = None
            if w is None:
                w = self.num_widths.get(repr(v))
            return SegStr.field(v, w, 'num', spec)       # w None: width unknown (len() is then undecided)
        if v is None:
            return SegStr.lit('None')
        if isinstance(v, bool):
            return SegStr.lit(str(v))
        if isinstance(v, Obj) and 'Number' in v.isa:
            return SegStr.field(v.name, None, 'num')
        if isinstance(v, Obj) and '__format__' in v.opaque_methods:
            return to_segstr(v.opaque_methods['__format__'](self, v, [spec or ''], {}))
        if isinstance(v, ListV) and not spec:
            # str(list) / str(tuple): the repr of the elements separated by ', ' inside brackets / parentheses
            if is_iter(v) or getattr(v, 'is_set', False):
                raise Unsupported('text of %s' % ('an iterator object' if is_iter(v) else 'a set (its order is not fixed)'))
            if getattr(v, 'is_array', False):
                # numpy lays an array out by its own rules (blank-separated, a common precision for all entries)
                raise Unsupported('text of a NumPy array')
            tup = getattr(v, 'is_tuple', False)
            np_kind = 'np.int64' if getattr(v, 'np_int', False) else 'np.float64' if getattr(v, 'np_elems', False) \
                else None
            out = SegStr.lit('(' if tup else '[')
            for i, x in enumerate(v.items):
                if i:
                    out = out + ', '
                if isinstance(x, str) and x not in self.sym_strings:
                    out = out + repr(x)
                elif isinstance(x, (str, SegStr)):
                    out = out + "'" + self.seg(x) + "'"
                elif np_kind is not None and isinstance(x, Rat):
                    out = out + (np_kind + '(') + self.seg(x) + ')'     # the repr of a NumPy scalar (NumPy >= 2)
                else:
                    out = out + self.seg(x)
            if tup and len(v.items) == 1:
                out = out + ','
            return out + (')' if tup else ']')
        raise Unsupported('cannot print %r' % (v,))

    def plain(self, v):
        """collapse an abstract string to a concrete / placeholder python str when possible"""
        if isinstance(v, SegStr):
            if v.is_literal():
                return v.literal()
            f = v.single_field()
            if f is not None and isinstance(f.value, str) and f.value in self.sym_strings and \
                    self.sym_strings[f.value] == (f.width, f.cls):
                return f.value          # the placeholder stands for exactly this field
        return v

    def format(self, fmt, args, kwargs):
        out = SegStr()
        for kind, a, spec in parse_format(fmt):
            if kind == 'lit':
                out = out + a
                continue
            head = re.match(r'[^.\[]*', a).group(0)
            rest = a[len(head):]
            if head.isdigit():
                if int(head) >= len(args):
                    raise _RaisedExc(Raised('IndexError'))
                v = args[int(head)]
            else:
                if head not in kwargs:
                    raise _RaisedExc(Raised('KeyError'))
                v = kwargs[head]
            # '{0.name}', '{specie.cat_site.name}', '{row[key]}': attribute and item lookups on the argument
            while rest:
                m_ = re.match(r'\.([A-Za-z_]\w*)|\[([^\]]+)\]', rest)
                if not m_:
                    raise _RaisedExc(Raised('ValueError'))
                fr_ = Frame(self, next(iter(self.repo.modules.values())), {}, None, None)
                if m_.group(1) is not None:
                    if not isinstance(v, Obj):
                        raise Unsupported('attribute lookup in a format field on %r' % (v,))
                    v = fr_.obj_attr(v, m_.group(1))
                else:
                    k_ = m_.group(2)
                    v = fr_.getitem(v, C(int(k_)) if k_.isdigit() else k_)
                rest = rest[m_.end():]
            if '{' in spec:
                # a format spec computed from other arguments ('{:0{w}d}'): the nested fields are filled in first
                for mm in re.finditer(r'\{([^{}]*)\}', spec):
                    aa = mm.group(1)
                    if aa == '':
                        raise Unsupported('auto-numbered field inside a format spec: %r' % fmt)
                    if aa.isdigit():
                        if int(aa) >= len(args):
                            raise _RaisedExc(Raised('IndexError'))
                        nv = args[int(aa)]
                    elif aa in kwargs:
                        nv = kwargs[aa]
                    else:
                        raise _RaisedExc(Raised('KeyError'))
                    if isinstance(nv, Rat) and nv.is_const() and nv.const_value().denominator == 1:
                        nv = str(int(nv.const_value()))
                    elif isinstance(nv, Rat) and nv.iszero():
                        nv = '0'
                    elif not (isinstance(nv, str) and nv not in self.sym_strings):
                        raise Unsupported('format spec computed from a symbolic value: %r' % fmt)
                    spec = spec.replace('{%s}' % aa, nv)
            out = out + self.format_piece(v, spec)
        return self.plain(out)

    _PCT = re.compile(r'%(?:\((\w+)\))?([-+ 0#]*)(\d+|\*)?(?:\.(\d+|\*))?([a-zA-Z%])')

    def percent_format(self, fmt, right, n=None):
        """`template % values` (printf-style): every conversion is printed as str.format prints the same value with
        the same width and precision; what the two styles do differently (`%d` truncates, `%s` right-justifies, a
        tuple supplies several values and a list is one) is spelled out here"""
        named = isinstance(right, DictV)
        vals = list(right.items) if isinstance(right, ListV) and getattr(right, 'is_tuple', False) else [right]
        out, pos, k = SegStr(), 0, 0
        for m_ in self._PCT.finditer(fmt):
            lit = fmt[pos:m_.start()]
            if '%' in lit:
                raise _RaisedExc(Raised('ValueError', n))           # an incomplete conversion
            out = out + lit
            pos = m_.end()
            key, flags, width, prec, conv = m_.groups()
            if conv == '%':
                out = out + '%'
                continue
            if width == '*' or prec == '*' or '#' in flags or conv not in 'sdifeEgG':
                raise Unsupported('printf conversion %r' % m_.group(0), n)
            if key is not None:
                if not named:
                    raise _RaisedExc(Raised('TypeError', n))        # format requires a mapping
                kk = right.nkey(key)
                if kk not in right.d:
                    raise _RaisedExc(Raised('KeyError', n))
                v = right.d[kk]
            else:
                if named and len(vals) == 1 and vals[0] is right:
                    pass                    # '%s' % some_dict prints the dictionary
                if k >= len(vals):
                    raise _RaisedExc(Raised('TypeError', n))        # not enough arguments for format string
                v = vals[k]
                k += 1
            if conv == 's':
                if isinstance(v, (Obj, ZipV)) or is_iter(v):
                    raise Unsupported('printf %%s of %r' % (v,), n)
                piece = self.seg(v)         # str() of the value (seg refuses what it cannot spell)
                if prec is not None:
                    if not isinstance(v, (str, SegStr)):
                        raise Unsupported('printf conversion %r of something that is not a text' % m_.group(0), n)
                    piece = self.text_cut(piece, int(prec), n)      # '%.Ns': the first N characters
                w = int(width) if width else 0
                if w:
                    padn = max(0, w - len(piece))
                    piece = piece + ' ' * padn if '-' in flags else SegStr.lit(' ' * padn) + piece
                out = out + piece
                continue
            if not isinstance(v, Rat):
                if isinstance(v, (str, SegStr, ListV, DictV)) or v is None:
                    raise _RaisedExc(Raised('TypeError', n))        # a number is required
                raise Unsupported('printf %%%s of %r' % (conv, v), n)
            if conv in 'di':
                conv = 'd'
                if not (v.iszero() or (v.is_const() and v.const_value().denominator == 1) or self.is_integral(v)):
                    raise Unsupported('printf %d of a number that may have a fractional part (it is cut off)', n)
            out = out + self.seg(v, '%' + flags + (width or '') + ('.' + prec if prec is not None else '') + conv)
        lit = fmt[pos:]
        if '%' in lit:
            raise _RaisedExc(Raised('ValueError', n))
        out = out + lit
        if not named and k != len(vals) and not (k == 0 and False):
            raise _RaisedExc(Raised('TypeError', n))                # not all arguments converted
        return self.plain(out)

    @staticmethod
    def pyfloat(x):
        """the constant x as a Python float (rules use it for values the package stores with float(...))"""
        return as_pyfloat(C(x))

    def text_cut(self, sb, hi, node=None):
        """the first ``hi`` characters of an abstract text (text[:hi], '%.Ns', '{:.N}'); a cut through a field is
        recorded and the result is an opaque piece of that field, as for a slice written in the code"""
        try:
            return sb.slice(0, hi)
        except Cut as e:
            self.cuts.append((node, str(e)))
            return SegStr.field('piece-of:%r' % (e.seg.value,), 1, e.seg.cls)

    def text_key(self, d, key, node=None):
        """normal form of a key for a look-up. A symbolic text is compared with every literal text key the way == compares
        them: a key of the same width as the text is a hazard (the outcome depends on the text), recorded as for ==;
        the answer is then "another text" """
        nk = d.nkey(key)
        if nk in d.d:
            return nk
        if isinstance(key, SegStr) or (isinstance(key, str) and key in self.sym_strings):
            for k_ in list(d.d):
                ok_ = d.okey(k_)
                if isinstance(ok_, str) and ok_ not in self.sym_strings and self.compare('==', key, ok_, node):
                    return k_
        return nk

    def is_integral(self, v):
        """a number known to be whole: integer coefficients over the symbols declared whole"""
        return v.integer_coefficients() and all(a in self.int_syms for a in v.atoms())

    def format_piece(self, v, spec):
        """abstract text of one replacement field (str.format and f-strings)"""
        if isinstance(v, Obj) and '__format__' in v.opaque_methods:
            return to_segstr(v.opaque_methods['__format__'](self, v, [spec or ''], {}))     # format(obj, spec)
        if True:
            out = SegStr()
            if isinstance(v, (str, SegStr)) and spec:
                m_ = re.fullmatch(r'(?:(.)?([<>^]))?(\d+)?(?:\.(\d+))?s?', spec)
                if not m_:
                    raise Unsupported('format spec %r for a string' % spec)
                piece = self.seg(v)
                if m_.group(4) is not None:
                    piece = self.text_cut(piece, int(m_.group(4)))      # '{:.N}': the first N characters
                width = int(m_.group(3)) if m_.group(3) else 0
                pad = max(0, width - len(piece))
                fill = m_.group(1) or ' '
                align = m_.group(2) or '<'
                if align == '<':
                    piece = piece + fill * pad
                elif align == '>':
                    piece = SegStr.lit(fill * pad) + piece
                else:
                    piece = SegStr.lit(fill * (pad // 2)) + piece + fill * (pad - pad // 2)
                return piece
            return self.seg(v, spec)

    def construct(self, ci, args, kwargs, name=None):
        """ClassName(*args, **kwargs): a new object initialised by the class's own __init__ (a Raised when the
        constructor raises at top level)"""
        self.n_objects += 1
        o = Obj(name or '%s#%d' % (ci.name, self.n_objects), ci, closed=True)
        o.interp = self             # the interpreter the object lives in (rules read public attributes through it)
        self.ensure_class(ci)       # class decorators of the package are applied (methods wrapped, names added)
        got = self.repo.find_method(ci, '__init__', missing_ok=True)
        def is_dc(k_):
            return any(d.split('(')[0].split('.')[-1] == 'dataclass' for d in k_.decorators) or \
                any(b_.split('.')[-1] == 'NamedTuple' for b_ in k_.base_exprs)
        if got and any(is_dc(k_) for k_ in ci.mro[:ci.mro.index(got[0])]):
            got = None              # a dataclass below the class that defines __init__: the generated __init__ wins
        if got:
            r = self.call_function(got[0].module, got[1], args, kwargs, self_obj=o, owner=got[0],
                                   name=got[0].qual + '.__init__')
            if isinstance(r, Raised):
                return r
        elif any(b_.split('.')[-1] == 'NamedTuple' for k in ci.mro for b_ in k.base_exprs) or \
                any(d.split('(')[0].split('.')[-1] == 'dataclass' for k in ci.mro for d in k.decorators):
            # the __init__ a dataclass generates: fields in definition order (bases first), defaults from the class
            fields = []
            for k in reversed(ci.mro):
                for nm, dflt in k.ann_fields:
                    fields = [f_ for f_ in fields if f_[0] != nm] + [(nm, dflt, k)]
            if len(args) > len(fields):
                return Raised('TypeError')
            vals = dict(zip([f_[0] for f_ in fields], args))
            for k_, v_ in kwargs.items():
                if k_ in vals or k_ not in [f_[0] for f_ in fields]:
                    return Raised('TypeError')
                vals[k_] = v_
            for nm, dflt, k in fields:
                if nm not in vals:
                    if dflt is None:
                        return Raised('TypeError')
                    if isinstance(dflt, ast.Call) and ast.unparse(dflt.func).split('.')[-1] == 'field':
                        raise Unsupported('dataclass field(...) default', dflt, k.module.relpath)
                    vals[nm] = Frame(self, k.module, {}, k, None).ev(dflt)
                o.attrs[nm] = vals[nm]
            if any(b_.split('.')[-1] == 'NamedTuple' for k in ci.mro for b_ in k.base_exprs):
                o.attrs['__fields__'] = ListV([f_[0] for f_ in fields])
                _nt_api(o, [f_[0] for f_ in fields], lambda vals2: self.construct(ci, [], vals2))
            post = self.repo.find_method(ci, '__post_init__', missing_ok=True)
            if post:
                self.call_function(post[0].module, post[1], [], {}, self_obj=o, owner=post[0])
        elif args or kwargs:
            return Raised('TypeError')      # object() takes no arguments
        return o

    CLASS_MARKERS = ('dataclass', 'total_ordering', 'final', 'runtime_checkable')

    def ensure_class(self, ci):
        """apply the class decorators of ci and of its bases (once per interpreter, bases first): a decorator defined in
        the package is a function of the class; what it binds in the class (cls.name = f, setattr(cls, name, f)) is
        kept in ``class_patches`` and found by every later attribute look-up"""
        for k in reversed(ci.mro):
            if k.qual in self.classes_ready:
                continue
            self.classes_ready.add(k.qual)
            for d in reversed(k.node.decorator_list):
                dn = ast.unparse(d.func if isinstance(d, ast.Call) else d).split('.')[-1]
                if dn in self.CLASS_MARKERS:
                    continue
                fr = Frame(self, k.module, {}, None, None)
                r = fr.apply(fr.ev(d), [k], {}, d)
                if r is not k:
                    raise Unsupported('class decorator @%s on %s returns something other than the class'
                                      % (ast.unparse(d), k.qual))

    def patched(self, ci, name):
        """(class, value) when a class decorator bound ``name`` in a class of the MRO before any def of that name"""
        if not self.class_patches and all(k.qual in self.classes_ready for k in ci.mro):
            return None
        self.ensure_class(ci)
        for k in ci.mro:
            if (k.qual, name) in self.class_patches:
                return k, self.class_patches[(k.qual, name)]
            if name in k.methods or name in k.class_attrs:
                return None
        return None

    def bind_patched(self, k, v, obj):
        if isinstance(v, FuncRef) and v.self_obj is None:
            if any(ast.unparse(d) == 'staticmethod' for d in getattr(v.fn, 'decorator_list', ())):
                return v
            b = FuncRef(v.module, v.fn, obj, v.owner if v.owner is not None else k, v.closure, v.defaults,
                        v.frame_self)
            if v.closure is not None or isinstance(v.fn, ast.Lambda):
                b.owner = k
                b.bound_via_class = True
            return b
        return v

    def call_method(self, obj, mname, args, kwargs, after=None):
        if obj.ci is not None and after is None and mname not in obj.opaque_methods:
            p_ = self.patched(obj.ci, mname)
            if p_ is not None:
                fr_ = Frame(self, obj.ci.module, {}, None, None)
                try:
                    return fr_.apply(self.bind_patched(p_[0], p_[1], obj), args, kwargs, None)
                except _RaisedExc as r_:
                    if self.depth > 0:
                        raise
                    return r_.raised
        if mname in obj.opaque_methods:
            return obj.opaque_methods[mname](self, obj, args, kwargs)
        if obj.ci is None:
            raise Unsupported('method %s on opaque object %s' % (mname, obj.name))
        got = self.repo.find_method(obj.ci, mname, after=after, missing_ok=True)
        if got is None:
            # not defined in the package: a base class from a library (json.JSONEncoder ...) whose method has a model
            for k_ in obj.ci.mro:
                for b_ in k_.base_exprs:
                    head, _, tail = b_.partition('.')
                    al = k_.module.aliases.get(head)
                    full = None
                    if al and al[0] == 'module':
                        full = al[1] + ('.' + tail if tail else '')
                    elif al and al[0] == 'object' and not tail:
                        full = al[1] + '.' + al[2]
                    if full and '%s.%s' % (full, mname) in self.native:
                        return self.call_native('%s.%s' % (full, mname), None, [obj] + list(args), kwargs, None)
            got = self.repo.find_method(obj.ci, mname, after=after)         # raises the anchor error
        owner, fn = got
        static = any(ast.unparse(d) == 'staticmethod' for d in fn.decorator_list)
        return self.call_function(owner.module, fn, args, kwargs, self_obj=None if static else obj, owner=owner,
                                  name='%s.%s' % (owner.qual, mname))

    # ------------------------------------------------------------------
    # arithmetic on abstract values
    def num(self, v):
        if isinstance(v, Rat):
            return v
        if isinstance(v, bool):
            return C(int(v))
        if isinstance(v, (int, Fr)):
            return C(v)
        if v is None or isinstance(v, str):
            raise _RaisedExc(Raised('TypeError'))
        raise Unsupported('not a number: %r' % (v,))

    def binop(self, op, a, b):
        if op == '|' and isinstance(a, ReFlags) and isinstance(b, ReFlags):
            return ReFlags(a.value | b.value)
        if op in ('|', '&', '^') and isinstance(a, bool) and isinstance(b, bool):
            return {'|': a or b, '&': a and b, '^': a != b}[op]     # also reached element by element for arrays
        if op == '@':
            return self.native['numpy.dot'](self, None, [a, b], {}, None)
        if op == '|' and isinstance(a, DictV) and isinstance(b, DictV):
            out = type(a)() if type(a) in (DictV,) else DictV()
            out.d.update(a.d)
            out.keyobj.update(a.keyobj)
            out.d.update(b.d)           # the right operand wins, keys keep their first position
            out.keyobj.update(b.keyobj)
            return out
        if op == '//':
            fa, fb = self.num(a), self.num(b)
            if (fa.is_const() or fa.iszero()) and fb.is_const():
                va = Fr(0) if fa.iszero() else fa.const_value()
                return C(va // fb.const_value())
            nm_ = 'FLOORDIV{%r,%r}' % (fa, fb)
            return self.D.sym(nm_)
        if op in ('&', '-', '|', '^') and isinstance(a, ListV) and isinstance(b, ListV) and (
                getattr(a, 'is_set', False) or getattr(b, 'is_set', False) or
                getattr(a, 'is_keys', False) or getattr(b, 'is_keys', False)):
            # set algebra: between two sets, or between a dictionary's key view and any iterable
            setlike = lambda v_: getattr(v_, 'is_set', False) or getattr(v_, 'is_keys', False)
            if not ((setlike(a) and setlike(b)) or getattr(a, 'is_keys', False) or getattr(b, 'is_keys', False)):
                raise _RaisedExc(Raised('TypeError'))       # set - list
            same = lambda x_, y_: (x_ == y_) if isinstance(x_, str) or isinstance(y_, str) else self.struct_eq(x_, y_)
            ina = lambda y_: any(same(x_, y_) for x_ in a.items)
            inb = lambda x_: any(same(x_, y_) for y_ in b.items)
            if op == '&':
                out_ = [x_ for x_ in a.items if inb(x_)]
            elif op == '-':
                out_ = [x_ for x_ in a.items if not inb(x_)]
            elif op == '|':
                out_ = list(a.items) + [y_ for y_ in b.items if not ina(y_)]
            else:
                out_ = [x_ for x_ in a.items if not inb(x_)] + [y_ for y_ in b.items if not ina(y_)]
            return make_set(self, out_)
        if op == '**' and isinstance(a, ListV) and getattr(a, 'is_array', False) and isinstance(b, Rat) and \
                b.is_const() and b.const_value() < 0 and b.const_value().denominator == 1:
            if getattr(a, 'dtype', None) == 'int':
                raise _RaisedExc(Raised('ValueError'))      # integers to negative integer powers are not allowed
            if getattr(a, 'dtype', None) == 'caller':
                self.dtype_hazards.append((CUR_NODE[0], CUR_REL[0]))
        if isinstance(a, ListV) or isinstance(b, ListV):
            if isinstance(a, ListV) and isinstance(b, ListV):
                if op == '+' and not getattr(a, 'is_array', False) and not getattr(b, 'is_array', False):
                    ta, tb = bool(getattr(a, 'is_tuple', False)), bool(getattr(b, 'is_tuple', False))
                    if ta != tb:
                        raise _RaisedExc(Raised('TypeError'))       # can only concatenate list to list, tuple to tuple
                    r_ = ListV(a.items + b.items)
                    if ta:
                        r_.is_tuple = True
                    return r_
                a_nested = bool(a.items) and all(isinstance(x, ListV) for x in a.items)
                b_nested = bool(b.items) and all(isinstance(y, ListV) for y in b.items)
                a_flat = not any(isinstance(x, ListV) for x in a.items)
                b_flat = not any(isinstance(y, ListV) for y in b.items)
                if getattr(a, 'is_array', False) and a_nested and b_flat and b.items:
                    # numpy aligns trailing axes: a vector acts on the last axis of a higher-dimensional array
                    r = ListV([self.binop(op, x, b) for x in a.items])
                elif getattr(b, 'is_array', False) and b_nested and a_flat and a.items:
                    r = ListV([self.binop(op, a, y) for y in b.items])
                elif len(a) == len(b):
                    r = ListV([self.binop(op, x, y) for x, y in zip(a.items, b.items)])
                elif len(b) == 1:
                    r = ListV([self.binop(op, x, b.items[0]) for x in a.items])
                elif len(a) == 1:
                    r = ListV([self.binop(op, a.items[0], y) for y in b.items])
                elif a.items and all(isinstance(x, ListV) for x in a.items) and \
                        not any(isinstance(y, ListV) for y in b.items):
                    # numpy broadcasting: a vector against the trailing axis of a higher-dimensional array
                    r = ListV([self.binop(op, x, b) for x in a.items])
                elif b.items and all(isinstance(y, ListV) for y in b.items) and \
                        not any(isinstance(x, ListV) for x in a.items):
                    r = ListV([self.binop(op, a, y) for y in b.items])
                else:
                    raise Unsupported('shape mismatch in elementwise operation')
            elif isinstance(a, ListV):
                if op == '*' and not getattr(a, 'is_array', False) and isinstance(b, PyFloat):
                    raise _RaisedExc(Raised('TypeError'))       # can't multiply sequence by non-int of type 'float'
                if op == '*' and not getattr(a, 'is_array', False) and isinstance(b, Rat) and b.is_const() \
                        and b.const_value().denominator == 1:
                    rp_ = ListV(a.items * int(b.const_value()))
                    if getattr(a, 'is_tuple', False):
                        rp_.is_tuple = True             # (x,) * n is a tuple
                    return rp_
                r = ListV([self.binop(op, x, b) for x in a.items])
            else:
                if op == '*' and not getattr(b, 'is_array', False) and isinstance(a, PyFloat):
                    raise _RaisedExc(Raised('TypeError'))       # can't multiply sequence by non-int of type 'float'
                if op == '*' and not getattr(b, 'is_array', False) and isinstance(a, Rat) and \
                        (a.iszero() or (a.is_const() and a.const_value().denominator == 1)):
                    rp_ = ListV(b.items * (0 if a.iszero() else int(a.const_value())))       # n * [x]
                    if getattr(b, 'is_tuple', False):
                        rp_.is_tuple = True
                    return rp_
                r = ListV([self.binop(op, a, y) for y in b.items])
            r.is_array = True
            return r
        if isinstance(a, Elem) or isinstance(b, Elem):
            x = a.r if isinstance(a, Elem) else a
            y = b.r if isinstance(b, Elem) else b
            if isinstance(x, (SumV,)) or isinstance(y, (SumV,)):
                raise Unsupported('vector op with summed value')
            return Elem(self.binop(op, x, y))
        if isinstance(a, SumV) or isinstance(b, SumV):
            return self._sum_binop(op, a, b)
        if op == '+' and isinstance(a, CounterV) and isinstance(b, CounterV):
            out = CounterV(dict(a.d))
            for k, v in b.d.items():
                out.d[k] = self.binop('+', out.d[k], v) if k in out.d else v
            # Counter addition keeps positive totals only: a total that is zero or a negative number goes; a symbolic
            # total stands for a positive count unless the ordering oracle says otherwise
            for k in list(out.d):
                v = out.d[k]
                if isinstance(v, Rat) and (v.iszero() or (v.is_const() and v.const_value() <= 0)):
                    del out.d[k]
                elif isinstance(v, Rat) and not v.is_const() and self.order is not None:
                    r_ = self.order(v, '<=', C(0))
                    if r_ is True:
                        del out.d[k]
            out.keyobj.update(a.keyobj)
            out.keyobj.update(b.keyobj)
            return out
        if op == '+' and (isinstance(a, (str, SegStr)) and isinstance(b, (str, SegStr))):
            if isinstance(a, str) and isinstance(b, str) and a not in self.sym_strings \
                    and b not in self.sym_strings:
                return a + b
            return self.plain(self.seg(a) + self.seg(b))
        if op == '*' and isinstance(a, str) and a not in self.sym_strings and (isinstance(b, bool) or (
                isinstance(b, Rat) and b.iszero())):
            return a if (b is True) else ''                # text * bool, text * 0
        if op == '*' and isinstance(b, str) and b not in self.sym_strings and (isinstance(a, bool) or (
                isinstance(a, Rat) and a.iszero())):
            return b if (a is True) else ''
        if op == '*' and isinstance(a, str) and isinstance(b, Rat) and b.is_const() \
                and b.const_value().denominator == 1 and a not in self.sym_strings:
            return a * max(0, int(b.const_value()))
        if op == '*' and isinstance(b, str) and isinstance(a, Rat) and a.is_const() \
                and a.const_value().denominator == 1 and b not in self.sym_strings:
            return b * max(0, int(a.const_value()))
        a = self.num(a)
        b = self.num(b)
        if op == '+':
            return a + b
        if op == '-':
            return a - b
        if op == '*':
            return a * b
        if op == '/':
            if b.iszero():
                raise Unsupported('division by literal zero')
            return a / b
        if op == '**':
            if b.is_const():
                return self.D.powq(a, b.const_value())
            return self.D.pow_sym(a, b)
        if op == '%':
            va = Fr(0) if a.iszero() else (a.const_value() if a.is_const() else None)
            vb = b.const_value() if b.is_const() else None
            if va is not None and vb:
                return C(va % vb)               # Python's sign convention (result has the sign of the divisor)
            raise Unsupported('remainder of symbolic numbers')
        raise Unsupported('operator %s' % op)

    def _sum_binop(self, op, a, b):
        sa = a if isinstance(a, SumV) else SumV(self.num(a), C(0))
        sb = b if isinstance(b, SumV) else SumV(self.num(b), C(0))
        if op == '+':
            return SumV(sa.scalar + sb.scalar, sa.elem + sb.elem)
        if op == '-':
            return SumV(sa.scalar - sb.scalar, sa.elem - sb.elem)
        if op == '*':
            if sb.elem.iszero():
                return SumV(sa.scalar * sb.scalar, sa.elem * sb.scalar)
            if sa.elem.iszero():
                return SumV(sa.scalar * sb.scalar, sb.elem * sa.scalar)
        if op == '/' and sb.elem.iszero():
            return SumV(sa.scalar / sb.scalar, sa.elem / sb.scalar)
        raise Unsupported('non-linear use of a summed value')

    def neg(self, a):
        return self.binop('*', C(-1), a)

    def np_sum(self, v):
        if isinstance(v, Rat):
            return v
        if isinstance(v, SumV):
            return v
        if isinstance(v, Elem):
            if isinstance(v.r, ListV):
                tot = C(0)
                for x in v.r.items:
                    tot = tot + self.num(x)
                return SumV(C(0), tot)
            return SumV(C(0), self.num(v.r))
        if isinstance(v, VecItem):
            return SumV(C(0), self.num(v.r))
        if isinstance(v, ListV):
            tot = C(0)
            for x in v.items:
                tot = self.binop('+', tot, self.np_sum(x))
            return tot
        if isinstance(v, (int, Fr)):
            return C(v)
        raise Unsupported('np.sum of %r' % (v,))

    def unary_fn(self, f, v):
        if isinstance(v, ListV):
            r = ListV([self.unary_fn(f, x) for x in v.items])
            r.is_array = True
            return r
        if isinstance(v, Elem):
            return Elem(self.unary_fn(f, v.r))
        if isinstance(v, SumV):
            raise Unsupported('non-linear function of a summed value')
        return f(self.num(v))

    def compare(self, op, a, b, node=None):
        """decide a comparison or raise Unsupported."""
        if op in ('is', 'is not'):
            if a is None or b is None:
                for x_ in (a, b):
                    if isinstance(x_, Rat) and x_.is_monomial() and len(x_.atoms()) == 1 and \
                            next(iter(x_.atoms())) in self.lazy_atoms and x_.eq(Rat.atom(next(iter(x_.atoms())))):
                        # an attribute the rule never set, standing for "some number": whether the program's object
                        # has None there is not known
                        raise Unsupported('test for None of the attribute %s, which the rule left open' % (x_,), node)
                res = (a is None and b is None)
                return res if op == 'is' else not res
            if isinstance(a, bool) or isinstance(b, bool):
                res = a is b
                return res if op == 'is' else not res
            if isinstance(a, TypeOf) and isinstance(b, Builtin):
                v = a.v
                num_kind = self.number_type(v, node) if isinstance(v, Rat) and b.name in ('float', 'int') else None
                res = {'list': isinstance(v, ListV) and not getattr(v, 'is_array', False) and
                       not getattr(v, 'is_tuple', False),
                       'str': isinstance(v, str), 'dict': isinstance(v, DictV),
                       'float': num_kind == 'float', 'int': num_kind == 'int',
                       'tuple': isinstance(v, ListV) and bool(getattr(v, 'is_tuple', False)),
                       'bool': isinstance(v, bool)}.get(b.name)
                if res is None:
                    raise Unsupported('type() test against %s' % b.name)
                return res if op == 'is' else not res
            if isinstance(a, Obj) and isinstance(b, Obj):
                # one model object per program object (copies make new ones)
                res = a is b
                return res if op == 'is' else not res
            if getattr(a, 'sentinel', False) or getattr(b, 'sentinel', False):
                # a bare object() is identical to nothing but itself
                return op != 'is'
            # two symbolic/structured values: identity is not decidable in general
            raise Unsupported('identity test on symbolic values')
        if isinstance(a, SegStr) or isinstance(b, SegStr) or \
                (isinstance(a, str) and a in self.sym_strings) or (isinstance(b, str) and b in self.sym_strings):
            if op in ('==', '!='):
                if a is None or b is None or isinstance(a, (Rat, Obj, ListV, DictV)) or \
                        isinstance(b, (Rat, Obj, ListV, DictV)):
                    return op == '!='
                sa, sb = self.seg(a), self.seg(b)
                if sa.is_literal() and sb.is_literal():
                    res = sa.literal() == sb.literal()
                elif len(sa) != len(sb):
                    res = False
                elif repr(sa) == repr(sb):
                    res = True
                else:
                    # a literal against user text of the same width: outcome depends on the text
                    lit, sym = (sa, sb) if sa.is_literal() else (sb, sa)
                    blank = lit.is_literal() and (lit.literal() == '' or any(ch.isspace() for ch in lit.literal()))
                    if lit.is_literal() and not blank and (any(f.cls == 'text' for f in sym.fields()) or (
                            lit.literal().isalpha() and any(f.cls == 'alpha' for f in sym.fields()))):
                        self.hazards.append((node, 'comparison with %r depends on user-controlled text %r'
                                             % (lit.literal(), sym)))
                    res = False
                return res if op == '==' else not res
            if op in ('in', 'not in') and isinstance(b, (ListV, DictV)):
                pa = self.plain(a)
                items = b.items if isinstance(b, ListV) else [b.okey(k_) for k_ in b.d]
                if isinstance(pa, str) and pa not in self.sym_strings:
                    res = any(isinstance(self.plain(x), str) and self.plain(x) == pa for x in items)
                    return res if op == 'in' else not res
                # a composite abstract string against each candidate (same rules as ==)
                res = any(isinstance(x, (str, SegStr)) and self.compare('==', a, x, node) for x in items)
                return res if op == 'in' else not res
            if op in ('in', 'not in') and isinstance(a, str) and a not in self.sym_strings:
                r = self.seg(b).contains(a)
                if r is None:
                    self.hazards.append((node, 'substring test %r in a line containing user-controlled text: %r'
                                         % (a, b)))
                    r = False
                return r if op == 'in' else not r
            raise Unsupported('comparison %s on abstract strings' % op, node)
        # a symbol that stands for a text the rule leaves open (a unit string): its spelling is not known, so a test
        # against a literal text is not decidable - the rule has to run the instance with concrete texts as well
        for x_, y_ in ((a, b), (b, a)):
            if isinstance(x_, Rat) and x_.is_monomial() and len(x_.atoms()) == 1 and \
                    next(iter(x_.atoms())) in self.token_syms and x_.eq(Rat.atom(next(iter(x_.atoms())))):
                if isinstance(y_, (str, SegStr)) or (op in ('in', 'not in') and x_ is a and isinstance(y_, (ListV, DictV))):
                    raise Unsupported('comparison of the symbolic text %r with a literal' % (x_,), node)
        if op in ('==', '!=') and (isinstance(a, (DictV, Obj)) or isinstance(b, (DictV, Obj))):
            res = self.struct_eq(a, b)
            return res if op == '==' else not res
        if op in ('==', '!=') and isinstance(a, ListV) and isinstance(b, ListV) and \
                not getattr(a, 'is_array', False) and not getattr(b, 'is_array', False):
            # two Python lists / tuples: entry by entry (identical entries are equal)
            res = self.struct_eq(a, b)
            return res if op == '==' else not res
        if op in ('==', '!=') and (isinstance(a, bool) != isinstance(b, bool)) and (
                isinstance(a, (Rat, int, Fr)) or isinstance(b, (Rat, int, Fr))):
            # True == 1, False == 0 (bool is a number)
            a = C(1 if a else 0) if isinstance(a, bool) else a
            b = C(1 if b else 0) if isinstance(b, bool) else b
        if op in ('==', '!='):
            if isinstance(a, (str, bool)) or isinstance(b, (str, bool)) or a is None or b is None:
                if isinstance(a, (Rat, ListV, Elem, Obj)) or isinstance(b, (Rat, ListV, Elem, Obj)):
                    if (isinstance(a, str) or isinstance(b, str) or a is None or b is None):
                        res = False
                        return res if op == '==' else not res
                res = (a == b)
                return res if op == '==' else not res
        if op in ('in', 'not in'):
            if isinstance(b, (ListV,)):
                items = b.items
            elif isinstance(b, DictV):
                items = [b.okey(k) for k in b.d.keys()]
            elif isinstance(b, str) and isinstance(a, str):
                res = a in b
                return res if op == 'in' else not res
            elif isinstance(b, Obj) and '__contains__' in b.opaque_methods:
                res = self.truth(b.opaque_methods['__contains__'](self, b, [a], {}), node)
                return res if op == 'in' else not res
            elif isinstance(b, TableRef):
                # membership in a module-level table: the lookup does not raise KeyError
                try:
                    b.lookup(Frame(self, b.module, {}, None, None), self.plain(a) if isinstance(a, (str, SegStr)) else a,
                             node)
                    res = True
                except _RaisedExc as e_:
                    if e_.raised.exc != 'KeyError':
                        raise
                    res = False
                return res if op == 'in' else not res
            else:
                raise Unsupported('membership test on %r' % (b,))
            if a is None:
                res = any(x is None for x in items)
                return res if op == 'in' else not res
            if isinstance(a, str):
                res = any(isinstance(x, str) and x == a for x in items)
                return res if op == 'in' else not res
            if isinstance(a, Obj):
                res = any(x is a for x in items)       # identity (object equality is not modelled)
                return res if op == 'in' else not res
            if isinstance(a, bool) and isinstance(b, DictV):
                res = any((x is a) or (isinstance(x, Rat) and x.eq(C(1 if a else 0))) for x in items)
                return res if op == 'in' else not res
            if isinstance(a, ListV) and isinstance(b, DictV) and not getattr(a, 'is_array', False):
                res = b.nkey(a) in b.d                  # a tuple as key: equal entry by entry <=> same normal form
                return res if op == 'in' else not res
            if isinstance(a, Rat):
                res = False
                for x in items:
                    if isinstance(x, (int, Fr)) and not isinstance(x, bool):
                        x = C(x)
                    if isinstance(x, Rat) and self.compare('==', a, x, node):
                        res = True
                        break
                return res if op == 'in' else not res
            raise Unsupported('membership test of symbolic value')
        if isinstance(a, (int, Fr)):
            a = C(a)
        if isinstance(b, (int, Fr)):
            b = C(b)
        if isinstance(a, Rat) and isinstance(b, Rat):
            # +infinity against anything finite
            for x_, y_, flip in ((a, b, False), (b, a, True)):
                if y_.is_monomial() and list(y_.atoms()) == ['INF'] and y_.eq(Rat.atom('INF')) and \
                        'INF' not in x_.atoms() and op in ('<', '<=', '>', '>=', '==', '!='):
                    less = not flip      # x_ < INF when x_ is the left operand
                    return {'<': less, '<=': less, '>': not less, '>=': not less, '==': False, '!=': True}[op]
            diff = a - b
            if diff.is_const() or diff.iszero():
                dv = diff.const_value() if not diff.iszero() else Fr(0)
                return {'<': dv < 0, '<=': dv <= 0, '>': dv > 0, '>=': dv >= 0,
                        '==': dv == 0, '!=': dv != 0}[op]
            if self.order is not None:
                r = self.order(a, op, b)
                if r is not None:
                    return r
            if op in ('<', '<=', '>', '>=', '==', '!=') and not diff.f and diff.n.is_monomial() and diff.atoms() and \
                    all(a_ in SURELY_POSITIVE or a_.startswith('U<') or a_ in self.positive_syms or
                        self.D.kind.get(a_) in ('exp', 'const') for a_ in diff.atoms()):
                # a product of quantities that are positive (temperatures, constants, what the rule declared so)
                (coef_,) = diff.n.t.values()
                pos_ = coef_ > 0
                return {'<': not pos_, '<=': not pos_, '>': pos_, '>=': pos_, '==': False, '!=': True}[op]
        if op in ('<', '<=', '>', '>=') and type(a) is str and type(b) is str and \
                a not in self.sym_strings and b not in self.sym_strings:
            return {'<': a < b, '<=': a <= b, '>': a > b, '>=': a >= b}[op]      # by code point
        raise Unsupported('undecidable comparison %s' % op, node)

    def number_type(self, v, node=None):
        """name of the Python type of a number: 'int' / 'float' for what the rule declared (int_syms; symbols stand for
        floats otherwise), 'int64' / 'float64' / 'float32' for declared numpy scalars; a literal number's type is not
        tracked"""
        ats = v.atoms() if isinstance(v, Rat) else set()
        if not ats:
            raise Unsupported('type of a number whose Python type is not tracked', node)
        if all(a_ in self.np_syms for a_ in ats) and len({self.np_syms[a_] for a_ in ats}) == 1:
            return self.np_syms[next(iter(ats))]
        if any(a_ in self.np_syms for a_ in ats):
            raise Unsupported('type of a mixed numpy / Python number', node)
        if all(a_ in self.int_syms for a_ in ats) and v.integer_coefficients():
            return 'int'
        return 'float'

    def struct_eq(self, a, b):
        if isinstance(a, DictV) and isinstance(b, DictV):
            return a.d.keys() == b.d.keys() and all(self.struct_eq(a.d[k], b.d[k]) for k in a.d)
        if isinstance(a, Obj) or isinstance(b, Obj):
            if a is b:
                return True
            if isinstance(a, Obj) and isinstance(b, Obj) and a.ci is not None and b.ci is not None:
                # a class of the package that defines __eq__ (_pmuttBase compares to_dict()): the method is ordinary
                # code and is interpreted; without one, objects compare by identity
                for x_, y_ in ((a, b), (b, a)):
                    if self.repo.find_method(x_.ci, '__eq__', missing_ok=True):
                        if self.eq_depth > 6:
                            raise Unsupported('equality of two model objects (nested too deeply)')
                        self.eq_depth += 1
                        try:
                            r_ = self.call_method(x_, '__eq__', [y_], {})
                        finally:
                            self.eq_depth -= 1
                        if isinstance(r_, Raised):
                            raise _RaisedExc(r_)
                        return self.truth(r_)
                return False
            return False        # a model object never equals a dict / None / str
        if isinstance(a, ListV) and isinstance(b, ListV):
            return len(a) == len(b) and all(self.struct_eq(x, y) for x, y in zip(a.items, b.items))
        if isinstance(a, Rat) and isinstance(b, Rat):
            if a.eq(b):
                return True
            if (a - b).is_const():
                return False
            if self.generic_point:
                # two expressions that are not identically equal differ for all values outside a set of measure zero
                return False
            raise Unsupported('equality of symbolic numbers inside containers')
        if type(a) is not type(b):
            return False
        return a == b

    def truth(self, v, node=None):
        if isinstance(v, bool):
            return v
        if isinstance(v, RealTest):
            if v.negated:
                raise Unsupported('the negation of a test for real roots used as a plain condition', node)
            return True         # the analysis follows the real roots
        if getattr(v, 'ambiguous_eq', False):
            raise Unsupported('truth value of number == sequence (depends on whether the number is a numpy value)',
                              node)
        if v is None:
            return False
        if isinstance(v, str):
            return bool(v)
        if isinstance(v, ListV) and getattr(v, 'is_array', False):
            # numpy: an empty array is false, one element decides, several are ambiguous (ValueError)
            if len(v) == 0:
                return False
            if len(v) == 1:
                return self.truth(v.items[0], node)
            raise _RaisedExc(Raised('ValueError', node))
        if isinstance(v, ListV):
            return len(v) > 0
        if isinstance(v, DictV):
            return len(v.d) > 0
        if isinstance(v, Rat) and v.iszero():
            return False
        if isinstance(v, Rat) and v.is_const():
            return v.const_value() != 0
        if isinstance(v, Obj) and v.ci is not None:
            for special in ('__bool__', '__len__'):
                if self.repo.find_method(v.ci, special, missing_ok=True):
                    r = self.call_method(v, special, [], {})
                    if isinstance(r, Raised):
                        raise _RaisedExc(r)
                    return self.truth(r, node) if special == '__bool__' else self.truth(r, node)
            return True
        if isinstance(v, Obj):
            return True
        if isinstance(v, SegStr):
            return len(v) > 0
        if isinstance(v, Rat) and self.order is not None:
            r = self.order(v, '!=', C(0))
            if r is not None:
                return r
        raise Unsupported('undecidable truth value', node)


class Frame:
    def __init__(self, interp, module, env, owner, self_obj):
        self.I = interp
        self.module = module
        self.env = env
        self.owner = owner
        self.self_obj = self_obj
        self.in_vec_loop = 0
        self.global_names = set()       # names declared ``global`` in this function
        self.handling = []              # exceptions whose handlers are being executed (innermost last)

    # ---- statements ----------------------------------------------------
    def exec_block(self, stmts):
        for st in stmts:
            self.exec_stmt(st)

    def exec_stmt(self, st):
        I = self.I
        CUR_REL[0] = self.module.relpath
        CUR_NODE[0] = st
        if COVER is not None:
            COVER.add((self.module.name, st.lineno))
        if isinstance(st, ast.Expr):
            if isinstance(st.value, ast.Constant):
                return
            self.ev(st.value)
            return
        if isinstance(st, ast.Assign):
            if I.table_atoms is not None and isinstance(st.value, ast.Dict) \
                    and len(st.targets) == 1 and isinstance(st.targets[0], ast.Name):
                v = self.table_dict(st.targets[0].id, st.value)
            else:
                v = self.ev(st.value)
            for t in st.targets:
                self.assign(t, v)
            return
        if isinstance(st, ast.AugAssign):
            cur = self.ev(_load(st.target))
            v = self.ev(st.value)
            if isinstance(cur, DictV) and isinstance(st.op, ast.BitOr):
                # d |= other: in place, like d.update(other)
                if isinstance(v, DictV):
                    cur.d.update(v.d)
                    cur.keyobj.update(v.keyobj)
                elif isinstance(v, ListV) and all(isinstance(p_, ListV) and len(p_) == 2 for p_ in v.items):
                    for p_ in v.items:
                        cur.d[cur.nkey(p_.items[0])] = p_.items[1]
                elif isinstance(v, ListV):
                    raise _RaisedExc(Raised('ValueError', st))
                else:
                    raise _RaisedExc(Raised('TypeError', st))
                return
            res = I.binop(_OPS[type(st.op)], cur, v)
            if isinstance(cur, Elem) and isinstance(res, Elem) and type(cur) is Elem:
                # a numpy vector (of unknown length) is updated in place: the object an attribute or another name
                # refers to changes with it
                cur.r = res.r
                return
            if isinstance(cur, ListV) and isinstance(res, ListV) and \
                    isinstance(st.target, (ast.Name, ast.Attribute)) and not getattr(cur, 'is_set', False) and \
                    not getattr(cur, 'is_tuple', False):
                # lists and numpy arrays are updated in place: every other name bound to the object sees it
                if getattr(cur, 'is_array', False) and getattr(cur, 'dtype', None) in ('int', 'caller', 'narrow') and \
                        not any(isinstance(x_, ListV) for x_ in res.items):
                    # an in-place operation keeps the element type of the array: a real result does not fit into an
                    # integer array (numpy refuses the cast), into a caller-typed one it may not
                    hz0 = len(I.dtype_hazards)
                    self.int_store(cur, list(res.items), st)
                    if cur.dtype == 'int' and len(I.dtype_hazards) > hz0:
                        del I.dtype_hazards[hz0:]
                        raise _RaisedExc(Raised('TypeError', st))       # UFuncTypeError: cannot cast ... to int64
                cur.items[:] = list(res.items)
                sync_reshape(cur)
                view = getattr(cur, 'view_of', None)
                if view is not None:
                    base_, ax_ = view
                    inv = [ax_.index(k_) for k_ in range(len(ax_))]
                    back = nd_transpose(cur, inv)

                    def deep(dst, src):
                        for k_, (d_, s__) in enumerate(zip(dst.items, src.items)):
                            if isinstance(d_, ListV) and isinstance(s__, ListV):
                                deep(d_, s__)
                            else:
                                dst.items[k_] = s__
                    deep(base_, back)
                return
            self.assign(st.target, res)
            return
        if isinstance(st, ast.Return):
            raise _Return(self.ev(st.value) if st.value is not None else None)
        if isinstance(st, ast.Raise):
            exc = 'Exception'
            if st.exc is None:
                if self.handling:
                    raise _RaisedExc(self.handling[-1])      # bare raise: the exception being handled
                exc = 'RuntimeError'                          # no active exception to re-raise
            else:
                e = st.exc
                if isinstance(e, ast.Name) and isinstance(self.env.get(e.id), Raised):
                    raise _RaisedExc(self.env[e.id])         # raise <caught exception>
                xargs = [] if isinstance(e, (ast.Name, ast.Attribute)) else None      # a bare class: no arguments
                if isinstance(e, ast.Call):
                    xargs = None
                    # the arguments (the message) are evaluated as Python does; what has no abstract value is
                    # left unknown
                    if not e.keywords and not any(isinstance(a, ast.Starred) for a in e.args):
                        try:
                            xargs = [self.ev(a) for a in e.args]
                        except Unsupported:
                            xargs = None
                    e = e.func
                exc = ast.unparse(e)
                raise _RaisedExc(Raised(exc, st, xargs))
            raise _RaisedExc(Raised(exc, st))
        if isinstance(st, ast.If):
            tv = self.ev(st.test)
            if isinstance(tv, RealTest) and tv.negated and self.in_vec_loop:
                # `if not np.isreal(x): continue`: what follows in the loop body runs for the real roots only
                if st.orelse or not (len(st.body) == 1 and isinstance(st.body[0], ast.Continue)):
                    raise Unsupported('a branch for the roots that are not real', st, self.module.relpath)
                plain_, real_ = Rat.atom(tv.atom), Rat.atom(_real_roots(I, tv.atom))
                for k_ in list(self.env.keys()):
                    if isinstance(k_, str) and isinstance(self.env[k_], Rat) and self.env[k_].eq(plain_):
                        self.env[k_] = real_        # until the loop variable is bound again
                return
            if isinstance(tv, RealTest) and self.in_vec_loop:
                # `if np.isreal(x):` inside a loop over the roots: the body runs for the real roots only - every local
                # bound to the unfiltered root stands for a real root in there (as in a comprehension filter)
                if st.orelse:
                    raise Unsupported('else branch of a test for real roots inside a loop over the roots', st,
                                      self.module.relpath)
                plain_, real_ = Rat.atom(tv.atom), Rat.atom(_real_roots(I, tv.atom))
                swapped = [k_ for k_ in list(self.env.keys()) if isinstance(k_, str) and
                           isinstance(self.env[k_], Rat) and self.env[k_].eq(plain_)]
                for k_ in swapped:
                    self.env[k_] = real_
                try:
                    self.exec_block(st.body)
                finally:
                    for k_ in swapped:
                        if isinstance(self.env.get(k_), Rat) and self.env[k_].eq(real_):
                            self.env[k_] = plain_
                return
            t = I.truth(tv, st)
            self.exec_block(st.body if t else st.orelse)
            return
        if isinstance(st, ast.Pass):
            return
        if isinstance(st, ast.For):
            self.exec_for(st)
            return
        if isinstance(st, ast.Break):
            raise _Break()
        if isinstance(st, ast.Continue):
            raise _Continue()
        if isinstance(st, ast.Try):
            self.exec_try(st)
            return
        if isinstance(st, ast.With):
            suppress = []
            saved_filters = None
            for item in st.items:
                v = self.ev(item.context_expr)
                if hasattr(v, 'pmv_suppress'):
                    suppress.extend(v.pmv_suppress)
                if isinstance(v, CatchWarnings):
                    saved_filters = list(I.warn_filters)
                if item.optional_vars is not None:
                    self.assign(item.optional_vars, v)
            if saved_filters is not None:
                try:
                    self.exec_block(st.body)
                finally:
                    I.warn_filters[:] = saved_filters
                return
            if suppress:
                try:
                    self.exec_block(st.body)
                except _RaisedExc as r_:
                    if not exc_matches(r_.raised.exc, suppress):
                        raise
                return
            if len(st.items) == 1 and isinstance(v, CtxManager):
                self.exec_ctx(st, v)
                return
            files_ = [x_ for x_ in (self.ev(i_.optional_vars) if isinstance(i_.optional_vars, ast.Name) else None
                                    for i_ in st.items) if isinstance(x_, Obj) and '__mode__' in x_.attrs]
            try:
                self.exec_block(st.body)
            finally:
                for f_ in files_:
                    f_.attrs['__closed__'] = True           # leaving the block closes the file, however it is left
            return
        if isinstance(st, ast.Assert):
            # an assertion that fails raises; one that cannot be decided ends the analysis (I.truth)
            if not I.truth(self.ev(st.test), st):
                raise _RaisedExc(Raised('AssertionError', st, [self.ev(st.msg)] if st.msg is not None else []))
            return
        if isinstance(st, ast.AnnAssign):
            if st.value is not None:
                if I.table_atoms is not None and isinstance(st.value, ast.Dict) and isinstance(st.target, ast.Name):
                    self.assign(st.target, self.table_dict(st.target.id, st.value))       # as a plain assignment
                else:
                    self.assign(st.target, self.ev(st.value))
            return
        if isinstance(st, (ast.FunctionDef,)):
            # nested function: a closure over this frame's scope; defaults are evaluated now
            self.env[st.name] = FuncRef(self.module, st, None, self.owner, closure=self.env,
                                        defaults=self.def_defaults(st), frame_self=self.self_obj)
            return
        if isinstance(st, ast.Global):
            self.global_names.update(st.names)
            return
        if isinstance(st, ast.Nonlocal):
            raise Unsupported('nonlocal', st, self.module.relpath)
        if isinstance(st, ast.While):
            self.exec_while(st)
            return
        if isinstance(st, ast.Delete):
            for t in st.targets:
                self.delete(t)
            return
        if hasattr(ast, 'Match') and isinstance(st, ast.Match):
            self.exec_match(st)
            return
        if isinstance(st, ast.ImportFrom) and st.module and not st.level and (
                st.module in I.repo.modules or any((st.module + '.' + a_.name) in I.repo.modules for a_ in st.names)):
            for a in st.names:
                base = I.repo.modules.get(st.module)
                full = st.module + '.' + a.name
                if full in I.repo.modules:
                    self.env[a.asname or a.name] = I.repo.modules[full]
                elif base is not None:
                    r = I.repo.lookup(base, a.name)
                    if r is not None:
                        self.env[a.asname or a.name] = self.entity(r, st)
            return
        if isinstance(st, (ast.Import, ast.ImportFrom)):
            # an import inside a function binds the name in that function's scope (and its closures)
            if isinstance(st, ast.ImportFrom) and st.level:
                raise Unsupported('relative import inside a function', st, self.module.relpath)
            loc = self.env.get(LOCAL_IMPORTS) if LOCAL_IMPORTS in self.env else None
            if loc is None:
                loc = self.env[LOCAL_IMPORTS] = {}
            for a in st.names:
                if isinstance(st, ast.Import):
                    if a.asname:
                        loc[a.asname] = ('module', a.name)
                    else:
                        loc[a.name.split('.')[0]] = ('module', a.name.split('.')[0])
                elif a.name == '*':
                    raise Unsupported('star import inside a function', st, self.module.relpath)
                else:
                    loc[a.asname or a.name] = ('object', st.module, a.name)
            return
        raise Unsupported('statement %s' % type(st).__name__, st, self.module.relpath)

    def alias(self, name):
        """what an imported name stands for: an import of the enclosing function(s) first, then the module's"""
        if LOCAL_IMPORTS in self.env:
            loc = self.env[LOCAL_IMPORTS]
            if name in loc:
                return loc[name]
        return self.module.aliases.get(name)

    def def_defaults(self, fn):
        """{parameter: value} of the defaults of a lambda / nested def, evaluated in the defining scope"""
        a = fn.args
        out = {}
        pos = a.posonlyargs + a.args
        for x, d in zip(pos[len(pos) - len(a.defaults):], a.defaults):
            out[x.arg] = self.ev(d)
        for x, d in zip(a.kwonlyargs, a.kw_defaults):
            if d is not None:
                out[x.arg] = self.ev(d)
        return out

    def exec_while(self, st):
        """a while loop whose condition is decided on every round (bounded: an undecided or runaway condition is
        outside the accepted fragment, never guessed)"""
        rounds = 0
        broke = False
        while True:
            if not self.I.truth(self.ev(st.test), st):
                break
            rounds += 1
            if rounds > 512:
                raise Unsupported('while loop does not terminate within 512 rounds', st, self.module.relpath)
            try:
                self.exec_block(st.body)
            except _Break:
                broke = True
                break
            except _Continue:
                continue
        if not broke and st.orelse:
            self.exec_block(st.orelse)

    def delete(self, t):
        if isinstance(t, ast.Name):
            if t.id in self.global_names:
                self.I.global_vars.pop((self.module.name, t.id), None)
            elif dict.__contains__(self.env, t.id):
                dict.pop(self.env, t.id)
            else:
                raise _RaisedExc(Raised('NameError', t))
            return
        if isinstance(t, ast.Attribute):
            base = self.ev(t.value)
            if isinstance(base, Obj):
                if t.attr in base.attrs:
                    del base.attrs[t.attr]
                    return
                raise _RaisedExc(Raised('AttributeError', t))
        if isinstance(t, ast.Subscript):
            base = self.ev(t.value)
            if isinstance(base, DictV):
                k = base.nkey(self.ev(t.slice))
                if k not in base.d:
                    raise _RaisedExc(Raised('KeyError', t))
                del base.d[k]
                return
            if isinstance(base, ListV) and (getattr(base, 'is_tuple', False) or getattr(base, 'is_set', False) or
                                            is_iter(base)):
                raise _RaisedExc(Raised('TypeError', t))        # tuples, sets and iterators do not support deletion
            if isinstance(base, ListV) and not isinstance(t.slice, ast.Slice):
                i = self.index(self.ev(t.slice), len(base.items), t)
                del base.items[i]
                return
            if isinstance(base, ListV) and isinstance(t.slice, ast.Slice) and not getattr(base, 'is_array', False) and \
                    not isinstance(base.items, ViewItems):
                # del l[a:b:c] of a Python list: in place, every other name of the list sees it
                def bound(e_):
                    if e_ is None:
                        return None
                    return _as_int(self.ev(e_), t)
                del base.items[slice(bound(t.slice.lower), bound(t.slice.upper), bound(t.slice.step))]
                return
        raise Unsupported('del %s' % ast.unparse(t), t, self.module.relpath)

    def exec_match(self, st):
        subj0 = self.ev(st.subject)
        I = self.I

        def matches(p, subj):
            if isinstance(p, ast.MatchValue):
                return I.compare('==', subj, self.ev(p.value), p)
            if isinstance(p, ast.MatchSingleton):
                return subj is p.value
            if isinstance(p, ast.MatchOr):
                return any(matches(q, subj) for q in p.patterns)
            if isinstance(p, ast.MatchAs):
                if p.pattern is not None and not matches(p.pattern, subj):
                    return False
                if p.name is not None:
                    self.assign(ast.Name(id=p.name, ctx=ast.Store()), subj)
                return True
            if isinstance(p, ast.MatchSequence):
                # lists and tuples (not strings, not dicts)
                if not isinstance(subj, ListV) or getattr(subj, 'is_set', False):
                    return False
                stars = [k for k, q in enumerate(p.patterns) if isinstance(q, ast.MatchStar)]
                items = subj.items
                if not stars:
                    return len(items) == len(p.patterns) and all(matches(q, x) for q, x in zip(p.patterns, items))
                k = stars[0]
                after = len(p.patterns) - k - 1
                if len(items) < len(p.patterns) - 1:
                    return False
                ok = all(matches(q, x) for q, x in zip(p.patterns[:k], items[:k])) and \
                    all(matches(q, x) for q, x in zip(p.patterns[k + 1:], items[len(items) - after:]))
                if ok and p.patterns[k].name:
                    self.env[p.patterns[k].name] = ListV(items[k:len(items) - after])
                return ok
            if isinstance(p, ast.MatchClass):
                cls_v = self.ev(p.cls)
                if not builtin_call(I, self, 'isinstance', [subj, cls_v], {}, p):
                    return False
                if p.patterns:
                    if isinstance(cls_v, Builtin) and len(p.patterns) == 1:
                        return matches(p.patterns[0], subj)          # str(x), int(x), ...: the subject itself
                    raise Unsupported('positional class pattern', p, self.module.relpath)
                for attr, q in zip(p.kwd_attrs, p.kwd_patterns):
                    try:
                        v = builtin_call(I, self, 'getattr', [subj, attr], {}, p)
                    except _RaisedExc as r_:
                        if r_.raised.exc == 'AttributeError':
                            return False
                        raise
                    if not matches(q, v):
                        return False
                return True
            if isinstance(p, ast.MatchMapping):
                if not isinstance(subj, DictV):
                    return False
                for k_, q in zip(p.keys, p.patterns):
                    kk = subj.nkey(self.ev(k_))
                    if kk not in subj.d or not matches(q, subj.d[kk]):
                        return False
                if p.rest:
                    used = {subj.nkey(self.ev(k_)) for k_ in p.keys}
                    self.env[p.rest] = DictV({k_: v_ for k_, v_ in subj.d.items() if k_ not in used})
                return True
            raise Unsupported('match pattern %s' % type(p).__name__, p, self.module.relpath)
        for case in st.cases:
            if matches(case.pattern, subj0) and (case.guard is None or I.truth(self.ev(case.guard), case)):
                self.exec_block(case.body)
                return

    def table_dict(self, name, node):
        """dict literal of numeric constants -> DictV of atoms ``name[key]``;
        the folded Num of every entry is recorded in interp.table_atoms."""
        I = self.I
        name = I.table_names.get(id(node), name)
        cached = I._table_cache.get(id(node))
        if cached is not None:
            return DictV(dict(cached))
        d = {}
        from .fold import fold_table
        try:
            entries = fold_table(self.module, node, I.table_env)
        except Unsupported:
            return self.ev(node)
        if not all(isinstance(k_, str) for k_, _n, _v in entries):
            return self.ev(node)
        for k_, num, _v in entries:
            atom = '%s[%s]' % (name, k_)
            I.table_atoms[atom] = num
            d[k_] = I.D.sym(atom)
        I._table_cache[id(node)] = dict(d)
        return DictV(d)

    def exec_try(self, st):
        try:
            self._exec_try(st)
        except (_RaisedExc, _Return, _Break, _Continue):
            self.exec_block(st.finalbody)       # the finally clause runs on every way out
            raise
        self.exec_block(st.finalbody)

    def _exec_try(self, st):
        try:
            self.exec_block(st.body)
        except _RaisedExc as r:
            for h in st.handlers:
                names = []
                if h.type is None:
                    names = None
                elif isinstance(h.type, ast.Name) and h.type.id in self.env:
                    # except <variable>: the exception classes were handed over as a value
                    hv = self.env[h.type.id]
                    hv = hv.items if isinstance(hv, ListV) else [hv]
                    if not all(isinstance(x, Builtin) for x in hv):
                        raise Unsupported('except clause with a computed exception specification', h,
                                          self.module.relpath)
                    names = [x.name for x in hv]
                elif isinstance(h.type, ast.Tuple):
                    names = [ast.unparse(e) for e in h.type.elts]
                else:
                    names = [ast.unparse(h.type)]
                if names is None or exc_matches(r.raised.exc, names) or (
                        'Exception' in names and r.raised.exc not in ('KeyboardInterrupt', 'SystemExit', 'GeneratorExit')):
                    if h.name:
                        self.env[h.name] = r.raised
                    self.handling.append(r.raised)
                    try:
                        self.exec_block(h.body)
                    finally:
                        self.handling.pop()
                    break
            else:
                raise
        else:
            self.exec_block(st.orelse)

    def exec_ctx(self, st, cm):
        """`with f(...) [as x]:` where f is a generator function under contextlib.contextmanager"""
        I = self.I
        fn = cm.fv.fn
        body = body_wo_doc(fn)
        # the one yield: a statement of the function body, or the only statement of a try block with a finally
        k_, in_try = None, False
        for i_, s_ in enumerate(body):
            if isinstance(s_, ast.Expr) and isinstance(s_.value, ast.Yield):
                k_ = i_
            elif isinstance(s_, ast.Try) and len(s_.body) == 1 and isinstance(s_.body[0], ast.Expr) and \
                    isinstance(s_.body[0].value, ast.Yield) and not s_.handlers and not s_.orelse:
                k_, in_try = i_, True
        n_yields = sum(isinstance(x_, (ast.Yield, ast.YieldFrom)) for x_ in own_nodes(fn))
        if k_ is None or n_yields != 1:
            raise Unsupported('a context manager whose yield is not a plain statement of the function', st,
                              self.module.relpath)
        qual = (cm.fv.owner.qual + '.' if cm.fv.owner else cm.fv.module.name + '.') + fn.name
        args = ([cm.fv.self_obj] if cm.fv.self_obj is not None else []) + list(cm.args)
        env = I._bind(cm.fv.module, fn, cm.args, cm.kwargs, cm.fv.self_obj, cm.fv.owner, qual, cm.fv.defaults)
        if cm.fv.closure is not None:
            env = Env(cm.fv.closure, env)
        sub = Frame(I, cm.fv.module, env, cm.fv.owner, cm.fv.self_obj if cm.fv.self_obj is not None
                    else cm.fv.frame_self)
        sub.fn = fn
        sub.exec_block(body[:k_])
        y_ = body[k_].body[0].value if in_try else body[k_].value
        val = sub.ev(y_.value) if y_.value is not None else None
        if st.items[0].optional_vars is not None:
            self.assign(st.items[0].optional_vars, val)
        post = (body[k_].finalbody if in_try else []) + list(body[k_ + 1:])
        if in_try:
            try:
                self.exec_block(st.body)
            finally:
                sub.exec_block(body[k_].finalbody)
            sub.exec_block(body[k_ + 1:])
        else:
            self.exec_block(st.body)        # an exception in the block is raised at the yield: the rest is not run
            sub.exec_block(post)

    def exec_for(self, st):
        I = self.I
        it = self.ev(st.iter)
        if isinstance(it, ZipV) and it.vector or isinstance(it, Elem):
            # loop over a vector of unknown length: the body is executed once
            # on the generic element; only list.append effects are allowed
            self.in_vec_loop += 1
            before = set(self.env)
            try:
                self.assign(st.target, it.generic() if isinstance(it, ZipV) else it.r)
                try:
                    self.exec_block(st.body)
                except _Continue:
                    pass
            finally:
                self.in_vec_loop -= 1
            self._vec_leak = set(self.env) - before
            if st.orelse:
                raise Unsupported('for-else over a vector', st, self.module.relpath)
            return
        if isinstance(it, Obj) and '__lines__' in it.attrs:
            if it.attrs.get('__closed__'):
                raise _RaisedExc(Raised('ValueError', st))          # I/O operation on closed file
            it = it.attrs['__lines__']          # the lines not yet handed out; a break leaves the rest in the file
        lazy = is_iter(it)
        if lazy:
            check_sources(it)
        sized = it.d if isinstance(it, DictV) else it.items if isinstance(it, ListV) and getattr(it, 'is_set', False) \
            else None
        n0 = len(sized) if sized is not None else None
        live = isinstance(it, ListV) and not lazy and sized is None and not getattr(it, 'tainted', False)
        if isinstance(it, ZipV):
            zrest = list(it.items())
            it._rest = zrest            # a zip / enumerate object: a break leaves the rest in it
            seq = list(zrest)
        elif live:
            seq = None                  # a list is iterated by position over the live object
        else:
            zrest = None
            seq = list(it.items) if lazy else self.iter_items(it, st)
        broke = False
        pos = 0
        while True:
            if sized is not None and len(sized) != n0:
                # dictionary / set changed size during iteration (asked before every round and after the last one)
                raise _RaisedExc(Raised('RuntimeError', st))
            if live:
                if pos >= len(it.items):
                    break
                if pos > 200000:
                    raise Unsupported('a loop that keeps extending the list it runs over', st, self.module.relpath)
                item = it.items[pos]
            else:
                if pos >= len(seq):
                    break
                item = seq[pos]
            pos += 1
            if lazy and it.items:
                it.items.pop(0)         # taken from the iterator; a break leaves the rest in it
            if isinstance(it, ZipV) and zrest:
                zrest.pop(0)
            self.assign(st.target, item)
            try:
                self.exec_block(st.body)
            except _Break:
                broke = True
                break
            except _Continue:
                continue
        if not broke:
            self.exec_block(st.orelse)

    def iter_items(self, it, node=None):
        if isinstance(it, ListV):
            return take(it)
        if isinstance(it, ZipV):
            got = list(it.items())
            it._rest = []                   # zip / enumerate objects are one-shot
            return got
        if isinstance(it, DictV):
            return [it.okey(k) for k in it.d.keys()]
        if isinstance(it, str):
            return list(it)
        if isinstance(it, Obj) and '__lines__' in it.attrs:
            if it.attrs.get('__closed__'):
                raise _RaisedExc(Raised('ValueError', node))        # I/O operation on closed file
            return take(it.attrs['__lines__'])
        if isinstance(it, Obj) and '__fields__' in it.attrs:
            return [it.attrs[f_] for f_ in it.attrs['__fields__'].items]        # a named tuple is a tuple
        if it is None or isinstance(it, (bool, Rat)):
            raise _RaisedExc(Raised('TypeError', node))     # not iterable
        if isinstance(it, Obj) and '__iter__' in it.opaque_methods:
            r = it.opaque_methods['__iter__'](self.I, it, [], {})
            return take(r) if isinstance(r, ListV) else self.iter_items(r, node)
        if isinstance(it, Obj) and it.ci is not None and self.I.repo.find_method(it.ci, '__iter__', missing_ok=True):
            r = self.I.call_method(it, '__iter__', [], {})
            if isinstance(r, ListV):
                return list(r.items)
        raise Unsupported('iteration over %r' % (it,), node, self.module.relpath)

    def assign(self, target, v):
        I = self.I
        if isinstance(target, ast.Name):
            if target.id in self.global_names:
                I.global_vars[(self.module.name, target.id)] = v
                return
            self.env[target.id] = v
            return
        if isinstance(target, (ast.Tuple, ast.List)):
            if isinstance(v, Obj) and '__fields__' in v.attrs:
                v = ListV(self.iter_items(v, target))
            if isinstance(v, ListV):
                items = take(v)
            elif isinstance(v, tuple):
                items = list(v)
            else:
                raise Unsupported('unpacking of %r' % (v,), target, self.module.relpath)
            stars = [i for i, t in enumerate(target.elts) if isinstance(t, ast.Starred)]
            if len(stars) == 1:
                k = stars[0]
                after = len(target.elts) - k - 1
                if len(items) < len(target.elts) - 1:
                    raise _RaisedExc(Raised('ValueError', target))
                for t, x in zip(target.elts[:k], items[:k]):
                    self.assign(t, x)
                self.assign(target.elts[k].value, ListV(list(items[k:len(items) - after])))
                for t, x in zip(target.elts[k + 1:], items[len(items) - after:] if after else []):
                    self.assign(t, x)
                return
            if len(items) != len(target.elts):
                raise _RaisedExc(Raised('ValueError', target))       # too many / not enough values to unpack
            for t, x in zip(target.elts, items):
                self.assign(t, x)
            return
        if isinstance(target, ast.Subscript) and isinstance(target.slice, ast.Slice) and not (
                target.slice.lower is None and target.slice.upper is None and target.slice.step is None):
            base = self.ev(target.value)
            if isinstance(base, ListV) and getattr(base, 'is_tuple', False):
                raise _RaisedExc(Raised('TypeError', target))
            if isinstance(base, ListV):
                def bound(e):
                    if e is None:
                        return None
                    b_ = self.ev(e)
                    if isinstance(b_, Rat) and (b_.is_const() or b_.iszero()) and \
                            (b_.iszero() or b_.const_value().denominator == 1):
                        return 0 if b_.iszero() else int(b_.const_value())
                    raise Unsupported('slice store with a symbolic bound', target, self.module.relpath)
                sl = slice(bound(target.slice.lower), bound(target.slice.upper), bound(target.slice.step))
                pos = list(range(*sl.indices(len(base.items))))
                if getattr(base, 'is_array', False):
                    if isinstance(v, ListV):
                        if len(v.items) != len(pos):
                            raise _RaisedExc(Raised('ValueError', target))     # could not broadcast
                        self.int_store(base, list(v.items), target)
                        for p_, x_ in zip(pos, v.items):
                            base.items[p_] = x_
                    elif isinstance(v, (Rat, SumV)):
                        self.int_store(base, v, target)
                        for p_ in pos:
                            base.items[p_] = v
                    else:
                        raise Unsupported('slice store of %r' % (v,), target, self.module.relpath)
                    sync_reshape(base)
                    return
                if isinstance(v, ListV) and (sl.step in (None, 1)):
                    base.items[sl] = list(v.items)
                    return
            raise Unsupported('slice store', target, self.module.relpath)
        if isinstance(target, ast.Subscript):
            base = self.ev(target.value)
            idx = self.ev(target.slice)
            if isinstance(base, ListV) and getattr(base, 'is_tuple', False):
                raise _RaisedExc(Raised('TypeError', target))       # 'tuple' object does not support item assignment
            if isinstance(base, ListV) and (getattr(base, 'frozen_view', False) or any(
                    getattr(x_, 'frozen_view', False) for x_ in base.items if isinstance(x_, ListV))):
                raise Unsupported('store through a strided view (reshape with order=)', target, self.module.relpath)
            if isinstance(base, ListV) and isinstance(idx, ListV) and getattr(idx, 'is_array', False) and \
                    idx.items and all(isinstance(x, bool) for x in idx.items):
                # a[mask] = value: the positions where the boolean array is True along the first axis
                if len(idx) != len(base):
                    raise _RaisedExc(Raised('IndexError', target))
                pos = [k_ for k_, keep in enumerate(idx.items) if keep]
                if isinstance(v, ListV):
                    if len(v) != len(pos):
                        raise _RaisedExc(Raised('ValueError', target))
                    vals = list(v.items)
                elif isinstance(v, (Rat, SumV)):
                    vals = [v] * len(pos)
                else:
                    raise Unsupported('mask store of %r' % (v,), target, self.module.relpath)
                if pos:
                    self.int_store(base, vals, target)
                for p_, x_ in zip(pos, vals):
                    base.items[p_] = x_
                sync_reshape(base)
                return
            if isinstance(base, Elem) and isinstance(idx, Elem) and isinstance(idx.r, bool) and isinstance(v, Rat) \
                    and type(base) is Elem:
                # the same on a vector of unknown length when the mask is decided for every element alike
                if idx.r:
                    self.int_store(base, v, target)
                    base.r = v
                return
            if isinstance(base, ListV) and isinstance(idx, ListV) and \
                    any(isinstance(ix_, SliceV) for ix_ in idx.items[:-1]):
                # a[:, j] = v / a[:, j, :] = table: a full slice in a leading position fans the store out over that axis
                def fan(cur_, ixs_, val_):
                    ix_ = ixs_[0]
                    if len(ixs_) == 1:
                        if isinstance(ix_, SliceV):
                            if not (ix_.full and isinstance(val_, ListV) and len(val_) == len(cur_)):
                                if ix_.full and isinstance(val_, (Rat, SumV)):
                                    val_ = ListV([val_] * len(cur_))
                                else:
                                    raise _RaisedExc(Raised('ValueError', target))
                            self.int_store(cur_, list(val_.items), target)
                            cur_.items[:] = list(val_.items)
                        else:
                            self.int_store(cur_, val_, target)
                            cur_.items[self.index(ix_, len(cur_), target)] = val_
                        sync_reshape(cur_)
                        return
                    if isinstance(ix_, SliceV):
                        if not ix_.full:
                            raise Unsupported('partial slice in a leading position of a store', target,
                                              self.module.relpath)
                        if isinstance(val_, ListV):
                            if len(val_) != len(cur_):
                                raise _RaisedExc(Raised('ValueError', target))      # shape mismatch
                            for row_, x_ in zip(cur_.items, val_.items):
                                fan(row_, ixs_[1:], x_)
                        elif isinstance(val_, (Rat, SumV)):
                            for row_ in cur_.items:
                                fan(row_, ixs_[1:], val_)
                        else:
                            raise Unsupported('store of %r along an axis' % (val_,), target, self.module.relpath)
                        return
                    if not isinstance(cur_, ListV):
                        raise _RaisedExc(Raised('IndexError', target))
                    fan(cur_.items[self.index(ix_, len(cur_), target)], ixs_[1:], val_)
                fan(base, list(idx.items), v)
                sync_reshape(base)
                return
            if isinstance(base, ListV) and isinstance(idx, ListV):
                cur = base
                for ix in idx.items[:-1]:
                    cur = cur.items[self.index(ix, len(cur), target)]
                last = idx.items[-1]
                if isinstance(last, SliceV):
                    if last.full and isinstance(v, ListV) and len(v) == len(cur):
                        self.int_store(cur, list(v.items), target)
                        cur.items[:] = list(v.items)
                        sync_reshape(cur)
                        sync_reshape(base)
                        return
                    raise _RaisedExc(Raised('ValueError', target))      # shape mismatch in row assignment
                self.int_store(cur, v, target)
                cur.items[self.index(last, len(cur), target)] = v
                sync_reshape(cur)
                sync_reshape(base)
                return
            if isinstance(base, ListV) and isinstance(idx, SliceV):
                if idx.full and isinstance(v, ListV) and (len(v) == len(base) or not getattr(base, 'is_array', False)):
                    self.int_store(base, list(v.items), target)
                    base.items[:] = list(v.items)           # a[:] = values (a list takes any length)
                    sync_reshape(base)
                    return
                if idx.full and isinstance(v, ListV):
                    raise _RaisedExc(Raised('ValueError', target))
                if idx.full and isinstance(v, (Rat, SumV)) and getattr(base, 'is_array', False) and \
                        not any(isinstance(x, ListV) for x in base.items):
                    self.int_store(base, v, target)
                    base.items[:] = [v] * len(base.items)   # a[:] = scalar
                    sync_reshape(base)
                    return
                raise Unsupported('slice store', target, self.module.relpath)
            if isinstance(base, ListV):
                i = self.index(idx, len(base), target)
                if self.in_vec_loop:
                    raise Unsupported('indexed store inside vector loop', target, self.module.relpath)
                self.int_store(base, v, target)
                base.items[i] = v
                sync_reshape(base)
                return
            if isinstance(base, DictV):
                base.d[base.nkey(idx)] = v
                return
            raise Unsupported('subscript store on %r' % (base,), target, self.module.relpath)
        if isinstance(target, ast.Attribute):
            base = self.ev(target.value)
            if isinstance(base, ClassInfo):
                if base.qual not in I.classes_ready or target.attr.startswith('__'):
                    raise Unsupported('store into the class %s outside a class decorator' % base.qual, target,
                                      self.module.relpath)
                I.class_patches[(base.qual, target.attr)] = v       # cls.name = value inside a class decorator
                return
            if isinstance(base, FuncRef) and base.self_obj is None and target.attr not in (
                    '__code__', '__defaults__', '__kwdefaults__', '__globals__', '__closure__', '__call__'):
                # functions have a writable __dict__ (__name__, __doc__, __wrapped__, own attributes): nothing in
                # the call protocol changes
                I.func_attrs[(id(base.fn), id(base.closure), target.attr)] = v
                return
            if isinstance(base, Obj):
                if base.ci is not None:
                    if I.repo.find_method(base.ci, '__setattr__', missing_ok=True) and \
                            not getattr(self, 'raw_store', False):
                        # the class routes every attribute store through its own __setattr__ (which ends in
                        # super().__setattr__ / object.__setattr__: the plain store below)
                        r_ = I.call_method(base, '__setattr__', [target.attr, v], {})
                        if isinstance(r_, Raised):
                            raise _RaisedExc(r_)
                        return
                    got = I.repo.find_method(base.ci, target.attr + '.setter', missing_ok=True)
                    if got:
                        I.call_function(got[0].module, got[1], [v], {}, self_obj=base, owner=got[0])
                        return
                    got = I.repo.find_method(base.ci, target.attr, missing_ok=True)
                    if got and any(ast.unparse(d) in ('property', 'functools.cached_property', 'cached_property')
                                   for d in got[1].decorator_list):
                        if any(ast.unparse(d) == 'property' for d in got[1].decorator_list):
                            raise _RaisedExc(Raised('AttributeError', target))      # property without a setter
                    mp = self.made_property(base, target.attr, target)
                    if mp is not None:
                        if mp[1] is None:
                            raise _RaisedExc(Raised('AttributeError', target))      # property without a setter
                        self.apply(mp[1], [v], {}, target)
                        return
                base.attrs[target.attr] = v
                base.writes.append(target.attr)
                return
        raise Unsupported('assignment target', target, self.module.relpath)

    def index(self, idx, n, node=None):
        if isinstance(idx, bool):
            idx = C(1 if idx else 0)            # bool is an int: seq[False], seq[True]
        if isinstance(idx, PyFloat):
            raise _RaisedExc(Raised('TypeError', node))     # list indices must be integers, not float
        if isinstance(idx, Rat) and idx.is_const() and idx.const_value().denominator == 1:
            i = int(idx.const_value())
            if i < 0:
                i += n
            if not 0 <= i < n:
                raise _RaisedExc(Raised('IndexError', node))
            return i
        raise Unsupported('symbolic index', node, self.module.relpath)

    # ---- expressions -----------------------------------------------------
    def ev(self, n):
        I = self.I
        if isinstance(n, ast.Constant) and n.value is Ellipsis:
            return SliceV(True)         # a[i, ...]: keeps the remaining axes
        if isinstance(n, ast.Constant):
            v = n.value
            if isinstance(v, bool) or v is None or isinstance(v, str):
                return v
            if isinstance(v, (int, float)):
                tok = self.module.segment(n)
                if tok is None:
                    tok = repr(v)
                r_ = C(token_num(tok).v)
                return as_pyfloat(r_) if isinstance(v, float) else r_
            raise Unsupported('constant %r' % (v,), n, self.module.relpath)
        if isinstance(n, ast.Name):
            if n.id in self.env and n.id not in self.global_names:
                return self.env[n.id]
            if I.global_vars and (self.module.name, n.id) in I.global_vars:
                return I.global_vars[(self.module.name, n.id)]     # rebound through a ``global`` statement
            return self.global_name(n)
        if isinstance(n, ast.BinOp) and isinstance(n.op, ast.BitAnd):
            la, rb = self.ev(n.left), self.ev(n.right)
            if isinstance(la, MaskV) and isinstance(rb, MaskV):
                return MaskV(la.terms + rb.terms)
            if isinstance(la, bool) and isinstance(rb, bool):
                return la and rb
            if isinstance(la, ListV) and isinstance(rb, ListV) and len(la) == len(rb) and la.items and \
                    all(isinstance(x, bool) for x in la.items + rb.items) and not getattr(la, 'is_set', False):
                r_ = ListV([x and y for x, y in zip(la.items, rb.items)])       # element by element
                r_.is_array = True
                return r_
            return I.binop('&', la, rb)
        if isinstance(n, ast.BinOp):
            if type(n.op) not in _OPS:
                raise Unsupported('operator', n, self.module.relpath)
            if isinstance(n.op, ast.Mod):
                left = self.ev(n.left)
                right = self.ev(n.right)
                if isinstance(left, str) and left not in I.sym_strings:
                    return I.percent_format(left, right, n)
                if isinstance(left, SegStr) or (isinstance(left, str) and left in I.sym_strings):
                    raise Unsupported('% formatting with a symbolic template', n, self.module.relpath)
                if isinstance(left, Rat) and isinstance(right, Rat):
                    return I.binop('%', left, right)
                raise Unsupported('operator %', n, self.module.relpath)
            a = self.ev(n.left)
            b = self.ev(n.right)
            try:
                return I.binop(_OPS[type(n.op)], a, b)
            except ZeroDivisionError:
                raise Unsupported('division by zero in normal form', n, self.module.relpath)
        if isinstance(n, ast.UnaryOp):
            v = self.ev(n.operand)
            if isinstance(n.op, ast.USub):
                return I.neg(v)
            if isinstance(n.op, ast.UAdd):
                return v
            if isinstance(n.op, ast.Not) and isinstance(v, RealTest):
                return RealTest(v.atom, not v.negated)
            if isinstance(n.op, ast.Not):
                return not I.truth(v, n)
            if isinstance(n.op, ast.Invert) and 'numpy.logical_not' in I.native and (
                    (isinstance(v, ListV) and v.items and all(isinstance(x, bool) for x in v.items)) or
                    (isinstance(v, Elem) and isinstance(v.r, bool))):
                return I.native['numpy.logical_not'](I, self, [v], {}, n)      # ~mask of a boolean array
            raise Unsupported('unary operator', n, self.module.relpath)
        if isinstance(n, ast.BoolOp):
            if isinstance(n.op, ast.And):
                v = True
                for e in n.values:
                    v = self.ev(e)
                    if not I.truth(v, e):
                        return v
                return v
            v = False
            for e in n.values:
                v = self.ev(e)
                if I.truth(v, e):
                    return v
            return v
        if isinstance(n, ast.Compare):
            left = self.ev(n.left)
            ln = n.left
            for op, rn in zip(n.ops, n.comparators):
                right = self.ev(rn)
                o = _CMP[type(op)]
                if o in ('is', 'is not') and len(n.ops) == 1:
                    # the result of a numpy function is a numpy value: never the singleton True / False
                    for val_, node_, other_ in ((left, ln, right), (right, rn, left)):
                        if isinstance(other_, bool) and isinstance(val_, bool) and isinstance(node_, ast.Call):
                            dn_ = self.dotted(node_.func)
                            if dn_ is not None and dn_.split('.')[0] == 'numpy':
                                return o == 'is not'
                ln = rn
                if o in ('<', '<=', '>', '>=') and (
                        (isinstance(left, ListV) and getattr(left, 'is_array', False)) or
                        (isinstance(right, ListV) and getattr(right, 'is_array', False))):
                    if len(n.ops) != 1:
                        raise Unsupported('chained array comparison', n, self.module.relpath)
                    ls = left.items if isinstance(left, ListV) else None
                    rs = right.items if isinstance(right, ListV) else None
                    m = len(ls if ls is not None else rs)
                    out = ListV([I.compare(o, ls[i] if ls is not None else left,
                                           rs[i] if rs is not None else right, n) for i in range(m)])
                    out.is_array = True
                    return out
                if o in ('==', '!=') and len(n.ops) == 1 and (
                        (isinstance(left, Rat) and isinstance(right, ListV) and right.items and
                         not getattr(right, 'is_set', False) and all(isinstance(x, Rat) for x in right.items)) or
                        (isinstance(right, Rat) and isinstance(left, ListV) and left.items and
                         not getattr(left, 'is_set', False) and all(isinstance(x, Rat) for x in left.items))):
                    # number == sequence of numbers: element by element when either side is a numpy value (and plain
                    # False for two builtin values - which of the two is not tracked, so the result may only be
                    # used where an array is expected; its truth value is refused)
                    sc, seq = (left, right) if isinstance(left, Rat) else (right, left)
                    out = ListV([I.compare(o, sc, x, n) for x in seq.items])
                    out.is_array = True
                    out.ambiguous_eq = True
                    return out
                if o in ('<', '<=', '>', '>=', '==', '!=') and isinstance(left, ListV) and isinstance(right, ListV) \
                        and getattr(left, 'is_set', False) and getattr(right, 'is_set', False) and len(n.ops) == 1:
                    def has(c_, x_):
                        return any(I.struct_eq(x_, y_) if not isinstance(x_, str) else x_ == y_ for y_ in c_.items)
                    sub_ = all(has(right, x_) for x_ in left.items)
                    sup_ = all(has(left, x_) for x_ in right.items)
                    return {'<=': sub_, '<': sub_ and not sup_, '>=': sup_, '>': sup_ and not sub_,
                            '==': sub_ and sup_, '!=': not (sub_ and sup_)}[o]
                if o in ('<', '<=', '>', '>=') and (getattr(left, 'kind', None) is not None or
                                                     getattr(right, 'kind', None) is not None):
                    # a data vector compared element by element: which elements pass is not one truth value
                    if len(n.ops) != 1:
                        raise Unsupported('chained comparison of a data vector', n, self.module.relpath)
                    return MaskV([(o, left.r if isinstance(left, Elem) else left,
                                   right.r if isinstance(right, Elem) else right)])
                if o in ('<', '<=', '>', '>=') and len(n.ops) == 1 and (
                        (isinstance(left, Elem) and isinstance(left.r, Rat) and isinstance(right, Rat)) or
                        (isinstance(right, Elem) and isinstance(right.r, Rat) and isinstance(left, Rat))):
                    # every element of a generic vector relates to the number as its generic element does
                    return Elem(I.compare(o, left.r if isinstance(left, Elem) else left,
                                          right.r if isinstance(right, Elem) else right, n))
                if not I.compare(o, left, right, n):
                    return False
                left = right
            return True
        if isinstance(n, ast.IfExp):
            return self.ev(n.body) if I.truth(self.ev(n.test), n) else self.ev(n.orelse)
        if isinstance(n, (ast.List, ast.Tuple)):
            out_ = []
            for e in n.elts:
                if isinstance(e, ast.Starred):
                    out_.extend(self.iter_items(self.ev(e.value), e))       # [*a, b]
                else:
                    out_.append(self.ev(e))
            r_ = ListV(out_)
            if isinstance(n, ast.Tuple):
                r_.is_tuple = True          # immutable: no item assignment, no append / sort / ...
            return r_
        if isinstance(n, ast.Dict):
            dv = DictV()
            for k, v in zip(n.keys, n.values):
                if k is None:
                    inner = self.ev(v)
                    if not isinstance(inner, DictV):
                        raise Unsupported('dict unpacking', n, self.module.relpath)
                    dv.d.update(inner.d)
                    dv.keyobj.update(inner.keyobj)
                else:
                    dv.d[dv.nkey(self.ev(k))] = self.ev(v)
            return dv
        if isinstance(n, ast.NamedExpr):
            v = self.ev(n.value)
            self.assign(n.target, v)
            return v
        if isinstance(n, ast.Set):
            vals = []
            for e in n.elts:
                vals.extend(self.iter_items(self.ev(e.value), e) if isinstance(e, ast.Starred) else [self.ev(e)])
            return make_set(I, vals, n)
        if isinstance(n, ast.ListComp):
            return self.listcomp(n)
        if isinstance(n, ast.GeneratorExp):
            src_ = self.ev(n.generators[0].iter) if isinstance(n.generators[0].iter, ast.Name) else None
            file_ = src_ if isinstance(src_, Obj) and '__lines__' in src_.attrs else None
            if file_ is not None:
                src_ = file_.attrs['__lines__']
            over_iter = is_iter(src_)
            g_ = self.listcomp(n)
            if isinstance(g_, ListV):
                g_.is_generator = True      # may be consumed by next()
                if file_ is not None:
                    g_.sources = [file_]    # the body runs when the generator is consumed: the file must be open then
                # evaluated eagerly here: when it runs over another one-shot iterator that one is drained now, which is
                # only right if this generator is itself consumed to the end
                g_.drains_other = src_ if over_iter else None
            return g_
        if isinstance(n, ast.DictComp):
            out = DictV()

            def rec_d(sub, gens):
                if not gens:
                    k = sub.ev(n.key)
                    out.d[out.nkey(k)] = sub.ev(n.value)
                    return
                g_ = gens[0]
                for item in sub.iter_items(sub.ev(g_.iter), n):
                    sub.assign(g_.target, item)
                    if all(self.I.truth(sub.ev(c_), c_) for c_ in g_.ifs):
                        rec_d(sub, gens[1:])
            # a comprehension has ONE scope of its own: its loop variables are rebound in it on every round (a lambda
            # made inside sees the last value), reads fall through to the enclosing scope, writes do not leak out
            rec_d(Frame(self.I, self.module, Env(self.env, {}), self.owner, self.self_obj), list(n.generators))
            return out
        if isinstance(n, ast.SetComp):
            r_ = self.listcomp(n)
            if isinstance(r_, ListV) and all(isinstance(I.plain(x), str) for x in r_.items):
                s_ = ListV(list(dict.fromkeys(I.plain(x) for x in r_.items)))
                s_.is_set = True
                return s_
            if isinstance(r_, ListV) and all(isinstance(x, Rat) for x in r_.items):
                keep = []
                for x in r_.items:
                    dup = False
                    for y in keep:
                        d_ = x - y
                        if d_.iszero():
                            dup = True
                        elif not d_.is_const():
                            raise Unsupported('set of symbolic numbers (equality undecided)', n, self.module.relpath)
                    if not dup:
                        keep.append(x)
                s_ = ListV(keep)
                s_.is_set = True
                return s_
            raise Unsupported('set comprehension of non-string items', n, self.module.relpath)
        if isinstance(n, ast.Subscript):
            return self.subscript(n)
        if isinstance(n, ast.Attribute):
            return self.attribute(n)
        if isinstance(n, ast.Call):
            return self.call(n)
        if isinstance(n, ast.JoinedStr):
            out = SegStr()
            for part in n.values:
                if isinstance(part, ast.Constant):
                    out = out + str(part.value)
                    continue
                v = self.ev(part.value)
                spec = ''
                if part.format_spec is not None:
                    sv = self.ev(part.format_spec)
                    sv = I.plain(sv)
                    if not isinstance(sv, str) or sv in I.sym_strings:
                        raise Unsupported('symbolic format spec in an f-string', n, self.module.relpath)
                    spec = sv
                if part.conversion in (115, 114):       # !s / !r
                    v = builtin_call(I, self, 'str', [v], {}, n)
                if isinstance(v, DictV) or (isinstance(v, (Obj, ClassInfo)) and not (
                        isinstance(v, Obj) and '__format__' in v.opaque_methods)):
                    v = builtin_call(I, self, 'str', [v], {}, n)
                try:
                    out = out + I.format_piece(v, spec)
                except Unsupported:
                    # same convention as str.format: text of a value that has no abstract spelling (a class, a
                    # function) is an opaque literal; it can only matter in messages
                    PLACEHOLDER_LOG.append((CUR_REL[0], getattr(n, 'lineno', 0)))
                    out = out + '<formatted>'
            return I.plain(out)
        if isinstance(n, ast.Lambda):
            return FuncRef(self.module, n, None, self.owner, closure=self.env, defaults=self.def_defaults(n),
                           frame_self=self.self_obj)
        if isinstance(n, ast.Slice):
            return SliceV(n.lower is None and n.upper is None and n.step is None)
        if isinstance(n, ast.YieldFrom):
            if getattr(self, 'yields', None) is None:
                raise Unsupported('yield outside a generator frame', n, self.module.relpath)
            self.yields.extend(self.iter_items(self.ev(n.value), n))
            return None
        if isinstance(n, ast.Yield):
            if getattr(self, 'yields', None) is None:
                raise Unsupported('yield outside a generator frame', n, self.module.relpath)
            self.yields.append(self.ev(n.value) if n.value is not None else None)
            return None
        raise Unsupported('expression %s' % type(n).__name__, n, self.module.relpath)

    def listcomp(self, n):
        if len(n.generators) != 1:
            # nested generators: for a in A for b in B(a) if cond ... over bounded sequences
            out = []

            def rec(sub, gens):
                if not gens:
                    out.append(sub.ev(n.elt))
                    return
                g_ = gens[0]
                it_ = sub.ev(g_.iter)
                if isinstance(it_, Elem):
                    raise Unsupported('nested comprehension over a vector of unknown length', n, self.module.relpath)
                for item in sub.iter_items(it_, n):
                    sub.assign(g_.target, item)
                    if all(self.I.truth(sub.ev(cond), cond) for cond in g_.ifs):
                        rec(sub, gens[1:])
            rec(Frame(self.I, self.module, Env(self.env, {}), self.owner, self.self_obj), list(n.generators))
            return ListV(out)
        g = n.generators[0]
        it = self.ev(g.iter)
        if isinstance(it, ZipV) and it.vector:
            it = Elem(it.generic())
        if isinstance(it, Elem):
            sub = Frame(self.I, self.module, Env(self.env, {}), self.owner, self.self_obj)
            sub.assign(g.target, it.r)
            selected = None
            for cond in g.ifs:
                cv = sub.ev(cond)
                if isinstance(cv, RealTest):
                    selected = cv.atom
                if not self.I.truth(cv, cond):
                    raise Unsupported('filter rejects the generic element', n, self.module.relpath)
            if selected is not None:
                # [x for x in roots if np.isreal(x)]: the entries that pass are the real roots
                plain_, real_ = Rat.atom(selected), Rat.atom(_real_roots(self.I, selected))
                hit_ = False
                for k_ in list(sub.env.keys()):
                    if isinstance(k_, str) and dict.__contains__(sub.env, k_) and isinstance(sub.env[k_], Rat) and \
                            sub.env[k_].eq(plain_):
                        sub.env[k_] = real_         # the loop variables that hold the root pass as real roots
                        hit_ = True
                if not hit_:
                    raise Unsupported('np.isreal filter on something other than the loop variable', n,
                                      self.module.relpath)
            return Elem(sub.ev(n.elt))
        out = []
        sub = Frame(self.I, self.module, Env(self.env, {}), self.owner, self.self_obj)       # one scope (see above)
        for item in self.iter_items(it, n):
            sub.assign(g.target, item)
            if all(self.I.truth(sub.ev(cond), cond) for cond in g.ifs):
                out.append(sub.ev(n.elt))
        return ListV(out)

    def subscript(self, n):
        base = self.ev(n.value)
        if hasattr(base, 'pmv_getitem'):
            return base.pmv_getitem(self.I, self, self.ev(n.slice), n)
        if isinstance(base, SegStr) or (isinstance(base, str) and base in self.I.sym_strings):
            sb = self.I.seg(base)

            def ci(x):
                if x is None:
                    return None
                v = self.ev(x)
                if isinstance(v, Rat) and v.is_const() and v.const_value().denominator == 1:
                    return int(v.const_value())
                raise Unsupported('symbolic index into an abstract string', n, self.module.relpath)
            try:
                if isinstance(n.slice, ast.Slice):
                    if n.slice.step is not None:
                        raise Unsupported('stepped slice of an abstract string', n, self.module.relpath)
                    return self.I.plain(sb.slice(ci(n.slice.lower), ci(n.slice.upper)))
                i = ci(n.slice)
                if i < 0:
                    i += len(sb)
                if not 0 <= i < len(sb):
                    raise _RaisedExc(Raised('IndexError', n))
                return self.I.plain(sb.char_at(i))
            except Cut as e:
                self.I.cuts.append((n, str(e)))
                # the characters of a field are not known: the result is an opaque piece of that field
                return SegStr.field('piece-of:%r' % (e.seg.value,), 1, e.seg.cls)
        if isinstance(base, str):
            def cj(x):
                if x is None:
                    return None
                v = self.ev(x)
                if isinstance(v, Rat) and v.is_const() and v.const_value().denominator == 1:
                    return int(v.const_value())
                raise Unsupported('symbolic index into a string', n, self.module.relpath)
            if isinstance(n.slice, ast.Slice):
                return base[cj(n.slice.lower):cj(n.slice.upper):cj(n.slice.step)]
            try:
                return base[cj(n.slice)]
            except IndexError:
                raise _RaisedExc(Raised('IndexError', n))
        if isinstance(n.slice, ast.Slice):
            if isinstance(base, ListV):
                lo = self.ev(n.slice.lower) if n.slice.lower else None
                hi = self.ev(n.slice.upper) if n.slice.upper else None
                stp = self.ev(n.slice.step) if n.slice.step else None

                def ci(x):
                    if x is None:
                        return None
                    if isinstance(x, Rat) and x.is_const() and x.const_value().denominator == 1:
                        return int(x.const_value())
                    raise Unsupported('symbolic slice', n, self.module.relpath)
                r = ListV(base.items[ci(lo):ci(hi):ci(stp)])
                r.is_array = getattr(base, 'is_array', False)
                if getattr(base, 'is_tuple', False):
                    r.is_tuple = True
                if r.is_array and not any(isinstance(x, ListV) for x in r.items):
                    # a basic slice of an array is a view of it (a slice of a list is a copy)
                    pos = list(range(*slice(ci(lo), ci(hi), ci(stp)).indices(len(base.items))))
                    r.items = ViewItems([(base, k_) for k_ in pos])
                    r.dtype = getattr(base, 'dtype', None)
                return r
            raise Unsupported('slice of %r' % (base,), n, self.module.relpath)
        idx = self.ev(n.slice)
        return self.getitem(base, idx, n)

    def getitem(self, base, idx, n=None):
        """base[idx] for evaluated operands (no slices)"""
        if isinstance(base, Obj) and '__fields__' in base.attrs and isinstance(idx, Rat):
            vals_ = [base.attrs[f_] for f_ in base.attrs['__fields__'].items]
            return vals_[self.index(idx, len(vals_), n)]
        if isinstance(base, Elem) and isinstance(idx, MaskV) and 'numpy.extract' in self.I.native:
            return self.I.native['numpy.extract'](self.I, self, [idx, base], {}, n)     # a[mask] == np.extract(mask, a)
        if isinstance(base, ListV) and isinstance(idx, str):
            raise _RaisedExc(Raised('TypeError', n))
        if isinstance(base, ListV) and isinstance(idx, ListV) and idx.items and \
                all(isinstance(x, bool) for x in idx.items):
            # boolean mask along the first axis
            if len(idx) != len(base):
                raise _RaisedExc(Raised('IndexError', n))
            r = ListV([x for x, keep in zip(base.items, idx.items) if keep])
            r.is_array = True
            return r
        if isinstance(base, ListV) and isinstance(idx, ListV) and len(idx) == 2 and \
                isinstance(idx.items[0], SliceV) and idx.items[0].full and isinstance(idx.items[1], ListV) and \
                all(isinstance(x, bool) for x in idx.items[1].items):
            # a[:, mask]: boolean mask along the second axis
            mask = idx.items[1].items
            r = ListV([])
            for row in base.items:
                if not isinstance(row, ListV) or len(row) != len(mask):
                    raise _RaisedExc(Raised('IndexError', n))
                rr = ListV([x for x, keep in zip(row.items, mask) if keep])
                rr.is_array = True
                r.items.append(rr)
            r.is_array = True
            return r
        if isinstance(base, ListV) and isinstance(idx, ListV):
            def nd(cur, ixs):
                # a[i, :, k]: integers select, full slices keep the axis
                if not ixs:
                    return cur
                if not isinstance(cur, ListV):
                    raise _RaisedExc(Raised('IndexError', n))
                ix = ixs[0]
                if isinstance(ix, SliceV):
                    if not ix.full:
                        raise Unsupported('partial slice inside a multi-dimensional index', n, self.module.relpath)
                    r_ = ListV([nd(x, ixs[1:]) for x in cur.items])
                    r_.is_array = True
                    rest_ = ixs[1:]
                    if rest_ and all(isinstance(q_, Rat) for q_ in rest_) and \
                            not any(isinstance(x, ListV) for x in r_.items):
                        # a[:, j]: a column - a view of the array
                        sinks_ = []
                        for x in cur.items:
                            c_ = x
                            for q_ in rest_[:-1]:
                                c_ = c_.items[self.index(q_, len(c_), n)]
                            sinks_.append((c_, self.index(rest_[-1], len(c_), n)))
                        r_.items = ViewItems(sinks_)
                        r_.dtype = getattr(cur, 'dtype', None)
                    return r_
                return nd(cur.items[self.index(ix, len(cur), n)], ixs[1:])
            return nd(base, list(idx.items))
        if isinstance(base, ListV) and (getattr(base, 'is_set', False) or is_iter(base)):
            raise _RaisedExc(Raised('TypeError', n))        # a set / an iterator is not subscriptable
        if isinstance(base, ListV):
            return base.items[self.index(idx, len(base), n)]
        if isinstance(base, DictV):
            k = self.I.text_key(base, idx, n)
            if k in base.d:
                return base.d[k]
            if isinstance(base, CounterV):
                return C(0)                     # Counter.__missing__: zero, nothing stored
            if isinstance(base, DefaultDictV) and base.factory is not None:
                v_ = self.apply(base.factory, [], {}, n)
                base.d[k] = v_                  # defaultdict stores what the factory made
                return v_
            raise _RaisedExc(Raised('KeyError', n, [k]))      # the message of a dict's KeyError is the key
        if isinstance(base, TableRef):
            return base.lookup(self, idx, n)
        if isinstance(base, Obj) and base.ci is not None and \
                self.I.repo.find_method(base.ci, '__getitem__', missing_ok=True):
            return self.I.call_method(base, '__getitem__', [idx], {})
        if isinstance(base, Obj) and '__getitem__' in base.opaque_methods:
            return base.opaque_methods['__getitem__'](self.I, base, [idx], {})      # a stand-in object of the rule
        if isinstance(base, Obj) and base.ci is None and not base.closed:
            # an open stand-in object: whether the real object can be subscripted is not known
            raise Unsupported('subscript of the stand-in object %s (no __getitem__ given)' % base.name, n,
                              self.module.relpath)
        if isinstance(base, Obj) or base is None or isinstance(base, bool):
            raise _RaisedExc(Raised('TypeError', n))        # not subscriptable
        if isinstance(base, (ListV, str)) and isinstance(idx, str):
            raise _RaisedExc(Raised('TypeError', n))        # list/str indices must be integers
        if isinstance(base, Elem) and isinstance(idx, Elem) and getattr(idx, 'mask_all', False):
            ra = getattr(idx, 'real_of', None)
            if ra is not None:
                if _root_atom(self.I, base.r) == 'RE{%s}' % ra:
                    return Elem(Rat.atom(_real_roots(self.I, ra)))      # real parts of the real entries: the entries
                if _root_atom(self.I, base.r) != ra:
                    raise Unsupported('a real-root mask applied to another vector', n)
                return Elem(Rat.atom(_real_roots(self.I, ra)))
            return base
        if isinstance(base, Elem) and getattr(base, 'kind', None) is not None and isinstance(base.r, Rat) \
                and isinstance(idx, Rat):
            # one entry of a data vector: a value of the same kind as its generic element, at an unknown position
            if base.r.iszero() or base.kind in ('zero',):
                return base.r
            if base.kind == 'const':
                return base.r
            name = 'AT{%r}[%r]' % (base.r, idx)
            for a_ in base.r.atoms():
                if a_ in self.I.data_kind:
                    self.I.data_kind[name] = self.I.data_kind[a_]
            return self.I.D.sym(name)
        if isinstance(base, Elem) and isinstance(idx, Elem) and isinstance(idx.r, bool) and type(base) is Elem:
            # a mask that is decided for every element alike: all of the vector (a copy) or none of it
            if idx.r:
                return Elem(base.r)
            r_ = ListV([])
            r_.is_array = True
            return r_
        if isinstance(base, Elem):
            raise Unsupported('indexing into a vector of unknown length', n, self.module.relpath)
        if isinstance(base, Rat) and isinstance(idx, Rat):
            # scalar[...]: numpy 0-d / item of a symbolic array attribute
            if base.n.is_monomial() and base.is_monomial():
                name = 'idx{%r}[%r]' % (base, idx)
                return self.I.D.sym(name)
        raise Unsupported('subscript of %r' % (base,), n, self.module.relpath)

    def attribute(self, n):
        I = self.I
        if isinstance(n.value, ast.Call) and isinstance(n.value.func, ast.Name) and n.value.func.id == 'super' \
                and not n.value.args and isinstance(self.self_obj, Obj) and self.self_obj.ci is not None:
            # super().method used as a value (handed to a helper): bound to self, resolved after the current class
            got = I.repo.find_method(self.self_obj.ci, n.attr, after=self.owner)
            return FuncRef(got[0].module, got[1], self.self_obj, got[0])
        # dotted global (np.pi, c.Na, module.attr)
        if isinstance(n.value, ast.Name) and n.value.id not in self.env:
            r = I.repo.resolve_expr(self.module, n)
            al = self.alias(n.value.id)
            if al and al[0] == 'module':
                full = al[1] + '.' + n.attr
                if full in GLOBAL_ATTRS:
                    return GLOBAL_ATTRS[full](I)
                if full in I.native:
                    return NativeRef(full)          # the same model whether the function is called or handed on
                if r is not None:
                    return self.entity(r, n)
                if full in I.native:
                    return NativeRef(full)          # a library function used as a value (select = np.max if ...)
                raise Unsupported('unknown global %s' % full, n, self.module.relpath)
        base = self.ev(n.value)
        if isinstance(base, FuncRef) and (id(base.fn), id(base.closure), n.attr) in I.func_attrs:
            return I.func_attrs[(id(base.fn), id(base.closure), n.attr)]       # an attribute stored on the function
        if isinstance(base, SuperV):
            ci_ = base.self_obj if isinstance(base.self_obj, ClassInfo) else base.self_obj.ci
            if n.attr == '__setattr__' and isinstance(base.self_obj, Obj) and \
                    not I.repo.find_method(ci_, n.attr, after=base.owner, missing_ok=True):
                return self.plain_setattr(base.self_obj)        # object.__setattr__
            got = I.repo.find_method(ci_, n.attr, after=base.owner)
            return FuncRef(got[0].module, got[1], base.self_obj, got[0])
        if base is None:
            raise _RaisedExc(Raised('AttributeError', n))
        if isinstance(base, Obj):
            return self.obj_attr(base, n.attr, n)
        if isinstance(base, TypeOf) and n.attr in ('__name__', '__qualname__'):
            v_ = base.v
            if isinstance(v_, Obj) and v_.ci is not None:
                return v_.ci.name
            if isinstance(v_, Rat):
                return I.number_type(v_, n)
            if isinstance(v_, ListV):
                return 'ndarray' if getattr(v_, 'is_array', False) else 'list'
            if isinstance(v_, bool):
                return 'bool'
            if isinstance(v_, (str, SegStr)):
                return 'str'
            if isinstance(v_, DictV):
                return 'dict'
            if v_ is None:
                return 'NoneType'
            raise Unsupported('name of the type of %r' % (v_,), n, self.module.relpath)
        if isinstance(base, ClassInfo) and n.attr in ('__name__', '__qualname__'):
            return base.name
        if isinstance(base, ClassInfo) and n.attr == '__module__':
            return base.module.name
        if isinstance(base, ListV) and n.attr == 'T' and not getattr(base, 'is_array', False):
            if not any(isinstance(x, ListV) for x in base.items):
                return base                 # the transpose of a 1-D array is the array itself
            if not all(isinstance(x, ListV) for x in base.items):
                raise Unsupported('transpose of a ragged array', n, self.module.relpath)
            return _transpose(base)
        if isinstance(base, (str, SegStr)) and n.attr not in dir(str):
            raise _RaisedExc(Raised('AttributeError', n))
        if isinstance(base, ListV) and getattr(base, 'is_array', False) and n.attr in ('size', 'ndim', 'shape', 'T'):
            sh = []
            cur_ = base
            while isinstance(cur_, ListV):
                sh.append(len(cur_))
                cur_ = cur_.items[0] if cur_.items else None
            if n.attr == 'ndim':
                return C(len(sh))
            if n.attr == 'shape':
                return ListV([C(k_) for k_ in sh])
            if n.attr == 'size':
                tot_ = 1
                for k_ in sh:
                    tot_ *= k_
                return C(tot_)
            if len(sh) == 1:
                return base
            if len(sh) == 2 and all(isinstance(r_, ListV) and len(r_) == sh[1] and
                                    not any(isinstance(x_, ListV) for x_ in r_.items) for r_ in base.items):
                # the transpose of a table is a view: its rows are the columns of the table, and what is stored into
                # them (element by element or in place) is stored into the table
                cols_ = []
                for j_ in range(sh[1]):
                    col_ = ListV([])
                    col_.items = ViewItems([(r_, j_) for r_ in base.items])
                    col_.is_array = True
                    col_.dtype = getattr(base, 'dtype', None)
                    cols_.append(col_)
                tv_ = ListV(cols_)
                tv_.is_array = True
                tv_.dtype = getattr(base, 'dtype', None)
                tv_.view_of = (base, [1, 0])
                return tv_
            tv_ = nd_transpose(base, list(reversed(range(len(sh)))))
            tv_.view_of = (base, list(reversed(range(len(sh)))))
            return tv_
        if isinstance(base, (Elem, Rat)) and n.attr == 'real':
            return _np_real(I, self, [base], {}, n)
        if isinstance(base, ListV) and n.attr == 'real' and getattr(base, 'is_array', False):
            return base
        if isinstance(base, (ListV, Elem, Rat, SumV, DictV, str, SegStr, TableRef, bool)):
            return BoundNative(base, n.attr)
        if isinstance(base, Builtin) and base.name == 'dict' and n.attr == 'fromkeys':
            return Builtin('dict.fromkeys')
        if isinstance(base, Builtin) and base.name in ('str', 'list', 'dict', 'tuple', 'set', 'float', 'int'):
            mname = n.attr
            return _stdlib.CallableV(lambda I_, fr_, a, k, n_: bound_native(I_, fr_, BoundNative(a[0], mname),
                                                                           list(a[1:]), k, n_), 'unbound ' + mname)
        if isinstance(base, Module):
            r = I.repo.lookup(base, n.attr)
            if r is None:
                raise Unsupported('unknown attribute %s.%s' % (base.name, n.attr), n, self.module.relpath)
            return self.entity(r, n)
        if isinstance(base, ClassInfo) and (base.qual, n.attr) in I.class_patches:
            return I.class_patches[(base.qual, n.attr)]
        if isinstance(base, ClassInfo):
            got = I.repo.find_method(base, n.attr, missing_ok=True)
            if got:
                fr_ = FuncRef(got[0].module, got[1], None, got[0])
                if any(ast.unparse(d) == 'classmethod' for d in got[1].decorator_list):
                    fr_.self_obj = base
                return fr_
            # attribute defined in a class body, read through the class (cls.x, type(self).x, ClassName.x): the one
            # value all instances share - the same store as the read through an instance (obj_attr)
            for k in base.mro:
                if n.attr in k.class_attrs:
                    if isinstance(k.class_attrs[n.attr], ast.Call):
                        break               # may be a descriptor / property object: not modelled
                    key = (k.qual, n.attr)
                    if key not in I.module_globals:
                        I.module_globals[key] = Frame(I, k.module, {}, k, None).ev(k.class_attrs[n.attr])
                    return I.module_globals[key]
        if n.attr == '__code__' and isinstance(base, (FuncRef, BoundOpaque)):
            return code_object(I, base, n)
        if n.attr == '__name__' and isinstance(base, FuncRef) and hasattr(base.fn, 'name'):
            return base.fn.name
        if n.attr == '__doc__' and isinstance(base, FuncRef):
            return ast.get_docstring(base.fn, clean=False) if not isinstance(base.fn, ast.Lambda) else None
        raise Unsupported('attribute %s of %r' % (n.attr, base), n, self.module.relpath)

    def plain_setattr(self, obj):
        """object.__setattr__ bound to obj: the store Python makes when no __setattr__ of the class intervenes
        (properties and data descriptors are still honoured)"""
        fr0 = self

        def f(I_, fr_, a, k_, n_):
            if len(a) != 2 or k_ or not isinstance(a[0], str) or a[0] in I_.sym_strings:
                raise Unsupported('object.__setattr__ with these arguments', n_)
            tgt = ast.Attribute(value=ast.Name(id='\x00setattr_obj', ctx=ast.Load()), attr=a[0], ctx=ast.Store())
            if n_ is not None:
                ast.copy_location(tgt, n_)
            sub = Frame(I_, fr0.module, Env(fr0.env, {'\x00setattr_obj': obj}), fr0.owner, fr0.self_obj)
            sub.raw_store = True
            sub.assign(tgt, a[1])
            return None
        return _stdlib.CallableV(f, 'object.__setattr__')

    def dict_view(self, obj, node=None):
        """obj.__dict__ / vars(obj): the live attribute table (a write through it is a write to the object)"""
        if obj.ci is not None and any('__slots__' in k.class_attrs for k in obj.ci.mro):
            # names listed in a __slots__ of the MRO live in descriptors, not in __dict__; the instance has a __dict__
            # as long as one class of the MRO has no __slots__
            slots = set()
            for k in obj.ci.mro:
                sv = k.class_attrs.get('__slots__')
                if sv is None:
                    continue
                if isinstance(sv, ast.Constant) and isinstance(sv.value, str):
                    slots.add(sv.value)
                elif isinstance(sv, (ast.Tuple, ast.List)) and \
                        all(isinstance(e, ast.Constant) and isinstance(e.value, str) for e in sv.elts):
                    slots.update(e.value for e in sv.elts)
                else:
                    raise Unsupported('__slots__ that is not a literal', node, self.module.relpath)
            external = any(b_.split('.')[-1] not in ('object',) and b_.split('.')[-1] not in
                           {c.name for c in k.bases} for k in obj.ci.mro for b_ in k.base_exprs)
            if external:
                raise Unsupported('__slots__ below a base class outside the package', node, self.module.relpath)
            if all('__slots__' in k.class_attrs for k in obj.ci.mro) and '__dict__' not in slots:
                raise _RaisedExc(Raised('AttributeError', node))
            dv = DictV()
            dv.d = _FrozenTable({k_: v_ for k_, v_ in obj.attrs.items() if k_ not in slots})
            return dv
        dv = DictV()
        dv.d = obj.attrs
        return dv

    def class_descriptor(self, ci, attr):
        """a class attribute of that name which is bound to the result of a call (``x = property(f, g)``, a descriptor
        made by a factory): (owner class, call node) or None"""
        for k in ci.mro:
            if attr in k.methods:
                return None
            if attr in k.class_attrs:
                v = k.class_attrs[attr]
                return (k, v) if isinstance(v, ast.Call) else None
        return None

    def made_property(self, obj, attr, node):
        """(getter, setter) FuncRefs of a class attribute written ``name = property(fget[, fset])``; any other call in
        that place may be a descriptor, whose protocol is not modelled"""
        got = self.class_descriptor(obj.ci, attr) if obj.ci is not None else None
        if got is None:
            return None
        k, call = got
        kw_ = {x.arg: x.value for x in call.keywords}
        if isinstance(call.func, ast.Name) and call.func.id == 'property' and \
                set(kw_) <= {'fget', 'fset', 'fdel', 'doc'} and len(call.args) <= 4:
            slots = list(call.args[:2]) + [None] * (2 - len(call.args[:2]))
            for i_, nm_ in enumerate(('fget', 'fset')):
                if nm_ in kw_:
                    slots[i_] = kw_[nm_]
            if slots[0] is None:
                raise Unsupported('property() without a getter', node, self.module.relpath)
            fns = []
            for a_ in [x for x in slots if x is not None and not (isinstance(x, ast.Constant) and x.value is None)]:
                if not (isinstance(a_, ast.Name) and a_.id in k.methods):
                    raise Unsupported('property() of something that is not a method of the class', node,
                                      self.module.relpath)
                fns.append(FuncRef(k.module, k.methods[a_.id], obj, k))
            return fns[0], (fns[1] if len(fns) > 1 else None)
        v_ = None
        key = (k.qual, attr)
        if key not in self.I.module_globals:
            self.I.module_globals[key] = Frame(self.I, k.module, {}, k, None).ev(call)
        v_ = self.I.module_globals[key]
        if isinstance(v_, PropertyV):
            if v_.fget is None:
                raise Unsupported('property() without a getter', node, self.module.relpath)
            fr0_ = self

            def bound(f_):
                return _stdlib.CallableV(lambda I_, fr_, a, k_, n_: fr0_.apply(f_, [obj] + list(a), k_, n_), 'accessor')
            return bound(v_.fget), (bound(v_.fset) if v_.fset is not None else None)
        if isinstance(v_, Obj) and v_.ci is not None and (
                self.I.repo.find_method(v_.ci, '__get__', missing_ok=True) or
                self.I.repo.find_method(v_.ci, '__set__', missing_ok=True)):
            # a descriptor object of the package (one per class attribute, shared by all instances): reads and stores
            # of the attribute go through its __get__ / __set__
            I = self.I
            if not getattr(v_, 'name_set', False):
                v_.name_set = True
                if I.repo.find_method(v_.ci, '__set_name__', missing_ok=True):
                    r_ = I.call_method(v_, '__set_name__', [k, attr], {})       # done when the class is created
                    if isinstance(r_, Raised):
                        raise _RaisedExc(r_)
            has_get = bool(I.repo.find_method(v_.ci, '__get__', missing_ok=True))
            has_set = bool(I.repo.find_method(v_.ci, '__set__', missing_ok=True))
            if not has_set:
                return None         # a non-data descriptor: the instance's own attribute wins (see obj_attr)

            def call_(mname, extra):
                def f(I_, fr_, a, k_, n_):
                    r2 = I.call_method(v_, mname, extra + list(a), {})
                    if isinstance(r2, Raised):
                        raise _RaisedExc(r2)
                    return r2
                return _stdlib.CallableV(f, 'descriptor.' + mname)
            if has_get:
                getter = call_('__get__', [obj, obj.ci])
            else:
                # a data descriptor without __get__: reads find the instance's own attribute, else the descriptor
                getter = _stdlib.CallableV(lambda I_, fr_, a, k_, n_: obj.attrs[attr] if attr in obj.attrs else v_,
                                           'descriptor')
            return getter, call_('__set__', [obj])
        return None

    def obj_attr(self, obj, attr, node=None):
        I = self.I
        if attr == '__class__' and obj.ci is not None:
            return obj.ci
        if attr == '__dict__':
            return self.dict_view(obj, node)
        if attr in obj.missing:
            raise _RaisedExc(Raised('AttributeError', node))
        if obj.ci is not None and attr not in obj.attrs:
            p_ = I.patched(obj.ci, attr)
            if p_ is not None:
                return I.bind_patched(p_[0], p_[1], obj)
        if obj.ci is not None and not attr.startswith('__'):
            # a property is a data descriptor: it is asked before the instance's own attributes
            got = I.repo.find_method(obj.ci, attr, missing_ok=True)
            if got and any(ast.unparse(d) == 'property' for d in got[1].decorator_list):
                return I.call_function(got[0].module, got[1], [], {}, self_obj=obj, owner=got[0],
                                       name='%s.%s' % (got[0].qual, attr))
            mp = self.made_property(obj, attr, node)
            if mp is not None:
                return self.apply(mp[0], [], {}, node)
        if attr in obj.attrs:
            return obj.attrs[attr]
        if obj.ci is not None:
            got = I.repo.find_method(obj.ci, attr, missing_ok=True)
            if got:
                owner, fn = got
                if any(ast.unparse(d) == 'property' for d in fn.decorator_list):
                    return I.call_function(owner.module, fn, [], {}, self_obj=obj, owner=owner,
                                           name='%s.%s' % (owner.qual, attr))
                if any(ast.unparse(d).split('.')[-1] == 'cached_property' for d in fn.decorator_list):
                    # computed on the first read and kept in the instance's __dict__ (a later read finds it there;
                    # deleting it makes the next read compute again)
                    cv_ = I.call_function(owner.module, fn, [], {}, self_obj=obj, owner=owner,
                                          name='%s.%s' % (owner.qual, attr))
                    if isinstance(cv_, Raised):
                        raise _RaisedExc(cv_)
                    obj.attrs[attr] = cv_
                    return cv_
                return FuncRef(owner.module, fn, obj, owner)
            # attribute defined in a class body (a constant, a table, a namedtuple type): read through the instance
            for k in obj.ci.mro:
                if attr in k.class_attrs:
                    key = (k.qual, attr)
                    if key not in I.module_globals:
                        I.module_globals[key] = Frame(I, k.module, {}, k, None).ev(k.class_attrs[attr])
                    cv_ = I.module_globals[key]
                    if isinstance(cv_, Obj) and cv_.ci is not None and \
                            I.repo.find_method(cv_.ci, '__get__', missing_ok=True):
                        r2_ = I.call_method(cv_, '__get__', [obj, obj.ci], {})       # a non-data descriptor
                        if isinstance(r2_, Raised):
                            raise _RaisedExc(r2_)
                        return r2_
                    if isinstance(cv_, FuncRef) and cv_.self_obj is None:
                        # a function found in the class (a lambda, a closure made by a factory) is bound to the
                        # instance it is read through, like a def
                        bf_ = FuncRef(cv_.module, cv_.fn, obj, k, cv_.closure, cv_.defaults, cv_.frame_self)
                        bf_.bound_via_class = True
                        return bf_
                    return cv_
        if attr in obj.opaque_methods:
            return BoundOpaque(obj, attr)
        if attr == '__class__':
            return obj.ci
        if obj.closed:
            if getattr(obj, 'refuse_unknown', False):
                # a stand-in for a library object: a member without a model is outside the fragment, never an
                # AttributeError the program would not see
                raise Unsupported('member %r of %s (no model)' % (attr, obj.name), node, self.module.relpath)
            if '__mode__' in obj.attrs and attr in FILE_METHODS:
                # a method every text file has, without a model here: not an AttributeError Python would raise
                raise Unsupported('method %r of a file object' % attr, node, self.module.relpath)
            raise _RaisedExc(Raised('AttributeError', node))
        # lazily created parameter atom
        name = '%s.%s' % (obj.name, attr)
        I.lazy_atoms.add(name)
        if attr in obj.vec_attrs:
            v = Elem(I.D.sym(name))
        else:
            v = I.D.sym(name)
        obj.attrs[attr] = v
        return v

    def int_store(self, buf, values, target):
        """a store of values into (a slice of) an array whose element type is an integer type or is taken from the
        caller's container: anything that is not an integer constant is truncated"""
        if getattr(buf, 'dtype', None) in ('caller', 'int', 'narrow'):
            vals = values if isinstance(values, list) else [values]
            if not all(isinstance(x, ArgV) or (isinstance(x, Rat) and (
                    x.iszero() or (x.is_const() and x.const_value().denominator == 1) or
                    (x.integer_coefficients() and x.atoms() and all(a_ in self.I.int_syms for a_ in x.atoms()))))
                    for x in vals):
                self.I.dtype_hazards.append((target, self.module.relpath))

    def global_name(self, n):
        I = self.I
        name = n.id
        if name in PY_BUILTINS:
            return Builtin(name)
        if name in BUILTIN_EXC:
            return Builtin(name)
        if name in ALL_PY_BUILTINS:
            # a builtin the interpreter has no model for must end as "unsupported", never as a NameError the
            # analysed program would not raise
            if isinstance(ALL_PY_BUILTINS[name], type) and issubclass(ALL_PY_BUILTINS[name], BaseException):
                BUILTIN_EXC.add(name)
            return Builtin(name)
        if name == '__name__':
            return self.module.name
        r = I.repo.lookup(self.module, name)
        if r is None:
            al = self.alias(name)
            if al is not None:
                if al[0] == 'object' and '%s.%s' % (al[1], al[2]) in I.native:
                    return NativeRef('%s.%s' % (al[1], al[2]))
                return ExtRef(al)
            fn_ = getattr(self, 'fn', None)
            if fn_ is not None and any(isinstance(x_, ast.Name) and x_.id == name and isinstance(x_.ctx, ast.Store)
                                       for x_ in own_nodes(fn_)):
                # a local variable of this function that has not been assigned yet
                raise _RaisedExc(Raised('UnboundLocalError', n))
            raise _RaisedExc(Raised('NameError', n))
        while isinstance(r, tuple) and r[0] == 'value' and id(r[2]) in I.evaluating:
            # module-level `X = f(X)`: inside the k-th binding of a name the name denotes the value of the (k-1)-th
            vals = r[1].assigns.get(name, [])
            k_ = next((i_ for i_, v_ in enumerate(vals) if v_ is r[2]), 0)
            if k_ == 0:
                raise _RaisedExc(Raised('NameError', n))
            r = ('value', r[1], vals[k_ - 1])
        return self.entity(r, n)

    def entity(self, r, n):
        if isinstance(r, tuple) and r[0] == 'function':
            return FuncRef(r[1], r[2])
        if isinstance(r, tuple) and r[0] == 'method':
            return FuncRef(r[1].module, r[2], None, r[1])
        if isinstance(r, tuple) and r[0] == 'value':
            m, node = r[1], r[2]
            if self.I.table_atoms is not None and isinstance(node, ast.Dict) and id(node) in self.I.table_names:
                # a table the rule keeps symbolic, stored at module level
                return Frame(self.I, m, {}, None, None).table_dict(self.I.table_names[id(node)], node)
            if isinstance(node, (ast.Dict, ast.List, ast.Set)) or (
                    isinstance(node, ast.Call) and isinstance(node.func, ast.Name) and
                    node.func.id in ('dict', 'list', 'set') and not node.args and not node.keywords):
                nm_ = self.I.table_revised(m, node)
                if nm_ is not None:
                    # import-time code other than `name.update({...})` writes the container (a helper, an alias, a
                    # loop, update(zip(...)), name[key] = value): every reader sees what the module body leaves behind
                    return self.I.module_body(m, n)[nm_]
            if isinstance(node, (ast.Dict, ast.List)) and (
                    isinstance(node, ast.List) or len(node.keys) <= 3):
                # small module-level container: mutable global state shared by every call in this run
                return self.I.eval_global(m, node)
            if isinstance(node, ast.Dict):
                return TableRef(m, node)
            # any other module-level value is created once when the module is imported (a sentinel object() keeps
            # its identity)
            return self.I.eval_global(m, node)
        return r

    # ---- calls -----------------------------------------------------------
    def call_args(self, n):
        args = []
        for a in n.args:
            if isinstance(a, ast.Starred):
                v = self.ev(a.value)
                if not isinstance(v, ListV):
                    raise Unsupported('star-argument', n, self.module.relpath)
                args.extend(v.items)
            else:
                args.append(self.ev(a))
        kwargs = {}
        for k in n.keywords:
            if k.arg is None:
                v = self.ev(k.value)
                if not isinstance(v, DictV):
                    raise Unsupported('**argument is not a dict', n, self.module.relpath)
                for k_ in v.d:
                    if k_ in kwargs:
                        # f(**a, **b) / f(x=1, **b) with a name given twice: "got multiple values for keyword argument"
                        raise _RaisedExc(Raised('TypeError', n))
                    if not isinstance(k_, str):
                        raise _RaisedExc(Raised('TypeError', n))        # keywords must be strings
                kwargs.update(v.d)
            else:
                if k.arg in kwargs:
                    raise _RaisedExc(Raised('TypeError', n))
                kwargs[k.arg] = self.ev(k.value)
        return args, kwargs

    def dotted(self, f):
        """resolved dotted name of a call target for native dispatch."""
        if isinstance(f, ast.Attribute):
            chain = [f.attr]
            v = f.value
            while isinstance(v, ast.Attribute):
                chain.append(v.attr)
                v = v.value
            if isinstance(v, ast.Name) and v.id not in self.env:
                al = self.alias(v.id)
                if al and al[0] == 'module':
                    return al[1] + '.' + '.'.join(reversed(chain))
                if al and al[0] == 'object' and al[1] not in self.I.repo.modules:
                    return al[1] + '.' + al[2] + '.' + '.'.join(reversed(chain))
        if isinstance(f, ast.Name) and f.id not in self.env:
            al = self.alias(f.id)
            if al and al[0] == 'object':
                return al[1] + '.' + al[2]
            if f.id in self.module.functions:
                return self.module.name + '.' + f.id
        return None

    def call(self, n):
        I = self.I
        f = n.func
        dn = self.dotted(f)
        if dn is not None and dn in I.opaque_funcs:
            args, kwargs = self.call_args(n)
            return I.opaque_funcs[dn](I, self, args, kwargs, n)
        if dn is not None and dn in I.native:
            args, kwargs = self.call_args(n)
            return I.call_native(dn, self, args, kwargs, n)
        # super().m(...)
        if isinstance(f, ast.Attribute) and isinstance(f.value, ast.Call) \
                and isinstance(f.value.func, ast.Name) and f.value.func.id == 'super':
            args, kwargs = self.call_args(n)
            if isinstance(self.self_obj, ClassInfo):
                # super() inside a classmethod: the next definition after the current class, bound to cls
                got = I.repo.find_method(self.self_obj, f.attr, after=self.owner)
                return I.call_function(got[0].module, got[1], args, kwargs, self_obj=self.self_obj, owner=got[0],
                                       name='%s.%s' % (got[0].qual, f.attr))
            if f.attr == '__setattr__' and isinstance(self.self_obj, Obj) and self.self_obj.ci is not None and \
                    not I.repo.find_method(self.self_obj.ci, f.attr, after=self.owner, missing_ok=True):
                return self.apply(self.plain_setattr(self.self_obj), args, kwargs, n)       # object.__setattr__
            return I.call_method(self.self_obj, f.attr, args, kwargs, after=self.owner)
        fv = self.ev(f)
        args, kwargs = self.call_args(n)
        return self.apply(fv, args, kwargs, n)

    def apply(self, fv, args, kwargs, n=None):
        I = self.I
        if isinstance(fv, FuncRef):
            if fv.closure is not None or isinstance(fv.fn, ast.Lambda):
                if isinstance(fv.self_obj, (Obj, ClassInfo)) and isinstance(fv.owner, ClassInfo) and \
                        getattr(fv, 'bound_via_class', False):
                    args = [fv.self_obj] + list(args)       # a function found in the class, read through an instance
            if isinstance(fv.fn, ast.Lambda):
                a_ = fv.fn.args
                names = [x.arg for x in a_.posonlyargs + a_.args]
                env = Env(fv.closure if fv.closure is not None else self.env)
                if len(args) > len(names) and not a_.vararg:
                    raise _RaisedExc(Raised('TypeError', n))
                for k, v in zip(names, args):
                    env[k] = v
                if a_.vararg:
                    env[a_.vararg.arg] = ListV(list(args[len(names):]))
                allowed = set(names) | {x.arg for x in a_.kwonlyargs}
                extra = {}
                for k, v in kwargs.items():
                    if k in allowed:
                        env[k] = v
                    elif a_.kwarg:
                        extra[k] = v
                    else:
                        raise _RaisedExc(Raised('TypeError', n))
                if a_.kwarg:
                    env[a_.kwarg.arg] = DictV(extra)
                for k in allowed:
                    if not dict.__contains__(env, k):
                        if fv.defaults and k in fv.defaults:
                            env[k] = fv.defaults[k]
                        else:
                            raise _RaisedExc(Raised('TypeError', n))
                return Frame(I, fv.module, env, fv.owner,
                             fv.frame_self if fv.frame_self is not None else self.self_obj).ev(fv.fn.body)
            if fv.closure is not None:
                # nested def: its own locals, reads fall through to the enclosing function's scope
                return I.call_function(fv.module, fv.fn, args, kwargs, self_obj=None, owner=fv.owner,
                                       name='%s.<locals>.%s' % (fv.module.name, fv.fn.name), closure=fv.closure,
                                       preset=fv.defaults, frame_self=fv.frame_self)
            qual = (fv.owner.qual + '.' if fv.owner else fv.module.name + '.') + fv.fn.name
            if qual in I.opaque_funcs:
                return I.opaque_funcs[qual](I, self, args, kwargs, n)
            if fv.owner is None and fv.closure is None and qual in I.native:
                return I.call_native(qual, self, args, kwargs, n)
            if isinstance(fv.self_obj, Obj) and fv.fn.name in fv.self_obj.opaque_methods:
                return fv.self_obj.opaque_methods[fv.fn.name](I, fv.self_obj, args, kwargs)
            is_static = any(ast.unparse(d) in ('staticmethod',) for d in fv.fn.decorator_list)
            return I.call_function(fv.module, fv.fn, args, kwargs,
                                   self_obj=None if is_static else fv.self_obj,
                                   owner=fv.owner, name=qual, raw=getattr(fv, 'raw', False))
        if isinstance(fv, ClassInfo) and fv.qual in I.opaque_classes:
            return I.opaque_classes[fv.qual](I, self, args, kwargs)
        if isinstance(fv, ClassInfo):
            return I.construct(fv, args, kwargs)
        if isinstance(fv, Builtin):
            return builtin_call(I, self, fv.name, args, kwargs, n)
        if isinstance(fv, NativeRef):
            return I.call_native(fv.name, self, args, kwargs, n)
        if isinstance(fv, BoundNative):
            return bound_native(I, self, fv, args, kwargs, n)
        if isinstance(fv, BoundOpaque):
            return fv.obj.opaque_methods[fv.name](I, fv.obj, args, kwargs)
        if isinstance(fv, Obj) and '__call__' in fv.opaque_methods:
            return fv.opaque_methods['__call__'](I, fv, args, kwargs)
        if isinstance(fv, Obj) and fv.ci is not None and not hasattr(fv, 'pmv_call') and \
                I.repo.find_method(fv.ci, '__call__', missing_ok=True):
            return I.call_method(fv, '__call__', args, kwargs)       # an instance of a class with __call__
        if hasattr(fv, 'pmv_call'):
            return fv.pmv_call(I, self, args, kwargs, n)
        if isinstance(fv, ExtRef):
            raise Unsupported('call of the library function %s (no model)' % '.'.join(fv.alias[1:]), n,
                              self.module.relpath)
        raise Unsupported('call of %r' % (fv,), n, self.module.relpath)


class Builtin:
    def __init__(self, name):
        self.name = name


class NativeRef:
    def __init__(self, name):
        self.name = name


class ExtRef:
    def __init__(self, alias):
        self.alias = alias


class BoundNative:
    def __init__(self, base, name):
        self.base = base
        self.name = name


class BoundOpaque:
    def __init__(self, obj, name):
        self.obj = obj
        self.name = name


class TableRef:
    """module-level dict literal (c.prefixes, c.symmetry_dict, ...)"""

    def __init__(self, module, node):
        self.module = module
        self.node = node

    def lookup(self, frame, idx, n):
        nodes = [self.node]
        for nm, vals in self.module.assigns.items():
            if vals and vals[-1] is self.node:
                nodes = list(reversed(self.module.updates.get(nm, []))) + nodes
        def plain(v):
            # a hashable Python value for a concrete key (tuples of constants included), else None
            if isinstance(v, (str, bool, int, float)) or v is None:
                return ('k', v)
            if isinstance(v, Rat) and (v.is_const() or v.iszero()):
                cv = v.const_value() if not v.iszero() else Fr(0)
                return ('k', int(cv) if cv.denominator == 1 else float(cv))
            if isinstance(v, ListV) and not getattr(v, 'is_array', False):
                parts = [plain(x) for x in v.items]
                return None if any(p_ is None for p_ in parts) else ('t', tuple(parts))
            return None

        def const_key(k):
            if isinstance(k, ast.Constant):
                return ('k', k.value)
            if isinstance(k, ast.Tuple):
                parts = [const_key(x) for x in k.elts]
                return None if any(p_ is None for p_ in parts) else ('t', tuple(parts))
            return None
        want = plain(idx)
        for node in nodes:
            hit = None
            for k, v in zip(node.keys, node.values):
                if want is not None and k is not None and const_key(k) == want:
                    hit = v          # later duplicate keys win
            if hit is not None:
                # the entry's value is created once per interpreter (at import in Python): a mutable entry that is
                # modified in place keeps the modification for every later lookup
                key = ('table-entry', self.module.name, id(hit))
                if key not in frame.I.module_globals:
                    frame.I.module_globals[key] = Frame(frame.I, self.module, {}, None, None).ev(hit)
                return frame.I.module_globals[key]
        if isinstance(idx, str) or (
                want is not None and all(k is not None and const_key(k) is not None for node in nodes for k in node.keys)):
            raise _RaisedExc(Raised('KeyError', n))
        raise Unsupported('symbolic key into table', n, frame.module.relpath)


def _table_method(I, fr, tab, name, args, kwargs, n):
    if name == 'get' and args:
        try:
            return tab.lookup(fr, I.plain(args[0]), n)
        except _RaisedExc as e:
            if e.raised.exc == 'KeyError':
                return args[1] if len(args) > 1 else None
            raise
    if name in ('keys', 'items', 'values', 'copy') and not args and not kwargs:
        # the whole table as the dictionary the module body builds (literal plus the recognised updates), once per
        # interpreter
        key = ('table-dict', tab.module.name, id(tab.node))
        if key not in I.module_globals:
            dv = Frame(I, tab.module, {}, None, None).ev(tab.node)
            for nm, vals in tab.module.assigns.items():
                if vals and vals[-1] is tab.node:
                    for u_ in tab.module.updates.get(nm, []):
                        uv = Frame(I, tab.module, {}, None, None).ev(u_)
                        dv.d.update(uv.d)
                        dv.keyobj.update(uv.keyobj)
            I.module_globals[key] = dv
        return bound_native(I, fr, BoundNative(I.module_globals[key], name), args, kwargs, n)
    raise Unsupported('method %s of a module-level table' % name, n)


class ZipV:
    def __init__(self, seqs, enumerate_start=None, frame=None):
        self.seqs = seqs
        self.frame = frame
        self.enumerate_start = enumerate_start
        self.vector = any(isinstance(s, Elem) for s in seqs)

    def generic(self):
        vals = []
        for s in self.seqs:
            if isinstance(s, Elem) and getattr(s, 'real_of', None) is not None:
                vals.append(RealTest(s.real_of))    # an entry of the mask np.isreal made of the roots
            elif isinstance(s, Elem):
                vals.append(s.r)
            else:
                raise Unsupported('zip of a vector with a fixed-length sequence')
        if self.enumerate_start is not None:
            raise Unsupported('enumerate over a vector of unknown length')
        return ListV(vals)

    def take_all(self):
        """everything that is left, taken: a zip / enumerate object is one-shot"""
        got = list(self.items())
        self._rest = []
        return got

    def items(self):
        if getattr(self, '_rest', None) is not None:
            return self._rest               # partly consumed by next()
        lists = []
        for s in self.seqs:
            if isinstance(s, ListV):
                if getattr(s, 'tainted', False):
                    raise Unsupported('zip over an iterator whose position is not known')
                lists.append(s.items)
            elif isinstance(s, ZipV):
                lists.append(s.take_all())
            elif isinstance(s, DictV):
                lists.append(list(s.d.keys()))
            elif isinstance(s, Obj) and self.frame is not None:
                lists.append(self.frame.iter_items(s))
            elif s is None or isinstance(s, (bool, Rat)):
                raise _RaisedExc(Raised('TypeError'))       # not iterable
            elif type(s).__name__ == 'CountV':
                lists.append(None)                          # unbounded: filled below to the length of the others
            else:
                raise Unsupported('zip over %r' % (s,))
        if any(x is None for x in lists):
            bounded = [len(x) for x in lists if x is not None]
            if not bounded:
                raise Unsupported('zip over unbounded iterators only')
            m_ = min(bounded)
            # zip asks the sources in order: a counter placed before the first exhausted source is asked once more
            first_short_b = next(k for k, x in enumerate(lists) if x is not None and len(x) == m_)
            for k, x in enumerate(lists):
                if x is None:
                    cnt_ = self.seqs[k]
                    lists[k] = [cnt_.take(self.frame.I) for _ in range(m_ + (1 if k < first_short_b else 0))][:m_] \
                        if self.frame is not None else None
                    if lists[k] is None:
                        raise Unsupported('zip over a counter without a frame')
        n = min(len(x) for x in lists) if lists else 0
        out = []
        for i in range(n):
            tup = ListV([x[i] for x in lists])
            if self.enumerate_start is not None:
                tup = ListV([C(self.enumerate_start + i), tup.items[0]])
            tup.is_tuple = True             # zip and enumerate yield tuples
            out.append(tup)
        # what zip takes from one-shot iterators among its sources is gone: n items from each, and one more from
        # every source that precedes the first exhausted one (zip asks them first and drops what it got)
        first_short = next((k for k, x in enumerate(lists) if len(x) == n), len(lists))
        for k, s in enumerate(self.seqs):
            if is_iter(s):
                extra = 1 if (k < first_short and len(s.items) > n and self.enumerate_start is None) else 0
                del s.items[:n + extra]
        self._rest = list(out)          # a zip object is itself one-shot
        return out


def _transpose(m):
    rows = [r.items for r in m.items]
    return ListV([ListV(list(col)) for col in zip(*rows)])


def _load(t):
    import copy
    t2 = copy.copy(t)
    t2.ctx = ast.Load()
    return t2


_OPS = {ast.Add: '+', ast.Sub: '-', ast.Mult: '*', ast.Div: '/', ast.Pow: '**', ast.Mod: '%', ast.BitOr: '|',
        ast.MatMult: '@', ast.FloorDiv: '//', ast.BitAnd: '&'}
_CMP = {ast.Eq: '==', ast.NotEq: '!=', ast.Lt: '<', ast.LtE: '<=', ast.Gt: '>', ast.GtE: '>=',
        ast.Is: 'is', ast.IsNot: 'is not', ast.In: 'in', ast.NotIn: 'not in'}

import builtins as _py_builtins
ALL_PY_BUILTINS = {k: getattr(_py_builtins, k) for k in dir(_py_builtins) if not k.startswith('_')}

PY_BUILTINS = {'locals', 'iter', 'open', 'round', 'sorted', 'set', 'getattr', 'hasattr', 'float', 'int', 'len', 'min', 'max', 'enumerate', 'zip', 'range', 'type',
               'isinstance', 'all', 'any', 'list', 'tuple', 'abs', 'sum', 'str', 'print',
               'sorted', 'dict', 'bool'}


def _as_int(v, n=None):
    if isinstance(v, PyFloat):
        raise _RaisedExc(Raised('TypeError', n))        # a float where an integer is required (2.0 is not 2 there)
    if isinstance(v, Rat) and v.is_const() and v.const_value().denominator == 1:
        return int(v.const_value())
    raise Unsupported('integer expected', n)


LAZY_BUILTINS = frozenset(('next', 'iter', 'zip', 'enumerate', 'map', 'filter', 'isinstance', 'type', 'id', 'callable',
                           'print', 'bool', 'hasattr', 'getattr', 'len', 'list', 'tuple', 'str', 'any', 'all'))


def drain(args):
    """a one-shot iterator (map / filter / generator object) handed to a function that runs over it is used up by the
    call: the callee gets its remaining items, the iterator is empty afterwards"""
    return [ListV(take(a)) if is_iter(a) else a for a in args]


def _literal_number(txt):
    """the number a text denotes for float() / int(): an optional sign, then what a source literal may be"""
    t_ = txt.strip()
    neg = t_.startswith('-')
    if t_[:1] in '+-':
        t_ = t_[1:]
        if t_[:1] in '+-' or not t_:
            raise Unsupported('not a number')
    v_ = token_num(t_).v
    return -v_ if neg else v_


def builtin_call(I, fr, name, args, kwargs, n):
    if name not in LAZY_BUILTINS and any(is_iter(a) for a in args):
        args = drain(args)
    if name == 'len' and args and is_iter(args[0]):
        raise _RaisedExc(Raised('TypeError', n))        # an iterator has no len()
    if name in ('float', 'int') and args and (isinstance(args[0], SegStr) or
                                               (isinstance(args[0], str) and args[0] in I.sym_strings)):
        sv = I.seg(args[0]).strip()
        f = sv.single_field()
        if f is not None and f.cls == 'num' and isinstance(f.value, Rat):
            return I.parsed_number(f, name)
        if sv.is_literal():
            txt_ = sv.literal().strip()
            if name == 'int' and not re.fullmatch(r'[+-]?\d+(?:_\d+)*', txt_):
                raise _RaisedExc(Raised('ValueError', n))      # int('1.5'), int('1e3'): not an integer literal
            try:
                r_ = C(_literal_number(sv.literal()))
                return as_pyfloat(r_) if name == 'float' else r_
            except Unsupported:
                raise _RaisedExc(Raised('ValueError', n))
        if f is None and sv.fields():
            I.cuts.append((n, '%s() of %r: the text is not exactly one number' % (name, sv)))
        raise _RaisedExc(Raised('ValueError', n))
    if name == 'float' and len(args) == 1 and not kwargs and isinstance(args[0], str) and \
            args[0] not in I.sym_strings and args[0].strip().lower().lstrip('+-') in ('inf', 'infinity'):
        return I.neg(I.D.sym('INF')) if args[0].strip().startswith('-') else I.D.sym('INF')
    if name in ('float', 'int') and not args and not kwargs:
        return C(0)                     # int() / float(): zero (the factory of defaultdict(int))
    if name in ('float', 'int') and args and isinstance(args[0], str):
        if name == 'int' and not re.fullmatch(r'[+-]?\d+(?:_\d+)*', args[0].strip()):
            raise _RaisedExc(Raised('ValueError', n))      # int('1.5'), int('1e3'): not an integer literal
        try:
            r_ = C(_literal_number(args[0]))
            return as_pyfloat(r_) if name == 'float' else r_
        except Unsupported:
            raise _RaisedExc(Raised('ValueError', n))
    if name == 'locals':
        return DictV({k: v for k, v in fr.env.items() if isinstance(k, str) and not k.startswith('\x00')})
    if name == 'format' and 1 <= len(args) <= 2 and not kwargs:
        spec = args[1] if len(args) > 1 else ''
        if not isinstance(spec, str) or spec in I.sym_strings:
            raise Unsupported('format() with a symbolic format spec', n)
        return I.plain(I.format_piece(args[0], spec))          # format(v, spec) is '{:spec}'.format(v)
    if name == 'setattr' and len(args) == 3 and not kwargs and isinstance(args[0], ClassInfo):
        if not isinstance(args[1], str) or args[1] in I.sym_strings or args[0].qual not in I.classes_ready:
            raise Unsupported('setattr on a class', n)
        I.class_patches[(args[0].qual, args[1])] = args[2]
        return None
    if name == 'vars' and len(args) == 1 and isinstance(args[0], ClassInfo) and not kwargs:
        # the class's own namespace: its defs (as plain functions) and what decorators bound so far
        ns = DictV()
        for nm_, fn_ in args[0].methods.items():
            if '.' not in nm_:
                ns.d[nm_] = FuncRef(args[0].module, fn_, None, args[0])
        for (q_, nm_), v_ in I.class_patches.items():
            if q_ == args[0].qual:
                ns.d[nm_] = v_
        for nm_ in args[0].class_attrs:
            if nm_ not in ns.d:
                raise Unsupported('vars() of a class with data attributes', n)
        return ns
    if name == 'setattr' and len(args) == 3 and not kwargs and isinstance(args[0], Obj):
        if not isinstance(args[1], str) or args[1] in I.sym_strings:
            raise Unsupported('setattr with a symbolic attribute name', n)
        # setattr(obj, 'name', v) is obj.name = v (setters and __setattr__ included)
        tgt = ast.Attribute(value=ast.Name(id='\x00setattr_obj', ctx=ast.Load()), attr=args[1], ctx=ast.Store())
        ast.copy_location(tgt, n) if n is not None else None
        sub = Frame(I, fr.module, Env(fr.env, {'\x00setattr_obj': args[0]}), fr.owner, fr.self_obj)
        sub.assign(tgt, args[2])
        return None
    if name == 'vars' and len(args) == 1 and isinstance(args[0], Obj) and not kwargs:
        return fr.dict_view(args[0], n)
    if name == 'round':
        v = args[0]
        if isinstance(v, Rat) and (v.is_const() or v.iszero()) and len(args) == 1:
            return C(round(v.const_value() if not v.iszero() else 0))
        if isinstance(v, Rat) and (v.is_const() or v.iszero()) and len(args) == 2 and isinstance(args[1], Rat) and \
                (args[1].iszero() or (args[1].is_const() and args[1].const_value().denominator == 1)):
            # round(x, n) of a concrete number: the float nearest to x, rounded as Python rounds it
            nd_ = 0 if args[1].iszero() else int(args[1].const_value())
            xv_ = float(v.const_value()) if not v.iszero() else 0.0
            return C(Fr(repr(round(xv_, nd_)))) if abs(xv_) < 1e15 else v
        raise Unsupported('round() of a symbolic value', n)
    if name == 'iter' and len(args) == 1 and (args[0] is None or isinstance(args[0], (Rat, SumV, bool))):
        raise _RaisedExc(Raised('TypeError', n))        # a number is not iterable
    if name == 'iter' and len(args) == 1 and isinstance(args[0], Elem):
        return args[0]              # a vector of unknown length: iterable
    if name == 'iter' and isinstance(args[0], Obj) and not is_iter(args[0]):
        o_ = args[0]
        if '__lines__' in o_.attrs or '__iter__' in o_.opaque_methods or (
                o_.ci is not None and (I.repo.find_method(o_.ci, '__iter__', missing_ok=True) or
                                       I.repo.find_method(o_.ci, '__getitem__', missing_ok=True))):
            return o_               # files and objects that define iteration
        if o_.ci is None and not o_.closed and not o_.opaque_methods:
            raise Unsupported('iter() of an object nothing is known about: %r' % (o_,), n)
        raise _RaisedExc(Raised('TypeError', n))        # an object without __iter__/__getitem__ is not iterable
    if name == 'iter' and is_iter(args[0]):
        return args[0]              # iterators are their own iterators
    if name == 'open':
        fname = args[0] if args else kwargs.get('file')
        if isinstance(fname, Obj) and '__fspath__' in fname.attrs:
            fname = fname.attrs['__fspath__']       # a pathlib.Path names the file
        mode = args[1] if len(args) > 1 else kwargs.get('mode', 'r')
        fo = Obj('file:%s' % (fname,), closed=True)
        fo.attrs['__lines__'] = ListV(list(I.files.get(fname, []))) if 'r' in mode else ListV([])
        fo.attrs['__lines__'].is_iterator = True        # a text file is its own iterator: a line handed out is gone
        fo.attrs['__name__'] = fname
        fo.attrs['__mode__'] = mode

        def write(I_, o, a, k, fname=fname):
            lines = list(I_.files.setdefault(fname, []))
            txt = I_.seg(a[0])
            if lines:
                last = I_.seg(lines[-1])
                if not (last.segs and last.segs[-1].kind == 'lit' and last.segs[-1].text.endswith('\n')):
                    txt = last + txt            # the line that was begun by the write before goes on
                    lines.pop()
            I_.files[fname] = lines + txt.splitlines()
            return None

        def writelines(I_, o, a, k, fr=fr, n=n):
            for item in fr.iter_items(a[0], n):
                write(I_, o, [item], {})
            return None
        fo.opaque_methods['write'] = write
        fo.opaque_methods['writelines'] = writelines
        fo.opaque_methods['close'] = lambda I_, o, a, k: o.attrs.__setitem__('__closed__', True)

        def readlines(I_, o, a, k, fr=fr, n=n):
            if a or k:
                raise Unsupported('readlines() with a size hint', n)
            return ListV(list(fr.iter_items(o, n)))
        fo.opaque_methods['readlines'] = readlines
        if 'w' in mode:
            I.files[fname] = []
        return fo
    if name in ('float', 'int'):
        if len(args) != 1 or kwargs:
            raise Unsupported('%s() with a base or keyword arguments' % name, n)
        v = args[0]
        if name == 'float' and isinstance(v, str) and v not in I.sym_strings and \
                v.strip().lower().lstrip('+-') in ('inf', 'infinity', 'nan'):
            t_ = v.strip().lower()
            if 'nan' in t_:
                raise Unsupported('float(%r)' % v, n)
            return I.neg(I.D.sym('INF')) if t_.startswith('-') else I.D.sym('INF')
        while isinstance(v, ListV) and len(v) == 1:
            v = v.items[0]          # float() of a size-1 array is its element
        if isinstance(v, ListV):
            raise _RaisedExc(Raised('TypeError', n))
        if isinstance(v, bool):
            return C(1 if v else 0)
        if name == 'int' and isinstance(v, Rat) and v.is_const():
            return C(int(v.const_value()))         # truncation towards zero
        if name == 'int' and isinstance(v, Rat) and not v.iszero():
            if v.integer_coefficients() and all(a_ in I.int_syms for a_ in v.atoms()):
                return v                            # an integer quantity (declared by the rule)
            # truncation of a real quantity: a different number unless the quantity happens to be integral
            nm = 'TRUNC{%r}' % (v,)
            I.D.kind.setdefault(nm, 'trunc')
            return Rat.atom(nm)
        if name == 'int' and isinstance(v, (Elem, SumV)):
            raise Unsupported('int() of a vector / sum of symbolic values', n)
        if isinstance(v, Rat) and name == 'float':
            return as_pyfloat(v)            # the same number, known to be a Python float now
        if isinstance(v, (Rat, Elem, SumV)):
            return v
        raise Unsupported('%s() of %r' % (name, v), n)
    if name in ('getattr', 'hasattr'):
        o, a = args[0], args[1]
        if not isinstance(a, str):
            raise Unsupported('getattr with symbolic attribute name', n)
        if isinstance(o, Obj):
            if a in o.missing:
                if name == 'hasattr':
                    return False
                if len(args) > 2:
                    return args[2]
                raise _RaisedExc(Raised('AttributeError', n))
            if name == 'hasattr':
                if a in o.attrs or a in o.opaque_methods or (
                        o.ci is not None and I.repo.find_method(o.ci, a, missing_ok=True)):
                    return True
                if o.closed:
                    return False
                raise Unsupported('hasattr on an open symbolic object', n)
            if len(args) > 2 and o.closed and a not in o.attrs and a not in o.opaque_methods and not (
                    o.ci is not None and I.repo.find_method(o.ci, a, missing_ok=True)):
                return args[2]
            return fr.obj_attr(o, a, n)
        if o is None or isinstance(o, (str, SegStr, Rat, ListV, DictV, bool)):
            pytype = type(None) if o is None else str if isinstance(o, (str, SegStr)) else float if isinstance(o, Rat) \
                else bool if isinstance(o, bool) else dict if isinstance(o, DictV) else \
                (list if not getattr(o, 'is_array', False) else None)
            if pytype is not None and not hasattr(pytype, a):
                if name == 'hasattr':
                    return False
                if len(args) > 2:
                    return args[2]
                raise _RaisedExc(Raised('AttributeError', n))
            if name == 'hasattr' and pytype is not None:
                return True
            raise Unsupported('getattr(%s, %r)' % (type(o).__name__, a), n)
        if isinstance(o, Module):
            r_ = I.repo.lookup(o, a)
            if r_ is None:
                if name == 'hasattr':
                    return False
                if len(args) > 2:
                    return args[2]
                raise _RaisedExc(Raised('AttributeError', n))
            return True if name == 'hasattr' else fr.entity(r_, n)
        if isinstance(o, ExtRef) and o.alias[0] == 'module':
            full = o.alias[1] + '.' + a
            if full in I.native:
                return NativeRef(full)
            raise Unsupported('getattr on external module: %s' % full, n)
        raise Unsupported('getattr on %r' % (o,), n)
    if name == 'len' and isinstance(args[0], (SegStr, str)):
        return C(len(I.seg(args[0])))
    if name == 'len':
        v = args[0]
        if isinstance(v, ListV):
            return C(len(v))
        if isinstance(v, DictV):
            return C(len(v.d))
        if isinstance(v, Elem):
            at_ = _root_atom(I, v.r) if isinstance(v.r, Rat) else None
            if at_ is not None:
                # a vector of roots and the vector of those that passed a filter have lengths of their own
                nm_ = 'len<%s>' % at_
                I.int_syms.add(nm_)
                return I.D.sym(nm_)
            return I.D.sym('len<vec>')
        if isinstance(v, Obj) and v.ci is not None and I.repo.find_method(v.ci, '__len__', missing_ok=True):
            return I.call_method(v, '__len__', [], {})
        if isinstance(v, Obj) and '__len__' in v.opaque_methods:
            return v.opaque_methods['__len__'](I, v, [], {})
        if isinstance(v, Obj) and '__fields__' in v.attrs:
            return C(len(v.attrs['__fields__'].items))
        if isinstance(v, Rat) or v is None or isinstance(v, bool):
            raise _RaisedExc(Raised('TypeError', n))        # object of that type has no len()
        raise Unsupported('len of %r' % (v,), n)
    if name == 'enumerate':
        start = _as_int(kwargs.get('start', args[1] if len(args) > 1 else C(0)), n)
        return ZipV([args[0]], enumerate_start=start, frame=fr)
    if name == 'zip':
        return ZipV(args, frame=fr)
    if name == 'range':
        vals = [_as_int(a, n) for a in args]
        return ListV([C(i) for i in range(*vals)])
    if name in ('list', 'tuple'):
        if not args:
            e_ = ListV([])
            if name == 'tuple':
                e_.is_tuple = True
            return e_
        v = args[0]
        if isinstance(v, ListV):
            r_ = ListV(take(v))
            if (getattr(v, 'is_array', False) and not any(isinstance(x_, ListV) for x_ in v.items)) or \
                    getattr(v, 'np_elems', False):
                r_.np_elems = True      # list(array) / tuple(array) hand out NumPy scalars (array.tolist() does not)
            if getattr(v, 'np_int', False):
                r_.np_int = True            # the entries are still numpy integers
            if name == 'tuple':
                r_.is_tuple = True
            return r_
        if isinstance(v, Elem):
            return v
        if isinstance(v, ZipV) and v.vector:
            return Elem(v.generic())        # vectors of unknown (equal) length zipped: a vector of tuples
        def made(r_):
            if name == 'tuple':
                r_.is_tuple = True
            return r_
        if isinstance(v, ZipV):
            return made(ListV(v.take_all()))
        if isinstance(v, DictV):
            return made(ListV([v.okey(k) for k in v.d.keys()]))
        if isinstance(v, str) and v not in I.sym_strings:
            return made(ListV(list(v)))
        if v is None or isinstance(v, (bool, Rat)):
            raise _RaisedExc(Raised('TypeError', n))        # not iterable
        if isinstance(v, Obj):
            return made(ListV(list(fr.iter_items(v, n))))       # the object's own iteration protocol
        raise Unsupported('list() of %r' % (v,), n)
    if name == 'type':
        return TypeOf(args[0])
    if name == 'isinstance':
        v, t = args[0], args[1]
        ts = t.items if isinstance(t, ListV) else [t]
        res = False
        for x in ts:
            tn = x.name if isinstance(x, Builtin) else (x if isinstance(x, str) else None)
            if isinstance(x, ExtRef):
                tn = '.'.join(x.alias[1:])
            if isinstance(x, ClassInfo):
                if isinstance(v, Obj):
                    if v.ci is not None:
                        res = res or (x in v.ci.mro)
                    elif x.name in v.isa:
                        res = True
                continue
            if tn == 'str':
                res = res or isinstance(v, (str, SegStr))
            elif tn == 'dict':
                res = res or isinstance(v, DictV)
            elif tn in ('list', 'tuple'):
                res = res or (isinstance(v, ListV) and not getattr(v, 'is_array', False) and
                              not getattr(v, 'is_set', False) and
                              bool(getattr(v, 'is_tuple', False)) == (tn == 'tuple'))
            elif tn == 'ndarray':
                if isinstance(v, Elem):
                    raise Unsupported('isinstance(np.ndarray) of a vector that may be a list or an array', n)
                res = res or (isinstance(v, ListV) and bool(getattr(v, 'is_array', False)))
            elif tn in ('float', 'int'):
                if isinstance(v, bool):
                    res = res or tn == 'int'            # bool is a subclass of int
                elif isinstance(v, Rat) and v.atoms() and all(a_ in I.np_syms for a_ in v.atoms()) and \
                        len({I.np_syms[a_] for a_ in v.atoms()}) == 1:
                    # a quantity the rule declared to be a numpy scalar: np.float64 is a float, np.int64 and
                    # np.float32 are neither int nor float
                    res = res or (tn == 'float' and I.np_syms[next(iter(v.atoms()))] == 'float64')
                elif isinstance(v, Rat):
                    both = {'float', 'int'} <= {(y.name if isinstance(y, Builtin) else y) for y in ts}
                    if both:
                        res = True
                    elif all(a_ in I.int_syms for a_ in v.atoms()) and v.atoms() and v.integer_coefficients():
                        res = res or tn == 'int'        # a quantity the rule declared to be a Python int
                    elif v.is_const() or v.iszero():
                        # a literal number: 1 and 1. are the same abstract value
                        raise Unsupported('isinstance(%s) of a number whose Python type is not tracked' % tn, n)
                    else:
                        res = res or tn == 'float'      # symbolic quantities stand for Python floats (assumption)
            elif tn in ('numpy.integer', 'numpy.floating', 'numpy.number', 'numpy.generic'):
                if isinstance(v, Rat) and v.atoms() and all(a_ in I.np_syms for a_ in v.atoms()) and \
                        len({I.np_syms[a_] for a_ in v.atoms()}) == 1:
                    kind_ = I.np_syms[next(iter(v.atoms()))]
                    res = res or tn in ('numpy.number', 'numpy.generic') or \
                        (tn == 'numpy.integer') == kind_.startswith('int')
                elif isinstance(v, Rat) and not (v.is_const() or v.iszero()):
                    pass            # symbolic quantities stand for Python floats (assumption, as above)
                elif isinstance(v, Rat):
                    raise Unsupported('isinstance(%s) of a number whose Python type is not tracked' % tn, n)
            elif tn in ('Number', 'Real', 'Complex'):
                res = res or isinstance(v, (Rat, bool)) or (isinstance(v, Obj) and 'Number' in v.isa)
            elif tn == 'bool':
                res = res or isinstance(v, bool)
            elif tn == 'type':
                res = res or isinstance(v, ClassInfo)        # a class of the package (library classes have no value here)
            elif tn in ('set', 'frozenset'):
                res = res or (isinstance(v, ListV) and bool(getattr(v, 'is_set', False)) and
                              (tn == 'frozenset') == bool(getattr(v, 'frozen', False)))
            elif tn in ('np.bool_', 'numpy.bool_', 'numpy.bool', 'np.bool'):
                if isinstance(v, bool):
                    raise Unsupported('isinstance(np.bool_) of a truth value whose type is not tracked', n)
            elif tn in ('bytes', 'complex'):
                pass            # no such values in the abstract domain
            else:
                raise Unsupported('isinstance against %r' % (x,), n)
        return res
    if name in ('min', 'max') and len(args) == 1 and not kwargs and isinstance(args[0], Elem) and \
            isinstance(args[0].r, Rat) and _root_atom(I, args[0].r) is None:
        return I.D.sym('%s{%r}' % (name.upper(), args[0].r))        # extremum of a vector of unknown length
    if name in ('min', 'max') and set(kwargs) == {'key'} and len(args) == 1:
        # min(seq, key=f): the first entry whose key is the extremum; for seq = 0..n-1 that is the arg-extremum of
        # the keys (kept symbolic, with its candidates, when the keys cannot be ordered)
        seq = list(fr.iter_items(args[0], n))
        if not seq:
            raise _RaisedExc(Raised('ValueError', n))
        keys = [fr.apply(kwargs['key'], [x], {}, n) for x in seq]
        pos = I.native['numpy.arg' + name](I, fr, [ListV(keys)], {}, n)
        if isinstance(pos, Rat):
            return seq[int(pos.const_value())]
        if all(isinstance(x, Rat) and x.eq(C(k_)) for k_, x in enumerate(seq)):
            return pos
        raise Unsupported('%s(..., key=...) whose keys cannot be ordered' % name, n)
    if name in ('min', 'max') and set(kwargs) == {'default'} and len(args) == 1:
        # min(iterable, default=d): d for an empty iterable, else as without it
        seq = ListV(list(fr.iter_items(args[0], n)))
        if not seq.items:
            return kwargs['default']
        return builtin_call(I, fr, name, [seq], {}, n)
    if name in ('min', 'max'):
        # the builtin and numpy's reduction agree on numbers: one model (incl. the uninterpreted extremum)
        if kwargs:
            raise Unsupported('%s() with keyword arguments' % name, n)
        seq = args[0] if len(args) == 1 else ListV(list(args))
        if len(args) == 1 and not isinstance(seq, (ListV, Elem)):
            seq = ListV(list(fr.iter_items(seq, n)))
        return I.native['numpy.' + name](I, fr, [seq], {}, n)
    if name == 'abs':
        v = args[0]
        if isinstance(v, Rat) and v.is_const():
            return C(abs(v.const_value()))
        raise Unsupported('abs of symbolic value', n)
    if name == 'sum':
        v = args[0]
        if isinstance(v, ListV) and v.items and all(isinstance(r_, (ListV, Elem)) for r_ in v.items) and \
                not getattr(v, 'is_array', False) or (
                isinstance(v, ListV) and v.items and all(isinstance(r_, ListV) for r_ in v.items)):
            # sum(matrix[, 0]) / sum([vec_a, vec_b]): start + x0 + x1 ..., i.e. element by element for numpy arrays
            tot = args[1] if len(args) > 1 else C(0)
            for r_ in v.items:
                tot = I.binop('+', tot, r_)
            return tot
        return I.np_sum(args[0])
    if name == 'dict.fromkeys':
        d_ = DictV()
        for k_ in fr.iter_items(args[0], n):
            d_.d[d_.nkey(k_)] = args[1] if len(args) > 1 else None
        return d_
    if name == 'bool':
        return I.truth(args[0], n) if args else False
    if name == 'iter' and len(args) == 1:
        it_ = ListV(list(fr.iter_items(args[0], n)))
        it_.is_iterator = True
        return it_
    if name == 'next' and args:
        it_ = args[0]
        if isinstance(it_, Obj) and '__lines__' in it_.attrs:
            if it_.attrs.get('__closed__'):
                raise _RaisedExc(Raised('ValueError', n))
            it_ = it_.attrs['__lines__']
        if isinstance(it_, ListV) and (getattr(it_, 'is_iterator', False) or getattr(it_, 'is_generator', False)):
            check_sources(it_)
            if getattr(it_, 'drains_other', None) is not None and len(it_.items) > 1:
                it_.drains_other.tainted = True
            if it_.items:
                return it_.items.pop(0)
            if len(args) > 1:
                return args[1]
            raise _RaisedExc(Raised('StopIteration', n))
        if isinstance(it_, ZipV) and not it_.vector:
            if getattr(it_, '_rest', None) is None:
                it_._rest = list(it_.items())
            if it_._rest:
                return it_._rest.pop(0)
            if len(args) > 1:
                return args[1]
            raise _RaisedExc(Raised('StopIteration', n))
        if hasattr(it_, 'take') and type(it_).__name__ == 'CountV':
            return it_.take(I)
        raise Unsupported('next() of %r' % (it_,), n)
    if name == 'map' and len(args) == 2:
        seq = args[1]
        if isinstance(seq, Elem):
            return Elem(fr.apply(args[0], [seq.r], {}, n))
        r_ = ListV([fr.apply(args[0], [x], {}, n) for x in fr.iter_items(seq, n)])
        r_.is_iterator = True           # a map object: what has been taken from it is gone
        return r_
    if name == 'map' and len(args) > 2 and not kwargs:
        # map(f, a, b, ...): stops with the shortest argument (evaluated now; rules only see it consumed to the end)
        cols = [list(fr.iter_items(a_, n)) for a_ in args[1:]]
        if any(isinstance(a_, Elem) for a_ in args[1:]):
            raise Unsupported('map over several vectors of unknown length', n)
        r_ = ListV([fr.apply(args[0], list(row), {}, n) for row in zip(*cols)])
        r_.is_iterator = True
        return r_
    if name == 'filter' and len(args) == 2:
        f_ = args[0]
        r_ = ListV([x for x in fr.iter_items(args[1], n)
                    if I.truth(x if f_ is None else fr.apply(f_, [x], {}, n), n)])
        r_.is_iterator = True           # a filter object
        return r_
    if name == 'reversed' and len(args) == 1:
        r_ = ListV(list(reversed(fr.iter_items(args[0], n))))
        r_.is_iterator = True
        return r_
    if name == 'callable' and len(args) == 1:
        return isinstance(args[0], (FuncRef, Builtin, NativeRef, BoundNative, ClassInfo)) or \
            type(args[0]).__name__ in ('BoundMethod', 'BoundOpaque', 'Lambda')
    if name in ('any', 'all'):
        v = args[0]
        if isinstance(v, ListV):
            vals = [I.truth(x, n) for x in v.items]
            if is_iter(v):
                # short-circuit: stops taking from the iterator at the first decisive item
                stop = next((k_ for k_, t_ in enumerate(vals) if t_ == (name == 'any')), len(vals) - 1)
                if getattr(v, 'drains_other', None) is not None and stop + 1 < len(vals):
                    v.drains_other.tainted = True       # how far the inner iterator got is not tracked: unusable now
                del v.items[:stop + 1]
            return any(vals) if name == 'any' else all(vals)
        if isinstance(v, Elem) and isinstance(v.r, bool):
            return v.r          # the same truth value for every element of a (non-empty) vector
        raise Unsupported('%s() of %r' % (name, v), n)
    if name == 'set':
        v = args[0] if args else ListV([])
        if isinstance(v, ListV) and all(isinstance(I.plain(x), str) for x in v.items):
            r_ = ListV(list(dict.fromkeys(I.plain(x) for x in take(v))))
            r_.is_set = True
            return r_
        return make_set(I, fr.iter_items(v, n), n)
    if name == 'frozenset':
        v = args[0] if args else ListV([])
        items = fr.iter_items(v, n)

        def hashable(x):
            if isinstance(x, (str, bool)) or x is None:
                return True
            if isinstance(x, Rat):
                return x.is_const() or x.iszero() or True
            if isinstance(x, ListV) and not getattr(x, 'is_array', False):
                return all(hashable(y) for y in x.items)
            return False
        if not all(hashable(x) for x in items):
            raise Unsupported('frozenset of unhashable items', n)
        uniq = {}
        for x in items:
            uniq.setdefault(repr(I.plain(x) if isinstance(x, (str, SegStr)) else x), x)
        r_ = ListV([uniq[k_] for k_ in sorted(uniq)])      # canonical order: equal sets have equal representations
        r_.is_set = True
        r_.frozen = True
        return r_
    if name == 'property' and len(args) <= 4 and set(kwargs) <= {'fget', 'fset', 'fdel', 'doc'}:
        sl_ = list(args[:2]) + [None] * (2 - len(args[:2]))
        for i_, nm_ in enumerate(('fget', 'fset')):
            if nm_ in kwargs:
                sl_[i_] = kwargs[nm_]
        if (len(args) > 2 and args[2] is not None) or kwargs.get('fdel') is not None:
            raise Unsupported('property() with a deleter', n)
        return PropertyV(sl_[0], sl_[1])
    if name == 'sorted' and len(args) == 1 and set(kwargs) <= {'key', 'reverse'}:
        v = args[0]
        rev = kwargs.get('reverse', False)
        if not isinstance(rev, bool):
            rev = I.truth(rev, n)
        keyf = kwargs.get('key')
        if isinstance(v, (ZipV, DictV)) or (isinstance(v, ListV)):
            items = list(fr.iter_items(v, n))
        else:
            raise Unsupported('sorted() of %r' % (v,), n)
        if keyf is None and items and all(isinstance(x, str) for x in items):
            if any(x in I.sym_strings for x in items) and len(items) > 1:
                raise Unsupported('sorted() of texts whose spelling is symbolic', n)
            return ListV(sorted(items, reverse=rev))
        keys = items if keyf is None else [fr.apply(keyf, [x], {}, n) for x in items]

        def before(x, y):
            """x < y as Python's sort asks it (tuples and lists item by item)"""
            if isinstance(x, ListV) and isinstance(y, ListV):
                for p_, q_ in zip(x.items, y.items):
                    if before(p_, q_):
                        return True
                    if before(q_, p_):
                        return False
                return len(x.items) < len(y.items)
            if isinstance(x, str) and isinstance(y, str):
                if x in I.sym_strings or y in I.sym_strings:
                    if x == y:
                        return False
                    raise Unsupported('sorted() of texts whose spelling is symbolic', n)
                return x < y
            if isinstance(x, (Rat, bool)) and isinstance(y, (Rat, bool)):
                return I.truth(I.compare('<', x, y, n), n)
            raise Unsupported('sorted() of %r and %r' % (x, y), n)
        order_ = list(range(len(items)))
        for i in range(1, len(order_)):
            j = i
            # a stable insertion sort; with reverse=True equal elements keep their original order as well
            while j > 0 and (before(keys[order_[j - 1]], keys[order_[j]]) if rev
                             else before(keys[order_[j]], keys[order_[j - 1]])):
                order_[j], order_[j - 1] = order_[j - 1], order_[j]
                j -= 1
        return ListV([items[i] for i in order_])
    if name == 'sorted':
        raise Unsupported('sorted() with these arguments', n)
    if name == 'print':
        f_ = kwargs.get('file')
        kwargs.get('flush')
        if f_ is None:
            kwargs.get('sep'), kwargs.get('end')
            return None                 # standard output is not observed
        if not (isinstance(f_, Obj) and 'write' in f_.opaque_methods):
            raise Unsupported('print(file=%r)' % (f_,), n)
        sep, end = kwargs.get('sep', ' '), kwargs.get('end', '\n')
        sep = ' ' if sep is None else sep
        end = '\n' if end is None else end
        out = SegStr()
        for k_, a_ in enumerate(args):
            t_ = builtin_call(I, fr, 'str', [a_], {}, n)
            if k_:
                out = out + I.seg(sep)
            out = out + I.seg(t_)
        out = out + I.seg(end)
        f_.opaque_methods['write'](I, f_, [I.plain(out)], {})
        return None
    if name == 'str':
        if args and isinstance(args[0], ClassInfo):
            return "<class '%s'>" % args[0].qual
        if args and isinstance(args[0], TypeOf) and isinstance(args[0].v, Obj) and args[0].v.ci is not None:
            return "<class '%s'>" % args[0].v.ci.qual       # str(type(obj)) == str(obj.__class__)
        if args and args[0] is None:
            return 'None'
        if args and isinstance(args[0], bool):
            return 'True' if args[0] else 'False'
        if args and isinstance(args[0], (str, SegStr)):
            return args[0]
        if args and isinstance(args[0], Rat):
            return I.plain(I.seg(args[0]))
        if args and isinstance(args[0], Obj) and args[0].ci is not None:
            got = I.repo.find_method(args[0].ci, '__str__', missing_ok=True)
            if got:
                try:
                    r = I.call_method(args[0], '__str__', [], {})
                    if isinstance(r, (str, SegStr)):
                        return I.plain(r) if isinstance(r, SegStr) else r
                except Unsupported:
                    pass        # symbolic content: the text itself is not modelled
        if args and isinstance(args[0], Obj) and '__str__' in args[0].opaque_methods:
            return I.plain(to_segstr(args[0].opaque_methods['__str__'](I, args[0], [], {})))
        if not (args and isinstance(args[0], Obj)):
            # a text without abstract spelling: harmless inside a message, nowhere else (checked at the end of the run)
            PLACEHOLDER_LOG.append((CUR_REL[0], getattr(n, 'lineno', 0)))
        return '<str>'
    if name == 'dict':
        d = DictV()
        if args:
            a0 = args[0]
            if isinstance(a0, DictV):
                d.d.update(a0.d)
                d.keyobj.update(a0.keyobj)
            elif isinstance(a0, ZipV) and not a0.vector:
                for p_ in a0.take_all():
                    if len(p_.items) != 2:
                        raise _RaisedExc(Raised('ValueError', n))
                    d.d[d.nkey(p_.items[0])] = p_.items[1]
            elif isinstance(a0, ListV) and all(isinstance(p_, ListV) and len(p_) == 2 for p_ in a0.items):
                for p_ in a0.items:
                    d.d[d.nkey(p_.items[0])] = p_.items[1]
            else:
                raise Unsupported('dict() of %r' % (a0,), n)
        d.d.update(kwargs)          # keyword arguments override the mapping
        return d
    if name in BUILTIN_EXC:
        return Raised(name, n, list(args) if not kwargs else None)
    if name == 'super' and not args and fr.self_obj is not None and fr.owner is not None:
        return SuperV(fr.self_obj, fr.owner)
    if name == 'object' and not args and not kwargs:
        o = Obj('object()', closed=True)
        o.sentinel = True
        return o
    raise Unsupported('builtin %s' % name, n)


class SliceV:
    def __init__(self, full):
        self.full = full


class TypeOf:
    def __init__(self, v):
        self.v = v


ARRAY_METHOD_HOOK = None        # set by pmv.stdlib: methods of arrays / vectors / booleans


TUPLE_METHODS = frozenset(dir(tuple))


_STRFTIME_W = {'Y': 4, 'm': 2, 'd': 2, 'H': 2, 'M': 2, 'S': 2, 'y': 2, 'j': 3, 'f': 6, '%': 1}


def strftime_text(fmt_):
    """the text strftime makes of a date nobody knows: a field of digits and separators whose width is fixed by the
    directives (those whose width depends on the date or the locale - %B, %A, %c ... - are not modelled)"""
    if not isinstance(fmt_, str) or '\x00' in fmt_:
        raise Unsupported('strftime with a symbolic format')
    w, i_ = 0, 0
    while i_ < len(fmt_):
        if fmt_[i_] == '%' and i_ + 1 < len(fmt_):
            if fmt_[i_ + 1] not in _STRFTIME_W:
                raise Unsupported('strftime directive %%%s' % fmt_[i_ + 1])
            w += _STRFTIME_W[fmt_[i_ + 1]]
            i_ += 2
        else:
            w += 1
            i_ += 1
    return SegStr.field('date<%s>' % fmt_, w, 'num')


def clock_object(kind):
    """a datetime / date of an unknown instant. Modelled: strftime and __format__ with a format (a field whose width the
    directives fix), isoformat / str() (a text whose width depends on the instant: 19 or 26 characters), date(); every
    other member the real object has is refused - never an AttributeError the program would not see"""
    o = Obj('now<%s>' % kind, closed=True)

    def refuse(what):
        def f(I2, o2, a, k):
            raise Unsupported('%s (no model)' % what)
        return f

    def iso(I2, o2, a, k):
        sep = a[0] if a else k.get('sep', 'T')
        if not isinstance(sep, str) or set(k) - {'sep'} or len(a) > 1:
            raise Unsupported('isoformat with these arguments')
        return SegStr.field('now<iso%s>' % sep, None if kind == 'datetime.datetime' else 10, 'text')
    o.opaque_methods['strftime'] = lambda I2, o2, a, k: strftime_text(a[0] if a else k.get('format'))
    o.opaque_methods['__format__'] = lambda I2, o2, a, k: (
        strftime_text(a[0]) if a and a[0] != '' else iso(I2, o2, [' '], {}))
    o.opaque_methods['__str__'] = lambda I2, o2, a, k: iso(I2, o2, [' '], {})
    o.opaque_methods['isoformat'] = iso
    if kind == 'datetime.datetime':
        o.opaque_methods['date'] = lambda I2, o2, a, k: clock_object('datetime.date')
    import datetime as _dt
    for name_ in dir({'datetime.datetime': _dt.datetime, 'datetime.date': _dt.date}[kind]):
        if name_ not in o.opaque_methods and not name_.startswith('__'):
            o.opaque_methods[name_] = refuse('%s.%s' % (kind, name_))
    return o


NDARRAY_MEMBERS = frozenset('''
T _set_dtype _set_shape all any argmax argmin argpartition argsort astype base byteswap choose clip compress
conj conjugate copy ctypes cumprod cumsum data device diagonal dot dtype dump dumps fill flags flat flatten
getfield imag item itemsize mT max mean min nbytes ndim nonzero partition prod put ravel real repeat reshape
resize round searchsorted setfield setflags shape size sort squeeze std strides sum swapaxes take to_device
tobytes tofile tolist trace transpose var view
'''.split())


NUMPY_SCALAR_MEMBERS = frozenset('''
T all any argmax argmin argsort astype base byteswap choose clip compress conj copy cumprod cumsum data device
diagonal dtype dump dumps fill flags flat flatten getfield item itemsize max mean min nbytes ndim nonzero prod
put ravel repeat reshape resize round searchsorted setfield setflags shape size sort squeeze std strides sum
swapaxes take to_device tobytes tofile tolist trace transpose var view
'''.split())


def _number_members():
    return set(dir(float)) | set(dir(int)) | NUMPY_SCALAR_MEMBERS | {
        x for x in dir(float) + dir(int) if x.startswith('__')} | {'__array__', '__array_interface__', '__array_priority__', '__array_struct__', '__array_wrap__', '__array_namespace__', '__copy__', '__deepcopy__', '__class_getitem__', '__buffer__', '__setstate__'}


NUMBER_MEMBERS = _number_members()      # a name no kind of number has is an AttributeError, whatever the value


def bound_native(I, fr, bn, args, kwargs, n):
    if any(is_iter(a) for a in args):
        args = drain(args)              # list.extend(it), str.join(it), set.update(it) ... run over the iterator
    if isinstance(bn.base, ListV) and getattr(bn.base, 'is_tuple', False) and bn.name not in TUPLE_METHODS:
        raise _RaisedExc(Raised('AttributeError', n))      # a tuple has no append / extend / sort / ...
    b, name = bn.base, bn.name
    if ARRAY_METHOD_HOOK is not None:
        done, val = ARRAY_METHOD_HOOK(I, fr, b, name, args, kwargs, n)
        if done:
            return val
    if isinstance(b, TableRef):
        return _table_method(I, fr, b, name, args, kwargs, n)
    if isinstance(b, ListV) and name == 'count' and len(args) == 1:
        return C(len([x for x in b.items if I.compare('==', x, args[0], n)]))
    if isinstance(b, ListV):
        if name == 'add' and getattr(b, 'is_set', False):
            b.items[:] = make_set(I, b.items + [args[0]], n).items
            return None
        if getattr(b, 'is_set', False) and name in ('union', 'intersection', 'difference', 'update', 'issubset',
                                                    'issuperset', 'isdisjoint', 'discard', 'remove', 'copy',
                                                    'symmetric_difference', 'intersection_update',
                                                    'difference_update'):
            others = [make_set(I, fr.iter_items(a_, n), n) for a_ in args]

            def has(c_, x_):
                return any((x_ == y_) if isinstance(x_, str) or isinstance(y_, str) else I.struct_eq(x_, y_)
                           for y_ in c_.items)
            if name == 'copy':
                return make_set(I, list(b.items), n)
            if name in ('union', 'update'):
                r_ = make_set(I, b.items + [x_ for o_ in others for x_ in o_.items], n)
            elif name in ('intersection', 'intersection_update'):
                r_ = make_set(I, [x_ for x_ in b.items if all(has(o_, x_) for o_ in others)], n)
            elif name in ('difference', 'difference_update'):
                r_ = make_set(I, [x_ for x_ in b.items if not any(has(o_, x_) for o_ in others)], n)
            elif name == 'symmetric_difference':
                o_ = others[0]
                r_ = make_set(I, [x_ for x_ in b.items if not has(o_, x_)] + [x_ for x_ in o_.items if not has(b, x_)], n)
            elif name == 'issubset':
                return all(has(others[0], x_) for x_ in b.items)
            elif name == 'issuperset':
                return all(has(b, x_) for x_ in others[0].items)
            elif name == 'isdisjoint':
                return not any(has(others[0], x_) for x_ in b.items)
            else:       # discard / remove
                x0 = args[0]
                hit = [k_ for k_, y_ in enumerate(b.items)
                       if ((x0 == y_) if isinstance(x0, str) or isinstance(y_, str) else I.struct_eq(x0, y_))]
                if not hit and name == 'remove':
                    raise _RaisedExc(Raised('KeyError', n))
                for k_ in reversed(hit):
                    del b.items[k_]
                return None
            if name.endswith('update') or name == 'update':
                b.items[:] = r_.items
                return None
            return r_
        if name == 'append':
            v = args[0]
            if fr.in_vec_loop:
                b.items.append(VecItem(v))
            else:
                b.items.append(v)
            return None
        if name == 'dot' and getattr(b, 'is_array', False):
            return _np_dot(I, fr, [b, args[0]], {}, n)
        if name == 'transpose' and getattr(b, 'is_array', False):
            axes = args[0] if len(args) == 1 and isinstance(args[0], ListV) else ListV(list(args))
            ax_ = [_as_int(a, n) for a in axes.items]
            tv = nd_transpose(b, ax_)
            tv.view_of = (b, ax_)           # numpy returns a view: in-place updates reach the original array
            return tv
        if name == 'copy':
            r = ListV(list(b.items))
            r.is_array = getattr(b, 'is_array', False)
            if r.is_array:
                # the copy of an array has the element type of the array (for an array the caller supplied: the caller's)
                r.dtype = getattr(b, 'dtype', None)
                if getattr(b, 'np_int', False):
                    r.np_int = True
            return r
        if name in ('tolist', 'item') and not getattr(b, 'is_array', False):
            raise _RaisedExc(Raised('AttributeError', n))     # a plain list has no tolist()/item()
        if name == 'tolist':
            return ListV([x if not isinstance(x, ListV) else ListV(list(x.items)) for x in b.items])
        if name == 'item':
            return b.items[_as_int(args[0], n)] if args else b.items[0]
        if name == 'extend':
            b.items.extend(args[0].items)
            return None
        if name == 'insert':
            b.items.insert(_as_int(args[0], n), args[1])
            return None
        if name == 'pop':
            if not b.items:
                raise _RaisedExc(Raised('IndexError', n))
            i = _as_int(args[0], n) if args else -1
            if not -len(b.items) <= i < len(b.items):
                raise _RaisedExc(Raised('IndexError', n))
            return b.items.pop(i)
        if name == 'clear':
            del b.items[:]
            return None
        if name == 'remove' and len(args) == 1:
            for i_, x_ in enumerate(b.items):
                if x_ is args[0] or (not isinstance(x_, Obj) and not isinstance(args[0], Obj) and
                                     I.struct_eq(x_, args[0])):
                    del b.items[i_]
                    return None
                if isinstance(x_, Obj) and isinstance(args[0], Obj) and x_.ci is not None and \
                        I.repo.find_method(x_.ci, '__eq__', missing_ok=True):
                    raise Unsupported('list.remove over objects with their own __eq__ (equality of model objects)', n)
            raise _RaisedExc(Raised('ValueError', n))
        if name == 'sort' and not args and set(kwargs) <= {'key', 'reverse'}:
            b.items[:] = builtin_call(I, fr, 'sorted', [ListV(list(b.items))], kwargs, n).items
            return None
        if name == 'index':
            if len(args) != 1:
                raise Unsupported('list.index with start/stop', n)
            # the first entry that is the argument or equals it (Python's ==, not identity)
            for i, x in enumerate(b.items):
                if x is args[0] or (isinstance(x, str) and isinstance(args[0], str) and x == args[0]):
                    return C(i)
                if isinstance(x, (Rat, int, Fr)) and isinstance(args[0], (Rat, int, Fr)) and \
                        not isinstance(x, bool) and not isinstance(args[0], bool):
                    if I.compare('==', x, args[0], n):
                        return C(i)
                elif isinstance(x, (Obj, DictV, ListV)) and isinstance(args[0], (Obj, DictV, ListV)):
                    if I.struct_eq(x, args[0]):
                        return C(i)
            raise _RaisedExc(Raised('ValueError', n))
    if isinstance(b, (Rat, SumV)) and name == 'item':
        return b
    if isinstance(b, DictV):
        if name == 'copy':
            return DictV(dict(b.d))
        if name == 'get':
            k = I.text_key(b, args[0], n)
            return b.d.get(k, args[1] if len(args) > 1 else None)
        if name == 'items':
            prs_ = []
            for k, v in b.d.items():
                pr_ = ListV([b.okey(k), v])
                pr_.is_tuple = True         # (key, value) pairs are tuples
                prs_.append(pr_)
            return ListV(prs_)
        if name == 'clear' and not args:
            b.d.clear()
            b.keyobj.clear()
            return None
        if name == 'keys':
            r_ = ListV([b.okey(k) for k in b.d.keys()])
            r_.is_keys = True           # a key view takes part in set algebra (keys() & other, keys() - other)
            return r_
        if name == 'values':
            return ListV(list(b.d.values()))
        if name == 'pop':
            k = b.nkey(args[0])
            if k in b.d:
                return b.d.pop(k)
            if len(args) > 1:
                return args[1]
            raise _RaisedExc(Raised('KeyError', n, [k]))
        if name == 'update' and isinstance(b, CounterV):
            # Counter.update ADDS counts (of a mapping) or counts the items of an iterable
            if kwargs or len(args) > 1:
                raise Unsupported('Counter.update with keyword arguments', n)
            if args and isinstance(args[0], DictV):
                for k_, v_ in args[0].d.items():
                    b.d[k_] = I.binop('+', b.d[k_], v_) if k_ in b.d else v_
                    if k_ in args[0].keyobj:
                        b.keyobj.setdefault(k_, args[0].keyobj[k_])
            elif args:
                for x_ in fr.iter_items(args[0], n):
                    k_ = b.nkey(x_)
                    b.d[k_] = I.binop('+', b.d[k_], C(1)) if k_ in b.d else C(1)
            return None
        if name == 'update':
            if args and isinstance(args[0], DictV):
                b.d.update(args[0].d)
                b.keyobj.update(args[0].keyobj)
            elif args:
                for p_ in fr.iter_items(args[0], n):
                    if not (isinstance(p_, ListV) and len(p_) == 2):
                        raise Unsupported('dict.update with %r' % (p_,), n)
                    b.d[b.nkey(p_.items[0])] = p_.items[1]
            b.d.update(kwargs)
            return None
        if name == 'setdefault':
            k = b.nkey(args[0])
            if k not in b.d:
                b.d[k] = args[1] if len(args) > 1 else None
            return b.d[k]
    if isinstance(b, (str, SegStr)) and (isinstance(b, SegStr) or b in I.sym_strings or name in ('join', 'format')):
        r = abstract_str_method(I, fr, b, name, args, kwargs, n)
        if r is not NotImplemented:
            return r
    if isinstance(b, str) and name == 'format':
        if all(isinstance(a, str) for a in args) and not kwargs:
            try:
                return b.format(*args)
            except (IndexError, KeyError, ValueError):
                pass
        try:
            return I.format(b, args, kwargs)        # numbers and abstract texts as arguments
        except Unsupported:
            pass
        PLACEHOLDER_LOG.append((CUR_REL[0], getattr(n, 'lineno', 0)))
        return '<formatted>'
    if isinstance(b, str) and b not in I.sym_strings and name in (
            'lower', 'upper', 'strip', 'lstrip', 'rstrip', 'isdigit', 'isalpha', 'isspace', 'isalnum', 'title',
            'capitalize', 'count', 'find', 'rfind', 'index', 'zfill', 'swapcase', 'casefold', 'ljust', 'rjust') \
            and all(isinstance(a, (str, Rat)) for a in args):
        pa = [a if isinstance(a, str) else _as_int(a, n) for a in args]
        r = getattr(b, name)(*pa)
        return C(r) if isinstance(r, int) and not isinstance(r, bool) else r
    if isinstance(b, str) and b not in I.sym_strings and name in (
            'split', 'rsplit', 'partition', 'rpartition', 'splitlines', 'removeprefix', 'removesuffix', 'center',
            'expandtabs', 'isupper', 'islower', 'istitle', 'isnumeric', 'isdecimal', 'isidentifier', 'startswith',
            'endswith') and all((isinstance(a, str) and a not in I.sym_strings) or
                                (isinstance(a, Rat) and a.is_const()) or a is None for a in args) and not kwargs:
        pa = [a if isinstance(a, str) or a is None else _as_int(a, n) for a in args]
        r = getattr(b, name)(*pa)
        if isinstance(r, (list, tuple)):
            return ListV(list(r))
        return C(r) if isinstance(r, int) and not isinstance(r, bool) else r
    if isinstance(b, str) and name == 'split' and all(isinstance(a, str) for a in args):
        return ListV(list(b.split(*args)))
    if isinstance(b, str) and name == 'replace' and len(args) in (2, 3) and all(isinstance(a, str) for a in args[:2]):
        return b.replace(args[0], args[1], *([_as_int(args[2], n)] if len(args) == 3 else []))
    if isinstance(b, str) and name in ('startswith', 'endswith') and all(isinstance(a, str) for a in args):
        return getattr(b, name)(*args)
    real = dir(dict) if isinstance(b, DictV) else \
        dir(frozenset if getattr(b, 'frozen', False) else set) if isinstance(b, ListV) and getattr(b, 'is_set', False) \
        else dir(list) if isinstance(b, ListV) and not getattr(b, 'is_array', False) and not is_iter(b) \
        else (NDARRAY_MEMBERS | set(dir(object))) if isinstance(b, ListV) and getattr(b, 'is_array', False) \
        else dir(str) if isinstance(b, str) \
        else dir(iter(())) if is_iter(b) \
        else dir(bool) if isinstance(b, bool) \
        else NUMBER_MEMBERS if isinstance(b, Rat) else None
    if real is not None and name not in real:
        raise _RaisedExc(Raised('AttributeError', n))     # e.g. dict.to_dict(), list.tolist()
    raise Unsupported('method %s on %r' % (name, b), n)


def abstract_str_method(I, fr, b, name, args, kwargs, n):
    sym = isinstance(b, SegStr) or b in I.sym_strings
    if name == 'format':
        plain_args = all(isinstance(a, str) and a not in I.sym_strings for a in args) and \
            all(isinstance(a, str) and a not in I.sym_strings for a in kwargs.values())
        if not sym and plain_args:
            return NotImplemented
        if sym:
            raise Unsupported('format() with a symbolic template', n)
        try:
            return I.format(b, args, kwargs)
        except Unsupported:
            PLACEHOLDER_LOG.append((CUR_REL[0], getattr(n, 'lineno', 0)))
            return '<formatted>'
    if name == 'join':
        if sym:
            raise Unsupported('join() with a symbolic separator', n)
        seq = args[0]
        items = seq.items if isinstance(seq, ListV) else None
        if items is None:
            raise Unsupported('join() of %r' % (seq,), n)
        if all(isinstance(x, str) and x not in I.sym_strings for x in items):
            return b.join(items)
        out = SegStr()
        for i, x in enumerate(items):
            if i:
                out = out + b
            out = out + I.seg(x)
        return I.plain(out)
    if not sym:
        return NotImplemented
    sb = I.seg(b)
    if name in ('find', 'rfind') and len(args) > 1 and isinstance(args[0], str) and args[0] not in I.sym_strings \
            and (name == 'rfind' or len(args) > 2):
        # s.find(sub, start[, end]) / s.rfind(sub, start[, end]): the search inside s[start:end]
        total = len(sb)
        lo = _as_int(args[1], n) if args[1] is not None else 0
        hi = _as_int(args[2], n) if len(args) > 2 and args[2] is not None else total
        lo = max(0, lo + total) if lo < 0 else min(lo, total)
        hi = max(0, hi + total) if hi < 0 else min(hi, total)
        if lo > hi or (lo == hi and args[0]):
            return C(-1)
        r = sb.rfind(args[0], lo, hi) if name == 'rfind' else sb.find_in(args[0], lo, hi)
        if r is None:
            raise Unsupported('%s(): user text after the last literal occurrence' % name, n)
        return C(r)
    if name == 'find':
        start = _as_int(args[1], n) if len(args) > 1 else 0
        if not isinstance(args[0], str):
            raise Unsupported('find() of a symbolic needle', n)
        return C(sb.find(args[0], start))
    if name in ('ljust', 'rjust') and args:
        w_ = _as_int(args[0], n)
        pad = max(0, w_ - len(sb))
        return I.plain(sb + ' ' * pad) if name == 'ljust' else I.plain(SegStr.lit(' ' * pad) + sb)
    if name in ('index', 'rindex') and len(args) == 1 and isinstance(args[0], (str, SegStr)):
        from .absre import spell_plain
        table = {}
        hay = spell_plain(sb, I.num_policy, table)
        needle = spell_plain(I.seg(args[0]), I.num_policy, table)
        r = hay.find(needle) if name == 'index' else hay.rfind(needle)
        if r < 0:
            raise _RaisedExc(Raised('ValueError', n))
        return C(r)
    if name == 'rfind' and args and isinstance(args[0], str):
        r = sb.rfind(args[0])
        if r is None:
            raise Unsupported('rfind(): user text after the last literal occurrence', n)
        return C(r)
    if name in ('strip', 'lstrip', 'rstrip') and (not args or (
            len(args) == 1 and isinstance(args[0], str) and args[0] not in I.sym_strings)) and not kwargs:
        # the analysed code's own strip
        return I.plain(sb.strip(name, args[0] if args else None, strict=True, sign=I.sign_of))
    if name in ('removeprefix', 'removesuffix') and len(args) == 1 and isinstance(args[0], (str, SegStr)):
        pre = I.seg(args[0])
        if len(pre.segs) == 0:
            return I.plain(sb)
        k = len(pre.segs)
        mine = sb.segs[:k] if name == 'removeprefix' else sb.segs[len(sb.segs) - k:]
        if len(mine) == k and all((a_.kind == b_.kind == 'lit' and a_.text == b_.text) or (a_ is b_) or
                                  (a_.kind == b_.kind == 'field' and a_.value == b_.value and a_.width == b_.width
                                   and a_.cls == b_.cls)
                                  for a_, b_ in zip(mine, pre.segs)):
            rest = sb.segs[k:] if name == 'removeprefix' else sb.segs[:len(sb.segs) - k]
            return I.plain(SegStr(list(rest)))
        if pre.is_literal():
            # a literal affix against abstract text: decided on the literal part it would have to match
            lit_ = pre.literal()
            edge = sb.segs[0] if name == 'removeprefix' else sb.segs[-1]
            if edge.kind == 'lit':
                if (edge.text.startswith(lit_) if name == 'removeprefix' else edge.text.endswith(lit_)):
                    new_edge = edge.text[len(lit_):] if name == 'removeprefix' else edge.text[:len(edge.text) - len(lit_)]
                    segs_ = ([Seg('lit', text=new_edge)] + sb.segs[1:]) if name == 'removeprefix' else \
                        (sb.segs[:-1] + [Seg('lit', text=new_edge)])
                    return I.plain(SegStr(segs_))
                if len(edge.text) >= len(lit_):
                    return I.plain(sb)              # the edge is literal and differs: nothing removed
            I.hazards.append((n, '%s(%r) depends on user-controlled text %r' % (name, lit_, sb)))
            return I.plain(sb)
        raise Unsupported('%s of an abstract affix that is not the leading/trailing part' % name, n)
    if name in ('isdigit', 'isalpha'):
        if sb.is_literal():
            return getattr(sb.literal(), name)()
        kinds = {f.cls for f in sb.fields()}
        if sb.fields() and len(sb.fields()) == len(sb.segs):
            if kinds == {'alpha'}:
                return name == 'isalpha'
            if kinds == {'num'} and all(f.spec in ('%d', 'd') for f in sb.fields()):
                return name == 'isdigit'
        I.hazards.append((n, '%s() of user-controlled text %r' % (name, sb)))
        return False
    if name == 'replace' and len(args) in (2, 3) and all(isinstance(a, str) and a not in I.sym_strings
                                                          for a in args[:2]):
        from .absre import grammar
        old_, new_ = args[0], args[1]
        left = _as_int(args[2], n) if len(args) == 3 else -1
        out = []
        for sg in sb.segs:
            if sg.kind == 'lit':
                if left == 0 or not old_:
                    out.append(sg)
                elif left < 0:
                    out.append(Seg('lit', text=sg.text.replace(old_, new_)))
                else:
                    use = min(sg.text.count(old_), left)
                    out.append(Seg('lit', text=sg.text.replace(old_, new_, use)))
                    left -= use
                continue
            if left != 0 and old_:
                if sg.cls == 'num':
                    may = set(old_) <= set('0123456789+-.eE ')
                else:
                    g = grammar(sg)
                    may = any(all(ch in g[p + i] for i, ch in enumerate(old_))
                              for p in range(0, len(g) - len(old_) + 1))
                if may:
                    # an occurrence inside the user's text would be replaced as well: the result depends on how the
                    # name is spelled (a digit of the name equal to the coefficient being stripped, ...)
                    I.replace_hazards.append((n, old_, sg, left))
            out.append(sg)
        return I.plain(SegStr(out))
    if name == 'split' and len(args) == 1 and isinstance(args[0], str):
        return ListV([I.plain(x) for x in sb.split(args[0])])
    if name == 'splitlines':
        return ListV([I.plain(x) for x in sb.splitlines()])
    if name in ('startswith', 'endswith') and args and isinstance(args[0], str):
        k = len(args[0])
        try:
            piece = sb.slice(0, k) if name == 'startswith' else sb.slice(len(sb) - k, len(sb))
        except Cut as e_:
            # the compared characters belong to a symbolic field: the outcome depends on its spelling when the
            # field's alphabet can produce them (a species named END..., a formatted number for digits)
            from .absre import grammar
            fld = e_.seg
            if fld.cls == 'num':
                may = set(args[0]) <= set('0123456789+-.eE ')
            else:
                g = grammar(fld)
                may = all(ch in g[min(i, len(g) - 1)] for i, ch in enumerate(args[0])) if g else False
            if may:
                I.hazards.append((n, '%s(%r) of user-controlled text %r' % (name, args[0], sb)))
            return False
        if not piece.is_literal() and len(piece.segs) >= 1:
            # whole fields are compared with a literal: same question
            I.hazards.append((n, '%s(%r) of user-controlled text %r' % (name, args[0], sb)))
            return False
        return piece.is_literal() and piece.literal() == args[0]
    if name in ('partition', 'rpartition') and len(args) == 1 and isinstance(args[0], str) and \
            args[0] not in I.sym_strings and args[0] and not kwargs:
        # s.rpartition(sep) = (s[:i], sep, s[i+len(sep):]) with i = s.rfind(sep); ('', '', s) when sep is not there
        sep = args[0]
        i_ = sb.rfind(sep) if name == 'rpartition' else sb.find(sep, 0)
        if i_ is None:
            raise Unsupported('%s(): user text after the last literal occurrence' % name, n)
        if i_ < 0:
            parts = ['', '', I.plain(sb)] if name == 'rpartition' else [I.plain(sb), '', '']
        else:
            parts = [I.plain(sb.slice(0, i_)), sep, I.plain(sb.slice(i_ + len(sep), None))]
        r_ = ListV(parts)
        r_.is_tuple = True
        return r_
    raise Unsupported('method %s on an abstract string' % name, n)


# ----------------------------------------------------------------------
# native handlers: numpy + pmutt.constants model

def _arg(args, kwargs, i, name, default=Ellipsis):
    if len(args) > i:
        return args[i]
    if name in kwargs:
        return kwargs[name]
    if default is Ellipsis:
        raise Unsupported('missing argument %s' % name)
    return default


def _vec_norm(v):
    """a list filled by one append per element of a vector of unknown length is that vector of generic items"""
    if isinstance(v, ListV) and len(v.items) == 1 and isinstance(v.items[0], VecItem):
        return Elem(v.items[0].r)
    return v


def _np_array(I, fr, args, kwargs, n):
    v = _vec_norm(_arg(args, kwargs, 0, 'object'))
    tag = _dtype_tag(_arg(args, kwargs, 1, 'dtype', None))
    ndmin = kwargs.get('ndmin')
    if ndmin is not None:
        nd_ = _as_int(ndmin, n)
        if nd_ not in (0, 1):
            raise Unsupported('np.array(ndmin=%d)' % nd_, n)
        if nd_ == 1 and isinstance(v, (Rat, SumV)):
            v = ListV([v])              # a scalar becomes an array with one entry; a vector stays what it is
    if tag is not None and tag != 'float':
        # conversion to an integer (or other) element type changes the values: not modelled element by element
        def integral(x):
            if isinstance(x, ListV):
                return all(integral(y) for y in x.items)
            return isinstance(x, Rat) and (x.iszero() or (x.is_const() and x.const_value().denominator == 1) or
                                           (x.integer_coefficients() and all(a_ in I.int_syms for a_ in x.atoms())))
        if not integral(v):
            raise Unsupported('np.array(..., dtype=%s) of values that are not known to be integral' % tag, n)
    if isinstance(v, ListV):
        # list of Elem rows -> Elem of ListV row (2-D array with unknown axis 0)
        r = ListV(list(v.items))
        r.is_array = True
        if tag is not None:
            r.dtype = tag
        elif getattr(v, 'dtype', None) is not None:
            r.dtype = v.dtype

        def int_leaves(x):
            if isinstance(x, ListV):
                return bool(x.items) and all(int_leaves(y) for y in x.items)
            return isinstance(x, Rat) and bool(x.atoms()) and x.integer_coefficients() and \
                all(a_ in I.int_syms for a_ in x.atoms()) and not any(a_ in I.np_syms for a_ in x.atoms())
        if tag is None and int_leaves(r):
            # an array made from Python ints holds numpy integers: list() / iteration of it hands out np.int64 values
            # (which e.g. the JSON encoder refuses), not the ints that went in
            r.np_int = True

        def bare_leaves(x):
            if isinstance(x, ListV):
                return bool(x.items) and all(bare_leaves(y) for y in x.items)
            if not (isinstance(x, Rat) and x.is_monomial() and len(x.atoms()) == 1):
                return False
            a_ = next(iter(x.atoms()))
            return x.eq(Rat.atom(a_)) and a_ not in I.np_syms and not a_.startswith(('U<', 'ROOT#', 'REAL{'))
        if tag is None and getattr(r, 'dtype', None) is None and not getattr(v, 'is_array', False) and bare_leaves(r):
            # an array made from a list of numbers the caller supplied as they are: its element type is the caller's
            # (whole numbers give an integer array, into which a real value does not fit)
            r.dtype = 'caller'
        if tag is None and getattr(r, 'dtype', None) is None and isinstance(n, ast.Call) and n.args and \
                _int_display(n.args[0]):
            # np.array([0] * 7), np.array([[1, 2], [3, 4]]): a display of Python int literals gives an int64 array
            r.dtype = 'int'
        return r
    if isinstance(v, Elem):
        return Elem(v.r)        # np.array copies: an in-place update of the result does not reach the argument
    return v


def _int_display(node):
    """a list / tuple display (possibly nested, possibly repeated with *) whose leaves are all int literals"""
    if isinstance(node, (ast.List, ast.Tuple)):
        return bool(node.elts) and all(_int_display(e) or _int_literal(e) for e in node.elts)
    if isinstance(node, ast.BinOp) and isinstance(node.op, ast.Mult):
        return (_int_display(node.left) and not isinstance(node.right, (ast.List, ast.Tuple))) or \
            (_int_display(node.right) and not isinstance(node.left, (ast.List, ast.Tuple)))
    return False


def _int_literal(e):
    if isinstance(e, ast.UnaryOp) and isinstance(e.op, (ast.USub, ast.UAdd)):
        e = e.operand
    return isinstance(e, ast.Constant) and type(e.value) is int


def _np_asarray(I, fr, args, kwargs, n):
    """np.asarray / np.asanyarray (and np.array(copy=False)) hand back the very array when no conversion is needed: what
    is then stored into the result is stored into the argument"""
    v = args[0] if args else kwargs.get('a', kwargs.get('object'))
    tag = _dtype_tag(_arg(args, kwargs, 1, 'dtype', None))
    kwargs.get('copy')
    if isinstance(v, ListV) and getattr(v, 'is_array', False) and (
            tag is None or (tag == 'float' and getattr(v, 'dtype', None) == 'float')):
        return v
    if isinstance(v, ListV) and getattr(v, 'is_array', False) and tag == 'float' and \
            getattr(v, 'dtype', None) in ('caller', None):
        # an array of the caller asked for as float64: the very array when it is one already (what is stored into
        # the result is stored into the argument), a converted copy otherwise - in both cases a float64 array. Modelled
        # as an array that shares its entries with the argument and is typed float.
        r = ListV([])
        r.items = v.items
        r.is_array = True
        r.dtype = 'float'
        return r
    return _np_array(I, fr, args, kwargs, n)


def _np_array_copy(I, fr, args, kwargs, n):
    cp = kwargs.get('copy', True)
    if cp is False or cp is None:
        return _np_asarray(I, fr, args, kwargs, n)
    if cp is not True:
        raise Unsupported('np.array(copy=%r)' % (cp,), n)
    return _np_array(I, fr, args, kwargs, n)


FLOAT_DTYPES = ('np.double', 'np.float64', 'np.float_', 'float', 'double', 'float64', 'd', 'f8')


def _np_like(val):
    def h(I, fr, args, kwargs, n):
        v = _arg(args, kwargs, 0, 'a')
        if isinstance(v, ListV):
            r = ListV([h(I, fr, [x], {}, n) for x in v.items])
            r.is_array = True
            # element type of the new buffer: the one asked for, else that of the prototype - which for a
            # container supplied by the caller may be an integer type
            dt = _arg(args, kwargs, 1, 'dtype', None)
            if isinstance(dt, Builtin):
                dt = dt.name
            if dt is not None:
                r.dtype = _dtype_tag(dt)
            else:
                r.dtype = getattr(v, 'dtype', 'caller')
            return r
        if isinstance(v, Elem):
            return Elem(C(val))
        return C(val)
    return h


INT_DTYPES = ('int', 'np.int64', 'np.int32', 'np.int_', 'int64', 'int32', 'i8', 'i4', 'np.intp', 'bool', 'np.bool_')


NARROW_DTYPES = ('float32', 'np.float32', 'f4', 'single', 'np.single', 'float16', 'np.float16', 'f2', 'half', 'np.half')


def _dtype_tag(dt):
    """'float' (64 bit: exact for this analysis) | 'int' | 'narrow' (a float type that rounds what is stored) |
    'caller' (the element type of a container the caller supplied) | None (not asked for)"""
    if isinstance(dt, Builtin):
        dt = dt.name
    if isinstance(dt, BoundNative) and dt.name == 'dtype' and isinstance(dt.base, ListV):
        return getattr(dt.base, 'dtype', None) or 'caller'      # arr.dtype: the element type of that array
    if isinstance(dt, ExtRef):
        dt = '.'.join(dt.alias[1:])
        dt = {'numpy.float32': 'float32', 'numpy.float16': 'float16', 'numpy.single': 'single',
              'numpy.half': 'half'}.get(dt, dt)
    if dt is None:
        return None
    if dt in ('float', 'int', 'narrow', 'caller'):
        return dt                       # already a tag
    if dt in FLOAT_DTYPES:
        return 'float'
    if dt in INT_DTYPES:
        return 'int'
    if dt in NARROW_DTYPES:
        return 'narrow'
    raise Unsupported('element type %r of an array' % (dt,))


def _tag_dtype(v, tag):
    if tag is not None and isinstance(v, ListV):
        v.dtype = tag
        for x in v.items:
            _tag_dtype(x, tag)
    return v


def _np_zeros(val):
    def h(I, fr, args, kwargs, n):
        return _tag_dtype(h0(I, fr, args, kwargs, n), _dtype_tag(_arg(args, kwargs, 1, 'dtype', None)))

    def h0(I, fr, args, kwargs, n):
        shape = _arg(args, kwargs, 0, 'shape')
        if isinstance(shape, ListV) and len(shape) >= 1:
            dims = [_as_int(x, n) for x in shape.items]

            def build(ds):
                if len(ds) == 1:
                    r_ = ListV([C(val)] * ds[0])
                else:
                    r_ = ListV([build(ds[1:]) for _ in range(ds[0])])
                r_.is_array = True
                return r_
            return build(dims)
        if isinstance(shape, Rat) and shape.is_const():
            r = ListV([C(val)] * _as_int(shape, n))
            r.is_array = True
            return r
        if isinstance(shape, Rat):
            return Elem(C(val))
        raise Unsupported('np.zeros shape', n)
    return h


_UNINIT = [0]


def _np_empty(I, fr, args, kwargs, n):
    """np.empty: a buffer of the asked shape whose entries are whatever was in memory - every entry a value of its
    own that equals nothing else, so a result that still holds one shows"""
    r = _np_zeros(0)(I, fr, args, kwargs, n)

    def fill(v):
        if isinstance(v, ListV):
            for k_, x_ in enumerate(v.items):
                if isinstance(x_, ListV):
                    fill(x_)
                else:
                    _UNINIT[0] += 1
                    v.items[k_] = I.D.sym('UNINIT#%d' % _UNINIT[0])
    if isinstance(r, Elem):
        _UNINIT[0] += 1
        return Elem(I.D.sym('UNINIT#%d' % _UNINIT[0]))
    fill(r)
    return r


LOG_METHODS = ('debug', 'info', 'warning', 'warn', 'error', 'exception', 'critical', 'log', 'setLevel', 'addHandler',
               'removeHandler', 'addFilter', 'isEnabledFor')


def _get_logger(I, fr, args, kwargs, n):
    """logging: what is logged is not an observable of any property (it is neither a warning nor an exception); the
    arguments of a logging call have been evaluated by the time the model is reached"""
    kwargs.get('name')
    lg = Obj('logger', closed=True)
    for m_ in LOG_METHODS:
        lg.opaque_methods[m_] = (lambda I_, o, a, k: False) if m_ == 'isEnabledFor' else (lambda I_, o, a, k: None)
    return lg


def _log_call(I, fr, args, kwargs, n):
    for k_ in list(kwargs):
        kwargs.get(k_)
    return None


def _np_dot(I, fr, args, kwargs, n):
    a = _vec_norm(_arg(args, kwargs, 0, 'a'))
    b = _vec_norm(_arg(args, kwargs, 1, 'b'))

    def is_mat(x):
        return isinstance(x, ListV) and x.items and all(isinstance(r, ListV) for r in x.items)

    def vdot(x, y):
        if len(x) != len(y):
            raise _RaisedExc(Raised('ValueError', n))
        tot = C(0)
        for p, q in zip(x.items, y.items):
            tot = I.binop('+', tot, I.binop('*', p, q))
        return tot

    if isinstance(a, Elem) and isinstance(a.r, ListV) and isinstance(b, ListV):
        return Elem(vdot(a.r, b))
    if isinstance(b, Elem) and isinstance(b.r, ListV) and isinstance(a, ListV):
        return Elem(vdot(a, b.r))
    if isinstance(a, Elem) and isinstance(b, Elem):
        return SumV(C(0), I.num(I.binop('*', a.r, b.r)))
    if isinstance(a, ListV) and isinstance(b, ListV):
        if is_mat(a) and not is_mat(b):
            r = ListV([vdot(row, b) for row in a.items])
            r.is_array = True
            return r
        if is_mat(b) and not is_mat(a):
            cols = _transpose(b)
            r = ListV([vdot(a, col) for col in cols.items])
            r.is_array = True
            return r
        if not is_mat(a) and not is_mat(b):
            return vdot(a, b)
    raise Unsupported('np.dot operands', n)


def _math_log(I, fr, args, kwargs, n):
    if len(args) != 1 or kwargs:
        raise Unsupported('math.log with a base', n)
    if not isinstance(args[0], Rat):
        raise Unsupported('math.log of %r' % (args[0],), n)
    return _np_unary('log')(I, fr, args, kwargs, n)


def _math_pow(I, fr, args, kwargs, n):
    if len(args) != 2 or kwargs or not all(isinstance(a, Rat) for a in args):
        raise Unsupported('math.pow with these arguments', n)
    return I.binop('**', args[0], args[1])


def _np_unary(fname):
    def h(I, fr, args, kwargs, n):
        v = _arg(args, kwargs, 0, 'x')
        D = I.D
        if fname == 'log':
            r = I.unary_fn(D.ln, v)
            if isinstance(r, Rat):
                from .nf import LNPROD
                for a_ in r.atoms():
                    if a_ in LNPROD:
                        # logarithm of a product over a vector of unknown length: in floating point the product
                        # is formed first (the rule decides whether its factors can make it underflow)
                        I.underflow_hazards.append((n, fr.module.relpath, D.arg[a_[3:-1]]))
            return r
        if fname == 'exp':
            return I.unary_fn(D.exp, v)
        if fname == 'sqrt':
            return I.unary_fn(lambda r: D.powq(r, Fr(1, 2)), v)
        if fname == 'sinh':
            return I.unary_fn(lambda r: (D.exp(r) - D.exp(-r)) / C(2), v)
        if fname == 'cosh':
            return I.unary_fn(lambda r: (D.exp(r) + D.exp(-r)) / C(2), v)
        if fname == 'abs':
            def ab(r):
                if r.is_const() or r.iszero():
                    return C(abs(r.const_value())) if not r.iszero() else r
                if I.order is not None:
                    pos = I.order(r, '>=', C(0))
                    if pos is not None:
                        return r if pos else -r
                raise Unsupported('absolute value of a symbolic number of unknown sign', n)
            return I.unary_fn(ab, v)
        if fname == 'tanh':
            return I.unary_fn(lambda r: (D.exp(r) - D.exp(-r)) / (D.exp(r) + D.exp(-r)), v)
        raise Unsupported(fname, n)
    return h


def _np_sum(I, fr, args, kwargs, n):
    v = _arg(args, kwargs, 0, 'a')
    axis = _arg(args, kwargs, 1, 'axis', None)
    if axis is None:
        return I.np_sum(v)
    if not (isinstance(axis, Rat) and axis.is_const() and axis.const_value() in (0, 1, -1)):
        raise Unsupported('np.sum along axis %r' % (axis,), n)
    ax = int(axis.const_value())
    if isinstance(v, ListV) and v.items and ax == 0 and all(isinstance(r_, Elem) for r_ in v.items):
        # a list of vectors of one (unknown) length summed along the first axis: element by element
        tot = v.items[0]
        for r_ in v.items[1:]:
            tot = I.binop('+', tot, r_)
        return tot
    if not (isinstance(v, ListV) and v.items and all(isinstance(r_, ListV) and len(r_) == len(v.items[0]) and
                                                     not any(isinstance(x, ListV) for x in r_.items)
                                                     for r_ in v.items)):
        if isinstance(v, ListV) and ax in (0, -1) and not any(isinstance(x, ListV) for x in v.items):
            return I.np_sum(v)
        raise Unsupported('np.sum along an axis of something that is not a table of numbers', n)
    rows = [list(r_.items) for r_ in v.items]
    lines = rows if ax in (1, -1) else [list(c_) for c_ in zip(*rows)]
    out = ListV([I.np_sum(ListV(l_)) for l_ in lines])
    out.is_array = True
    return out


def _np_sort(I, fr, args, kwargs, n):
    v = _arg(args, kwargs, 0, 'a')
    if isinstance(v, ListV) and all(isinstance(x, Rat) for x in v.items):
        out = builtin_call(I, fr, 'sorted', [v], {}, n)
        out.is_array = True
        return out
    raise Unsupported('np.sort of %r' % (v,), n)


def _np_prod(I, fr, args, kwargs, n):
    v = _arg(args, kwargs, 0, 'a')
    if isinstance(v, ListV) and any(isinstance(x, Elem) for x in v.items):
        # np.prod without an axis reduces over every axis: the product over the entries of the element-wise product
        tot = None
        for x in v.items:
            tot = x if tot is None else I.binop('*', tot, x)
        v = tot if isinstance(tot, Elem) else Elem(tot)
    if isinstance(v, ListV):
        tot = C(1)
        for x in v.items:
            tot = I.binop('*', tot, x)
        return tot
    if isinstance(v, Elem):
        r = I.num(v.r)
        name = 'PROD{%r}' % (r,)
        I.D.kind.setdefault(name, 'prod')
        I.D.arg.setdefault(name, r)
        I.D.positive.add(name)
        return Rat.atom(name)
    if isinstance(v, Rat):
        return v
    raise Unsupported('np.prod operand', n)


def _np_linspace(I, fr, args, kwargs, n):
    lo = _arg(args, kwargs, 0, 'start')
    hi = _arg(args, kwargs, 1, 'stop')
    num = _arg(args, kwargs, 2, 'num', None)
    return Elem(I.D.sym('linspace(%r,%r,%r)' % (lo, hi, num)))


def _isclass(I, fr, args, kwargs, n):
    return isinstance(args[0], ClassInfo)


# ---- reflection on callables (inspect.signature, __code__): the package routes keyword arguments by looking at the
#      signature of what it is about to call; that code is interpreted, the reflection it relies on is modelled here
PARAM_KINDS = {k_: Obj('inspect.Parameter.' + k_) for k_ in
               ('POSITIONAL_ONLY', 'POSITIONAL_OR_KEYWORD', 'VAR_POSITIONAL', 'KEYWORD_ONLY', 'VAR_KEYWORD')}


def _signature_of(I, fn, n=None):
    """[(name, kind)] as inspect.signature lists them (a bound method without its first parameter, a class through its
    __init__ without self) and the same for the code object ([positional names incl. self], all variable names)"""
    if isinstance(fn, ClassInfo):
        got = I.repo.find_method(fn, '__init__', missing_ok=True)
        if not got:
            return [], ['self'], ['self']
        a, bound = got[1].args, True
    elif isinstance(fn, FuncRef):
        a = fn.fn.args
        bound = fn.self_obj is not None and fn.closure is None
        if unknown_decorators(fn.fn) and not getattr(fn, 'raw', False):
            # what inspect / __code__ see is the object the decorators returned: the code object is the wrapper's;
            # inspect.signature follows __wrapped__ (set by functools.wraps) back to this def
            dec = I.decorated_value(fn.module, fn.fn, fn.owner)
            if not (isinstance(dec, FuncRef) and not isinstance(dec.fn, ast.Lambda)):
                raise Unsupported('signature of %s, whose decorator returns %r' % (fn.fn.name, dec), n)
            wraps = any(ast.unparse(d_.func if isinstance(d_, ast.Call) else d_).split('.')[-1] == 'wraps'
                        for d_ in dec.fn.decorator_list)
            wa = dec.fn.args

            def sides(a_, bound_):
                pos_ = [x.arg for x in a_.posonlyargs] + [x.arg for x in a_.args]
                sig_ = [(x.arg, 'POSITIONAL_ONLY') for x in a_.posonlyargs] + \
                    [(x.arg, 'POSITIONAL_OR_KEYWORD') for x in a_.args]
                if bound_ and sig_:
                    sig_ = sig_[1:]
                if a_.vararg is not None:
                    sig_.append((a_.vararg.arg, 'VAR_POSITIONAL'))
                sig_ += [(x.arg, 'KEYWORD_ONLY') for x in a_.kwonlyargs]
                if a_.kwarg is not None:
                    sig_.append((a_.kwarg.arg, 'VAR_KEYWORD'))
                var_ = pos_ + [x.arg for x in a_.kwonlyargs] + ([a_.vararg.arg] if a_.vararg else []) + \
                    ([a_.kwarg.arg] if a_.kwarg else [])
                return sig_, pos_, var_
            sig_w, pos_w, var_w = sides(wa, bound and bool(wa.posonlyargs or wa.args))
            if bound and not (wa.posonlyargs or wa.args) and wa.vararg is None:
                raise Unsupported('a bound method whose wrapper takes no positional argument', n)
            sig_o = sides(a, bound)[0]
            return (sig_o if wraps else sig_w), pos_w, var_w
    elif isinstance(fn, BoundOpaque):
        names = list(fn.obj.opaque_params.get(fn.name, ()))
        return [(x, 'POSITIONAL_OR_KEYWORD') for x in names], ['self'] + names, ['self'] + names
    else:
        raise Unsupported('signature of %r' % (fn,), n)
    pos = [x.arg for x in a.posonlyargs] + [x.arg for x in a.args]
    sig = [(x.arg, 'POSITIONAL_ONLY') for x in a.posonlyargs] + [(x.arg, 'POSITIONAL_OR_KEYWORD') for x in a.args]
    if bound and sig:
        sig = sig[1:]
    if a.vararg is not None:
        sig.append((a.vararg.arg, 'VAR_POSITIONAL'))
    sig += [(x.arg, 'KEYWORD_ONLY') for x in a.kwonlyargs]
    if a.kwarg is not None:
        sig.append((a.kwarg.arg, 'VAR_KEYWORD'))
    varnames = pos + [x.arg for x in a.kwonlyargs] + ([a.vararg.arg] if a.vararg else []) + \
        ([a.kwarg.arg] if a.kwarg else [])
    return sig, pos, varnames


def _inspect_signature(I, fr, args, kwargs, n):
    sig, _pos, _all = _signature_of(I, _arg(args, kwargs, 0, 'obj'), n)
    ps = DictV()
    for name, kind in sig:
        po = Obj('parameter:' + name, attrs=dict({'name': name, 'kind': PARAM_KINDS[kind]}, **PARAM_KINDS), closed=True)
        ps.d[name] = po
    return Obj('signature', attrs={'parameters': ps}, closed=True)


def _string_io(I, fr, args, kwargs, n):
    """io.StringIO([initial]): an in-memory text buffer - write() appends (and returns the number of characters when
    that is known), getvalue() is everything written; reading, seeking and truncating are outside the fragment"""
    if kwargs or len(args) > 1:
        raise Unsupported('io.StringIO with these arguments', n)
    o = Obj('StringIO', closed=True)
    o.refuse_unknown = True
    buf = [I.seg(args[0]) if args and args[0] is not None else SegStr()]
    if args and args[0] is not None and len(buf[0].segs):
        raise Unsupported('io.StringIO with an initial text (the write position starts at 0)', n)

    def write(I_, ob, a, k):
        if len(a) != 1 or k or not isinstance(a[0], (str, SegStr)):
            raise _RaisedExc(Raised('TypeError', n))
        if ob.attrs.get('__closed__'):
            raise _RaisedExc(Raised('ValueError', n))
        t_ = I_.seg(a[0])
        buf[0] = buf[0] + t_
        try:
            return C(len(t_))
        except Unsupported:
            return None

    def getvalue(I_, ob, a, k):
        if ob.attrs.get('__closed__'):
            raise _RaisedExc(Raised('ValueError', n))
        return I_.plain(buf[0])
    o.opaque_methods['write'] = write
    o.opaque_methods['getvalue'] = getvalue
    o.opaque_methods['close'] = lambda I_, ob, a, k: ob.attrs.__setitem__('__closed__', True)
    o.attrs['__mode__'] = 'w'           # a with-block closes it
    return o


def _pathlib_path(I, fr, args, kwargs, n):
    """pathlib.Path(name): modelled as far as naming a file goes - open(), str(), os.fspath, .name of a plain name"""
    if len(args) != 1 or kwargs:
        raise Unsupported('pathlib.Path of several parts', n)
    nm = args[0]
    if isinstance(nm, Obj) and '__fspath__' in nm.attrs:
        return nm
    if not isinstance(nm, (str, SegStr)):
        raise Unsupported('pathlib.Path(%r)' % (nm,), n)
    o = Obj('path:%s' % (nm,), closed=True)
    o.refuse_unknown = True
    o.isa.update({'Path', 'PurePath', 'PathLike'})
    o.attrs['__fspath__'] = nm

    def p_open(I_, ob, a, k):
        return builtin_call(I_, fr, 'open', [nm] + list(a), dict(k), n)
    o.opaque_methods['open'] = p_open
    o.opaque_methods['__str__'] = lambda I_, ob, a, k: nm
    o.opaque_methods['__fspath__'] = lambda I_, ob, a, k: nm
    o.opaque_methods['__format__'] = lambda I_, ob, a, k: I_.format_piece(nm, a[0] if a else '')
    if isinstance(nm, str) and nm not in I.sym_strings and '/' not in nm and '\\' not in nm:
        o.attrs['name'] = nm
    return o


def _getfullargspec(I, fr, args, kwargs, n):
    """inspect.getfullargspec(f): the names as the code object has them (a bound method keeps its first parameter, wrapper
    chains are not followed)"""
    fn = _arg(args, kwargs, 0, 'func')
    _sig, pos, _all = _signature_of(I, fn, n)
    a = None
    if isinstance(fn, FuncRef):
        a = fn.fn.args
        if unknown_decorators(fn.fn) and not getattr(fn, 'raw', False):
            dec = I.decorated_value(fn.module, fn.fn, fn.owner)
            a = dec.fn.args
    elif isinstance(fn, ClassInfo):
        got = I.repo.find_method(fn, '__init__', missing_ok=True)
        a = got[1].args if got else None
    r = Obj('FullArgSpec()', closed=True)
    names = ['args', 'varargs', 'varkw', 'defaults', 'kwonlyargs', 'kwonlydefaults', 'annotations']
    r.attrs['args'] = ListV(list(pos))
    r.attrs['varargs'] = a.vararg.arg if a is not None and a.vararg else None
    r.attrs['varkw'] = a.kwarg.arg if a is not None and a.kwarg else None
    r.attrs['kwonlyargs'] = ListV([x.arg for x in a.kwonlyargs] if a is not None else [])
    for nm in ('defaults', 'kwonlydefaults', 'annotations'):
        r.attrs[nm] = Obj('getfullargspec().%s (not modelled)' % nm, closed=True)
    r.attrs['__fields__'] = ListV(list(names))
    return r


def _dataclass_replace(I, fr, args, kwargs, n):
    """dataclasses.replace(obj, **changes): a new object of the same class from the fields of obj, overridden"""
    o = args[0] if args else None
    if not (isinstance(o, Obj) and o.ci is not None and len(args) == 1):
        raise Unsupported('dataclasses.replace of %r' % (o,), n)
    fields = []
    for k_ in reversed(o.ci.mro):
        for nm, _d in k_.ann_fields:
            if nm not in fields:
                fields.append(nm)
    if not fields:
        raise _RaisedExc(Raised('TypeError', n))                # not a dataclass instance
    for nm in kwargs:
        if nm not in fields:
            raise _RaisedExc(Raised('TypeError', n))
    kw = {nm: fr.obj_attr(o, nm, n) for nm in fields}
    kw.update(kwargs)
    return fr.apply(o.ci, [], kw, n)


def _np_interp(I, fr, args, kwargs, n):
    """np.interp(x, xp, fp): the piecewise-linear interpolant through (xp[i], fp[i]) for ascending xp, constant beyond
    the ends (fp[0] / fp[-1] unless left= / right= say otherwise); the piece is found through the ordering oracle"""
    x = _arg(args, kwargs, 0, 'x')
    xp = _arg(args, kwargs, 1, 'xp')
    fp = _arg(args, kwargs, 2, 'fp')
    if kwargs.get('period') is not None:
        raise Unsupported('np.interp(period=)', n)
    if not (isinstance(xp, ListV) and isinstance(fp, ListV) and xp.items and len(xp.items) == len(fp.items) and
            all(isinstance(v_, Rat) for v_ in xp.items + fp.items)):
        raise Unsupported('np.interp over %r / %r' % (xp, fp), n)
    left = kwargs.get('left') if kwargs.get('left') is not None else fp.items[0]
    right = kwargs.get('right') if kwargs.get('right') is not None else fp.items[-1]

    def one(xv):
        if not isinstance(xv, Rat):
            raise Unsupported('np.interp at %r' % (xv,), n)
        if I.truth(I.compare('<', xv, xp.items[0], n), n):
            return left
        if I.truth(I.compare('>', xv, xp.items[-1], n), n):
            return right
        for k_ in range(len(xp.items) - 1):
            if I.truth(I.compare('<=', xv, xp.items[k_ + 1], n), n):
                a_, b_ = xp.items[k_], xp.items[k_ + 1]
                return fp.items[k_] + (fp.items[k_ + 1] - fp.items[k_]) * (xv - a_) / (b_ - a_)
        return fp.items[-1]
    if isinstance(x, ListV):
        r = ListV([one(v_) for v_ in x.items])
        r.is_array = True
        return r
    return one(x)


def _np_repeat(I, fr, args, kwargs, n):
    """np.repeat(a, repeats): every entry repeated (a scalar count, or one count per entry)"""
    a = _arg(args, kwargs, 0, 'a')
    reps = _arg(args, kwargs, 1, 'repeats')
    if _arg(args, kwargs, 2, 'axis', None) is not None:
        raise Unsupported('np.repeat along an axis', n)
    items = list(a.items) if isinstance(a, ListV) else [a] if isinstance(a, Rat) else None
    if items is None or any(isinstance(x, ListV) for x in items):
        raise Unsupported('np.repeat of %r' % (a,), n)
    if isinstance(reps, ListV):
        if len(reps.items) != len(items):
            raise _RaisedExc(Raised('ValueError', n))           # operands could not be broadcast together
        counts = [_as_int(c_, n) for c_ in reps.items]
    else:
        counts = [_as_int(reps, n)] * len(items)
    if any(c_ < 0 for c_ in counts):
        raise _RaisedExc(Raised('ValueError', n))
    out = []
    for x, c_ in zip(items, counts):
        out.extend([x] * c_)
    r = ListV(out)
    r.is_array = True
    r.dtype = getattr(a, 'dtype', None)
    return r


def code_object(I, fn, n=None):
    _sig, pos, varnames = _signature_of(I, fn, n)
    names = ListV(list(varnames))
    names.frozen = True
    kwonly = len(fn.fn.args.kwonlyargs) if isinstance(fn, FuncRef) else 0
    return Obj('code', attrs={'co_argcount': C(len(pos)), 'co_varnames': names, 'co_kwonlyargcount': C(kwonly)},
               closed=True)


def _np_anyall(which):
    def h(I, fr, args, kwargs, n):
        v = _arg(args, kwargs, 0, 'a')
        if isinstance(v, ListV) and all(isinstance(x, bool) for x in v.items):
            return any(v.items) if which == 'any' else all(v.items)
        if isinstance(v, bool):
            return v
        if isinstance(v, Elem) and isinstance(v.r, bool):
            return v.r          # the same truth value for every element of a (non-empty) vector
        raise Unsupported('np.%s operand' % which, n)
    return h


class ReFlags:
    """a combination of re.IGNORECASE / VERBOSE / ... (kept as the integer the re module uses)"""

    def __init__(self, value):
        self.value = int(value)


def _re_generic(kind, pre_flags=0):
    """re.<kind>(pattern literal, abstract string): see absre"""
    def h(I, fr, args, kwargs, n):
        from . import absre
        pat = args[0] if args else kwargs.get('pattern')
        repl = None
        if kind == 'sub':
            repl = args[1] if len(args) > 1 else kwargs.get('repl')
            args = [args[0]] + list(args[2:])
            if not isinstance(repl, str) or repl in I.sym_strings or '\\' in repl:
                raise Unsupported('re.sub replacement is not a plain literal', n)
        s_ = args[1] if len(args) > 1 else kwargs.get('string')
        if not isinstance(pat, str) or pat in I.sym_strings:
            raise Unsupported('regular expression is not a literal', n)
        if not isinstance(s_, (str, SegStr)):
            raise _RaisedExc(Raised('TypeError', n))
        sb = I.seg(s_)
        flags = pre_flags
        maxsplit = 0
        fpos = 3 if kind in ('split', 'sub') else 2
        fl = args[fpos] if len(args) > fpos else kwargs.get('flags')
        if fl is not None:
            if isinstance(fl, ReFlags):
                flags |= fl.value
            elif isinstance(fl, Rat) and fl.iszero():
                pass
            else:
                raise Unsupported('regular expression flags %r' % (fl,), n)
        if kind in ('split', 'sub'):
            ms = args[2] if len(args) > 2 else kwargs.get('maxsplit' if kind == 'split' else 'count', C(0))
            maxsplit = _as_int(ms, n)
        try:
            res = absre.run(kind, pat, sb, I.num_policy, flags, maxsplit)
        except re.error:
            raise _RaisedExc(Raised('re.error', n))
        for fld, what, spelled in res.hazards:
            I.re_hazards.append((n, pat, fld, what, spelled))
        cuts = []

        def lift(a, b):
            if a < 0:
                return None             # group did not participate
            return I.plain(res.spelling.lift(a, b, cuts))

        def make_match(spans):
            groups = [lift(a, b) for a, b in spans]
            mo = Obj('match', closed=True)

            def gidx(x):
                if isinstance(x, str):
                    gi = re.compile(pat, flags).groupindex
                    if x not in gi:
                        raise _RaisedExc(Raised('IndexError', n))       # no such group
                    return gi[x]
                return _as_int(x, n)

            def group(I_, o, a, k):
                if not a:
                    return groups[0]
                if len(a) == 1:
                    return groups[gidx(a[0])]
                return ListV([groups[gidx(x)] for x in a])
            mo.opaque_methods['group'] = group
            mo.opaque_methods['groups'] = lambda I_, o, a, k: ListV(groups[1:])
            mo.opaque_methods['start'] = lambda I_, o, a, k: C(spans[_as_int(a[0], n) if a else 0][0])
            mo.opaque_methods['end'] = lambda I_, o, a, k: C(spans[_as_int(a[0], n) if a else 0][1])
            mo.opaque_methods['span'] = lambda I_, o, a, k: ListV([C(x) for x in
                                                                   spans[_as_int(a[0], n) if a else 0]])
            mo.pmv_getitem = lambda I_, fr_, idx, n_: group(I_, mo, [idx], {})        # match[g] is match.group(g)
            names_ = dict(re.compile(pat, flags).groupindex)
            mo.opaque_methods['groupdict'] = lambda I_, o, a, k: DictV(
                {nm_: (groups[ix_] if groups[ix_] is not None else (a[0] if a else k.get('default')))
                 for nm_, ix_ in names_.items()})
            return mo
        try:
            if kind == 'split':
                return ListV([lift(a, b) for _, a, b in res.spans])
            if kind == 'sub':
                out = SegStr()
                for k_, (_, a, b) in enumerate(res.spans):
                    if k_:
                        out = out + repl
                    out = out + res.spelling.lift(a, b, cuts)
                return I.plain(out)
            if kind == 'findall':
                out = []
                for it in res.spans:
                    if it[0] == 'match':
                        out.append(lift(it[1], it[2]))
                    elif len(it) == 2:
                        out.append(lift(*it[1]) or '')
                    else:
                        out.append(ListV([lift(a, b) or '' for a, b in it[1:]]))
                return ListV(out)
            if kind == 'finditer':
                return ListV([make_match(sp_) for sp_ in res.spans])
            if res.spans is None:
                return None
            return make_match(res.spans)
        finally:
            for fld, txt in cuts:
                I.cuts.append((n, 're.%s(%r) cuts the printed value %r into %r' % (kind, pat, fld, txt)))
    return h


class CounterV(DictV):
    """collections.Counter with symbolic totals (non-positive totals are NOT dropped here)"""


class DefaultDictV(DictV):
    """collections.defaultdict: a missing key is filled by the factory on first read"""
    factory = None


def _defaultdict(I, fr, args, kwargs, n):
    d_ = DefaultDictV()
    d_.factory = args[0] if args else None
    if len(args) > 1 and isinstance(args[1], DictV):
        d_.d.update(args[1].d)
        d_.keyobj.update(args[1].keyobj)
    d_.d.update(kwargs)
    return d_


def _counter(I, fr, args, kwargs, n):
    c_ = CounterV()
    if args:
        if not isinstance(args[0], DictV):
            raise Unsupported('Counter() of %r' % (args[0],), n)
        c_.d.update(args[0].d)
    return c_


def _consecutive_groups(I, fr, args, kwargs, n):
    """more_itertools.consecutive_groups: runs of values each exactly one more than its predecessor
    (in the order given)"""
    seq = args[0]
    if not isinstance(seq, ListV):
        raise Unsupported('consecutive_groups operand', n)
    groups = []
    for x in seq.items:
        if groups:
            d_ = I.num(x) - I.num(groups[-1][-1])
            if d_.is_const() or d_.iszero():
                if not d_.iszero() and d_.const_value() == 1:
                    groups[-1].append(x)
                    continue
            else:
                raise Unsupported('difference of symbolic integers is not a constant', n)
        groups.append([x])
    outer = ListV([])
    gl = []
    for g in groups:
        gv = ListV(g)
        gv.is_iterator = True           # every group is an iterator over ONE shared source
        gl.append(gv)
    outer.items = _SharedGroups(gl)
    outer.is_iterator = True            # and the groups come from a one-shot iterator
    return outer


class _SharedGroups(list):
    """the groups itertools.groupby-style iterators hand out share their source: asking for the next group (or running
    the outer iterator to its end) drops what is left of the group handed out before"""
    last = None

    def pop(self, k=-1):
        g = list.pop(self, k)
        if self.last is not None:
            self.last.items[:] = []
        self.last = g
        return g

    def __delitem__(self, k):
        gone = self[k] if isinstance(k, slice) else [self[k]]
        list.__delitem__(self, k)
        if self.last is not None:
            self.last.items[:] = []
        for g in gone[:-1]:
            g.items[:] = []
        self.last = gone[-1] if gone else self.last
        if not self and self.last is not None and len(gone) > 1:
            self.last.items[:] = []     # the outer iterator was run to its end in one go: nothing is left anywhere


class ArgV:
    """index of the extremum of a list of scalars that cannot be ordered: remembers the candidates"""

    def __init__(self, which, cands):
        self.which = which
        self.cands = list(cands)

    def __repr__(self):
        return 'ArgV(%s of %r)' % (self.which, self.cands)


def _arg_extremum(which):
    def h(I, fr, args, kwargs, n):
        v = _arg(args, kwargs, 0, 'a')
        axis = kwargs.get('axis', args[1] if len(args) > 1 else None)
        if not isinstance(v, ListV) or not v.items:
            raise Unsupported('arg-reduction operand', n)

        def one(items):
            try:
                best = 0
                for i in range(1, len(items)):
                    if I.compare('<' if which == 'min' else '>', items[i], items[best], n):
                        best = i
                return C(best)
            except Unsupported:
                return ArgV(which, items)
        if axis is None:
            if any(isinstance(x, ListV) for x in v.items):
                raise Unsupported('arg-reduction of a matrix without axis', n)
            return one(v.items)
        ax = _as_int(axis, n)
        if not all(isinstance(x, ListV) for x in v.items):
            raise Unsupported('axis given for a vector', n)
        if ax == 1:
            r = ListV([one(row.items) for row in v.items])
        elif ax == 0:
            def along0(rows):
                # reduce over the first axis, keeping every further axis
                if rows and all(isinstance(x, ListV) for x in rows[0].items):
                    out_ = ListV([along0([ListV(list(r_.items[k_].items)) if False else r_.items[k_] for r_ in rows])
                                  for k_ in range(len(rows[0].items))])
                    out_.is_array = True
                    return out_
                out_ = ListV([one(list(col)) for col in zip(*[row.items for row in rows])])
                out_.is_array = True
                return out_
            r = along0(list(v.items))
        else:
            raise Unsupported('axis %d' % ax, n)
        r.is_array = True
        return r
    return h


def nd_transpose(v, axes):
    """transpose of a nested ListV array"""
    def shape(x):
        sh = []
        while isinstance(x, ListV):
            sh.append(len(x))
            x = x.items[0] if x.items else None
        return sh

    def get(x, idx):
        for i in idx:
            x = x.items[i]
        return x
    sh = shape(v)
    if len(axes) != len(sh):
        raise Unsupported('transpose axes')
    new_sh = [sh[a] for a in axes]

    def build(prefix):
        d_ = len(prefix)
        if d_ == len(new_sh):
            old = [0] * len(sh)
            for k, a in enumerate(axes):
                old[a] = prefix[k]
            return get(v, old)
        r = ListV([build(prefix + [i]) for i in range(new_sh[d_])])
        r.is_array = True
        return r
    return build([])


def _nt_api(r, names, remake):
    """what every named tuple has besides its fields: _replace, _asdict, _fields (``remake``: {field: value} -> a
    new instance of the same type)"""
    def repl(I2, o2, a2, k2):
        if a2:
            raise _RaisedExc(Raised('TypeError'))
        if any(kk not in names for kk in k2):
            raise _RaisedExc(Raised('ValueError'))
        return remake(dict({nm: o2.attrs[nm] for nm in names}, **k2))
    r.opaque_methods['_replace'] = repl
    r.opaque_methods['_asdict'] = lambda I2, o2, a2, k2: DictV({nm: o2.attrs[nm] for nm in names})
    fl = ListV(list(names))
    fl.frozen = True
    r.attrs['_fields'] = fl


def _namedtuple(I, fr, args, kwargs, n):
    tname, fields = args[0], args[1]
    if isinstance(fields, str):
        fields = ListV(fields.replace(',', ' ').split())
    if not isinstance(fields, ListV) or not all(isinstance(f, str) for f in fields.items):
        raise Unsupported('namedtuple fields', n)
    names = list(fields.items)
    dfl = kwargs.get('defaults')
    if dfl is not None and not isinstance(dfl, ListV):
        raise Unsupported('namedtuple defaults', n)
    kwargs.get('module')
    # defaults belong to the rightmost fields
    defaults = dict(zip(names[len(names) - len(dfl.items):], dfl.items)) if dfl is not None else {}
    if dfl is not None and len(dfl.items) > len(names):
        raise _RaisedExc(Raised('TypeError', n))

    class NT:
        pass
    maker = Obj('namedtuple:%s' % tname)

    def make(I_, o, a, k):
        vals = list(a)
        r = Obj('%s()' % tname, closed=True)
        for nm, v in zip(names, vals):
            r.attrs[nm] = v
        if len(vals) > len(names):
            raise _RaisedExc(Raised('TypeError', n))
        for nm, v in k.items():
            if nm in r.attrs or nm not in names:
                raise _RaisedExc(Raised('TypeError', n))        # given twice / unknown field
            r.attrs[nm] = v
        for nm in names:
            if nm not in r.attrs and nm in defaults:
                r.attrs[nm] = defaults[nm]
        if set(r.attrs) != set(names):
            raise _RaisedExc(Raised('TypeError', n))
        r.attrs['__fields__'] = ListV(list(names))
        _nt_api(r, names, lambda vals2: make(I_, o, [], vals2))
        return r
    maker.opaque_methods['__call__'] = make
    fl_ = ListV(list(names))
    fl_.frozen = True
    maker.attrs['_fields'] = fl_
    return maker


def _itertools_repeat(I, fr, args, kwargs, n):
    return ListV([args[0]] * _as_int(args[1], n))


def _np_isclose(I, fr, args, kwargs, n):
    a, b = args[0], args[1]
    kwargs.get('rtol'), kwargs.get('atol')          # both tolerances are part of the model (read below when they matter)
    if isinstance(a, Rat) and isinstance(b, Rat):
        if a.eq(b):
            return True
        if (a - b).is_const():
            # |a - b| <= atol + rtol*|b| with numpy's defaults unless the call says otherwise
            rtol = args[2] if len(args) > 2 else kwargs.get('rtol', C(Fr(1, 10 ** 5)))
            atol = args[3] if len(args) > 3 else kwargs.get('atol', C(Fr(1, 10 ** 8)))
            if not (isinstance(rtol, Rat) and rtol.is_const() or rtol.iszero()) or \
                    not (isinstance(atol, Rat) and atol.is_const() or atol.iszero()):
                raise Unsupported('np.isclose with symbolic tolerances', n)
            val = lambda r: Fr(0) if r.iszero() else r.const_value()
            if not (b.is_const() or b.iszero()):
                # a constant difference at a magnitude that is not known: within atol it is close whatever the
                # magnitude; beyond atol the answer is exact for rtol == 0 and depends on |b| otherwise
                if abs(val(a - b)) <= val(atol):
                    return True
                if val(rtol) == 0:
                    return False
                if I.generic_point:
                    return False
                raise Unsupported('np.isclose: a difference of %s against rtol*|b| of unknown magnitude'
                                  % (float(abs(val(a - b))),), n)
            return abs(val(a - b)) <= val(atol) + val(rtol) * abs(val(b))
    raise Unsupported('np.isclose of symbolic values', n)


def _np_mean(I, fr, args, kwargs, n):
    v = _arg(args, kwargs, 0, 'a')
    if isinstance(v, ListV) and v.items:
        return I.binop('/', I.np_sum(v), C(len(v)))
    raise Unsupported('np.mean operand', n)


def _np_roots(I, fr, args, kwargs, n):
    co = _arg(args, kwargs, 0, 'p')
    if isinstance(co, Obj) and '__fields__' in co.attrs:
        co = ListV(fr.iter_items(co, n))            # a (named) tuple of coefficients
    if not isinstance(co, ListV):
        raise Unsupported('np.roots operand', n)
    name = 'ROOT#%d' % (len(I.roots) + 1)
    I.roots[name] = [I.num(x) for x in co.items]
    I.D.kind[name] = 'root'
    return Elem(Rat.atom(name))


class RealTest:
    """outcome of np.isreal on a root of a polynomial: true for the real roots - the analysis follows those, and a
    selection made with this test (a filter in a comprehension, a boolean mask) yields the real roots REAL{...}"""

    def __init__(self, atom, negated=False):
        self.atom = atom
        self.negated = negated      # `not np.isreal(x)`: true for the roots the analysis does not follow


def _root_atom(I, r):
    if isinstance(r, Rat) and r.is_monomial():
        at = list(r.atoms())
        if len(at) == 1 and at[0] in I.roots and r.eq(Rat.atom(at[0])):
            return at[0]
    return None


def _real_roots(I, atom):
    if atom.startswith('REAL{'):
        return atom
    name = 'REAL{%s}' % atom
    I.roots[name] = I.roots[atom]
    I.D.kind[name] = 'root'
    return name


def _denotes_real(atom):
    """an atom that stands for a real number although it is derived from the roots of a polynomial: a root selected
    with np.isreal, the real part of a root, an extremum of such numbers"""
    return atom.startswith(('REAL{', 'RE{', 'MAX{REAL{', 'MIN{REAL{', 'MAX{RE{', 'MIN{RE{'))


def _np_isreal(I, fr, args, kwargs, n):
    v = args[0]
    if isinstance(v, Rat):
        at = _root_atom(I, v)
        if at is not None:
            return True if _denotes_real(at) else RealTest(at)
        if not any(a_ in I.roots for a_ in v.atoms()):
            return True       # real quantities
    if isinstance(v, Elem) and isinstance(v.r, Rat):
        at = _root_atom(I, v.r)
        if at is not None:
            m_ = Elem(C(1))
            m_.mask_all = True          # a mask that keeps the real entries
            m_.real_of = at
            return m_
    raise Unsupported('np.isreal operand', n)


def _np_real(I, fr, args, kwargs, n):
    """real part: the identity on values known to be real; of a polynomial root that was not selected with np.isreal it
    is a different number (the real part of a complex-conjugate pair is no root)"""
    v = args[0]
    if isinstance(v, ListV) and not getattr(v, 'is_array', False) and len(v.items) == 1 and \
            isinstance(v.items[0], VecItem):
        v = _vec_norm(v)
    r = v.r if isinstance(v, Elem) else v
    at = _root_atom(I, r)
    if at is not None and not _denotes_real(at):
        name = 'RE{%s}' % at
        I.roots[name] = I.roots[at]
        I.D.kind[name] = 'root'
        return Elem(Rat.atom(name)) if isinstance(v, Elem) else Rat.atom(name)
    if isinstance(r, Rat) and at is None and any(a_ in I.roots and not _denotes_real(a_) for a_ in r.atoms()):
        raise Unsupported('real part of an expression in unfiltered polynomial roots', n)
    return v


SURELY_POSITIVE = ('T', 'kb', 'Na', 'h', 'pi')       # and every unit factor U<..>


def canonical_extremum(I, which, items):
    """uninterpreted extremum of a finite set of scalars, in a form that does not depend on how it was spelled:
    order-insensitive, duplicates merged, an extremum of the same kind among the arguments flattened
    (max(0, max(a, b)) = max(0, a, b)), and a factor that is certainly positive (temperature, physical constants, unit
    factors, the magnitude of the leading coefficient) pulled out: max(0, a R T, b R T) = R T max(0, a, b)"""
    tag = which.upper() + '{'
    flat = []
    for x in items:
        nm = None
        if x.is_monomial() and not x.is_const() and not x.iszero():
            (k_, c_), = x.n.t.items()
            if c_ == 1 and len(k_) == 1 and k_[0][1] == 1:
                nm = k_[0][0]
        if nm is not None and nm in I.extrema and nm.startswith(tag):
            flat.extend(I.extrema[nm])
        else:
            flat.append(x)
    nz = [x for x in flat if not x.iszero()]
    factor = C(1)
    if nz and all(not x.f for x in nz):
        monos = [dict(x.n.content()[1]) for x in nz]
        shared = set.intersection(*[set(m_) for m_ in monos])
        g = {}
        for a_ in shared:
            if a_ in SURELY_POSITIVE or a_.startswith('U<') or a_ in I.positive_syms or \
                    re.fullmatch(r'[TP]\d+', a_):                       # further temperatures / pressures of a rule
                e_ = min(m_[a_] for m_ in monos)
                if e_ != 0:
                    g[a_] = e_
        for a_, e_ in sorted(g.items()):
            factor = factor * Rat(Poly.atom(a_, e_))
        if g:
            flat = [x if x.iszero() else x / factor for x in flat]
            nz = [x for x in flat if not x.iszero()]
        # magnitude of the leading coefficient of the (spelling-independent) first entry
        def lead(x):
            return abs(x.n.t[min(x.n.t)])
        first = min(nz, key=lambda x: repr(x / C(lead(x))))
        c_ = lead(first)
        if c_ != 1:
            flat = [x if x.iszero() else x / C(c_) for x in flat]
            factor = factor * C(c_)
    uniq = {}
    for x in flat:
        uniq[repr(x)] = x
    if len(uniq) == 1:
        return factor * list(uniq.values())[0]
    name = '%s%s}' % (tag, ' | '.join(sorted(uniq)))
    I.extrema[name] = list(uniq.values())
    return factor * I.D.sym(name)


def _np_minmax(which):
    def h(I, fr, args, kwargs, n):
        v = _arg(args, kwargs, 0, 'a')
        if isinstance(v, ListV) and not getattr(v, 'is_array', False) and len(v.items) == 1 and \
                isinstance(v.items[0], VecItem):
            v = _vec_norm(v)                    # a list filled by append inside a loop over a vector
        initial = kwargs.get('initial')
        if isinstance(v, Elem) and isinstance(v.r, Rat) and v.r.is_monomial():
            at = list(v.r.atoms())
            if len(at) == 1 and at[0] in I.roots and v.r.eq(Rat.atom(at[0])):
                name = '%s{%s}' % (which.upper(), at[0])
                if initial is not None:
                    # the extremum of the entries and of the start value: another number than the extremum itself
                    name = '%s{%s | initial=%r}' % (which.upper(), at[0], initial)
                I.roots[name] = I.roots[at[0]]
                I.D.kind[name] = 'root'
                return Rat.atom(name)
        if initial is not None:
            raise Unsupported('np.%s(..., initial=...) of this operand' % which, n)
        if isinstance(v, ListV) and not v.items:
            raise _RaisedExc(Raised('ValueError', n))       # zero-size array to reduction operation
        if isinstance(v, ListV) and v.items:
            try:
                best = v.items[0]
                for x in v.items[1:]:
                    if I.compare('<' if which == 'min' else '>', x, best, n):
                        best = x
                return best
            except Unsupported:
                pass
            if all(isinstance(x, Rat) for x in v.items):
                return canonical_extremum(I, which, list(v.items))
        raise Unsupported('np.%s operand' % which, n)
    return h


def _np_argmax(I, fr, args, kwargs, n):
    """np.argmax of a boolean array: index of the first True, 0 when none"""
    v = _arg(args, kwargs, 0, 'a')
    if isinstance(v, ListV) and all(isinstance(x, bool) for x in v.items):
        for i, x in enumerate(v.items):
            if x:
                return C(i)
        return C(0)
    raise Unsupported('np.argmax operand', n)


def _np_argmax_any(I, fr, args, kwargs, n):
    v = _arg(args, kwargs, 0, 'a')
    if isinstance(v, ListV) and all(isinstance(x, bool) for x in v.items):
        return _np_argmax(I, fr, args, kwargs, n)
    return _arg_extremum('max')(I, fr, args, kwargs, n)


def _identity(I, fr, args, kwargs, n):
    return args[0] if args else _arg(args, kwargs, 0, 'a')


def _np_squeeze(I, fr, args, kwargs, n):
    v = _arg(args, kwargs, 0, 'a')
    while isinstance(v, ListV) and len(v) == 1:
        v = v.items[0]
    return v


def _np_size(I, fr, args, kwargs, n):
    a = args[0]
    ax = args[1] if len(args) > 1 else kwargs.get('axis')
    if not isinstance(a, ListV):
        raise Unsupported('np.size operand', n)
    if ax is None:
        tot = 1
        cur = a
        while isinstance(cur, ListV):
            tot *= len(cur)
            if not cur.items:
                break
            cur = cur.items[0]
        return C(tot)
    k = _as_int(ax, n)
    cur = a
    for _ in range(k):
        if not (isinstance(cur, ListV) and cur.items):
            raise Unsupported('np.size along an axis of an empty array', n)
        cur = cur.items[0]
    if not isinstance(cur, ListV):
        raise _RaisedExc(Raised('IndexError', n))
    return C(len(cur))


def _np_append(I, fr, args, kwargs, n):
    a, b = args[0], args[1]
    ax = args[2] if len(args) > 2 else kwargs.get('axis')
    if ax is not None and _as_int(ax, n) == 1 and isinstance(a, ListV) and isinstance(b, ListV):
        if len(a) != len(b) or not all(isinstance(x, ListV) for x in a.items + b.items):
            raise _RaisedExc(Raised('ValueError', n))
        r = ListV([])
        for ra, rb in zip(a.items, b.items):
            row = ListV(ra.items + rb.items)
            row.is_array = True
            r.items.append(row)
        r.is_array = True
        return r
    if isinstance(a, ListV) and isinstance(b, ListV):
        r = ListV(a.items + b.items)
        r.is_array = True
        return r
    raise Unsupported('np.append operands', n)


def _json_encoder_default(I, fr, args, kwargs, n):
    """json.JSONEncoder.default(self, o): the base implementation refuses every object"""
    raise _RaisedExc(Raised('TypeError', n))


def _np_hstack(I, fr, args, kwargs, n):
    """np.hstack: 1-D arrays are joined end to end, 2-D arrays side by side (along axis 1)"""
    if len(args) != 1 or kwargs:
        raise Unsupported('np.hstack arguments', n)
    seq = args[0]
    if not isinstance(seq, ListV) or not seq.items:
        raise Unsupported('np.hstack operand', n)
    if all(isinstance(x, ListV) and x.items and all(isinstance(r_, ListV) for r_ in x.items) for x in seq.items):
        rows = len(seq.items[0])
        if any(len(x) != rows for x in seq.items):
            raise _RaisedExc(Raised('ValueError', n))
        out = ListV([])
        for k_ in range(rows):
            row = ListV([y for x in seq.items for y in x.items[k_].items])
            row.is_array = True
            out.items.append(row)
        out.is_array = True
        return out
    return _np_concatenate(I, fr, args, kwargs, n)


def _np_concatenate(I, fr, args, kwargs, n):
    seq = args[0]
    axis = _arg(args, kwargs, 1, 'axis', C(0))
    if not (isinstance(axis, Rat) and (axis.iszero() or (axis.is_const() and axis.const_value() == 0))):
        if isinstance(axis, Rat) and axis.is_const() and axis.const_value() in (1, -1) and isinstance(seq, ListV) and \
                all(isinstance(x, ListV) and x.items and all(isinstance(r_, ListV) for r_ in x.items)
                    for x in seq.items):
            return _np_hstack(I, fr, [seq], {}, n)
        raise Unsupported('np.concatenate along axis %r' % (axis,), n)
    out = []
    if any(isinstance(x, Elem) for x in seq.items):
        return Elem(I.D.sym('concat(%s)' % ','.join(repr(x.r) if isinstance(x, Elem) else repr(x)
                                                      for x in seq.items)))
    for x in seq.items:
        if not isinstance(x, ListV):
            raise Unsupported('np.concatenate operand', n)
        out.extend(x.items)
    r = ListV(out)
    r.is_array = True
    return r


class CtxManager:
    """what a function decorated with contextlib.contextmanager returns when it is called: entering runs the function up
    to its yield (the value goes to the `as` name), leaving runs the rest - after the block, or in any case when the
    yield stands in a try ... finally"""

    def __init__(self, fv, args, kwargs):
        self.fv, self.args, self.kwargs = fv, args, kwargs


def _contextmanager(I, fr, args, kwargs, n):
    fv = args[0]
    if not (isinstance(fv, FuncRef) and not isinstance(fv.fn, ast.Lambda)):
        raise Unsupported('contextmanager of %r' % (fv,), n)
    return _stdlib.CallableV(lambda I_, fr_, a, k, n_: CtxManager(fv, list(a), dict(k)), 'contextmanager')


class CatchWarnings:
    """the context manager warnings.catch_warnings(): the filters set inside the block are undone at its end"""


def _category_name(v):
    if v is None:
        return 'UserWarning'
    if isinstance(v, Builtin):
        return v.name
    if isinstance(v, ExtRef):
        return v.alias[-1]
    if isinstance(v, str) and v not in ('',):
        return v
    raise Unsupported('warning category %r' % (v,))


def _add_filter(I, args, kwargs, n, simple):
    action = _arg(args, kwargs, 0, 'action')
    if simple:
        category, message, module = _arg(args, kwargs, 1, 'category', None), '', ''
    else:
        message = _arg(args, kwargs, 1, 'message', '')
        category = _arg(args, kwargs, 2, 'category', None)
        module = _arg(args, kwargs, 3, 'module', '')
    kwargs.get('lineno'), kwargs.get('append')
    if kwargs.get('append') not in (None, False):
        raise Unsupported('warnings filter appended at the end of the list', n)
    if not all(isinstance(x, str) and x not in I.sym_strings for x in (action, message, module)):
        raise Unsupported('warnings filter with symbolic arguments', n)
    I.warn_filters.insert(0, {'action': action, 'message': message, 'module': module,
                              'category': 'Warning' if category is None else _category_name(category)})
    return None


def _catch_warnings(I, fr, args, kwargs, n):
    if kwargs.get('record') not in (None, False):
        raise Unsupported('warnings.catch_warnings(record=True)', n)
    return CatchWarnings()


def _warn(I, fr, args, kwargs, n):
    """warnings.warn under the filters in force (set at module level anywhere in the package, or in an enclosing
    catch_warnings block): an ignored warning is not a signal to the caller"""
    msg = _arg(args, kwargs, 0, 'message', None)
    cat = _arg(args, kwargs, 1, 'category', None)
    kwargs.get('stacklevel')
    if isinstance(msg, Raised):
        catname = msg.exc if cat is None else _category_name(cat)
    else:
        catname = _category_name(cat)
    modname = fr.module.name if fr is not None else ''
    for flt in I.warn_filters:
        if not exc_matches(catname, [flt['category']]) and flt['category'] != 'Warning':
            continue
        if flt['module'] and not re.match(flt['module'], modname):
            continue
        if flt['message']:
            m_ = msg
            if isinstance(m_, Raised):
                m_ = m_.args[0] if m_.args else None
            literal_only = re.fullmatch(r'[\w ,;:()\-]*', flt['message']) is not None
            text = None
            if isinstance(m_, str) and m_ not in I.sym_strings:
                text = m_
                if '<formatted>' in text:
                    m_ = SegStr.lit(text.split('<formatted>')[0]) + SegStr.field('~formatted', 1, 'any')
            if isinstance(m_, SegStr) and m_.segs and m_.segs[0].kind == 'lit':
                text = m_.segs[0].text
                if not (literal_only and (len(text) >= len(flt['message']) or
                                          not flt['message'].lower().startswith(text.lower()))):
                    raise Unsupported('warnings filter on the text of a partly symbolic message', n)
            if text is None:
                # a message of unknown text: it is put together from the string constants of the package (or starts
                # with a text of the user); a filter on a literal text that stands in no string constant of the
                # package outside the filter calls cannot be about it
                if literal_only and I.filter_text_is_foreign(flt['message']):
                    continue
                raise Unsupported('warnings filter on the text of a message that has no abstract spelling', n)
            if not re.match(flt['message'], text, re.I):
                continue
        if flt['action'] == 'ignore':
            I.suppressed_warnings.append(n)
            return None
        if flt['action'] == 'error':
            raise _RaisedExc(Raised(catname, n))
        break
    I.warnings.append(n)
    return None


def _table_keys(I, fname):
    """keys of the single dict literal inside pmutt.constants.<fname>"""
    cache = I.__dict__.setdefault('_const_keys', {})
    if fname not in cache:
        m = I.repo.module('pmutt.constants')
        fn = m.functions.get(fname)
        keys = None
        if fn is not None:
            for nd in ast.walk(fn):
                if isinstance(nd, (ast.Assign, ast.AnnAssign)) and isinstance(nd.value, ast.Dict):
                    keys = {k.value for k in nd.value.keys if isinstance(k, ast.Constant)}
        if keys is None and fn is not None:
            # the table may be written at module level and only read by the function
            for nd in ast.walk(fn):
                if isinstance(nd, ast.Name) and isinstance(nd.ctx, ast.Load):
                    node = (m.assigns.get(nd.id) or [None])[-1]
                    if isinstance(node, ast.Dict) and node.keys and all(
                            isinstance(k, ast.Constant) and isinstance(k.value, str) for k in node.keys):
                        keys = {k.value for k in node.keys}
        if keys is None:
            raise AnchorError('table of pmutt.constants.%s not found' % fname)
        cache[fname] = keys
    return cache[fname]


def _c_R(I, fr, args, kwargs, n):
    u = _arg(args, kwargs, 0, 'units')
    kb, Na = I.D.sym('kb'), I.D.sym('Na')
    if isinstance(u, str):
        if u not in _table_keys(I, 'R'):
            raise _RaisedExc(Raised('KeyError', n))
        parts = u.split('/')
        f = I.unit(parts[0])
        for p in parts[1:]:
            if p not in ('mol', 'K'):
                raise Unsupported('unit of R: %s' % u, n)
        r = kb * f
        if 'mol' in parts[1:]:
            r = r * Na
        return r
    if isinstance(u, Rat) and u.is_monomial():
        return I.D.sym('R[%r]' % (u,))
    raise Unsupported('units argument of c.R', n)


def _c_kb(I, fr, args, kwargs, n):
    u = _arg(args, kwargs, 0, 'units')
    if not isinstance(u, str) or not u.endswith('/K'):
        raise Unsupported('units argument of c.kb', n)
    return I.D.sym('kb') * I.unit(u[:-2])


def _c_h(I, fr, args, kwargs, n):
    u = _arg(args, kwargs, 0, 'units')
    bar = _arg(args, kwargs, 1, 'bar', False)
    if not isinstance(u, str) or not u.endswith(' s'):
        raise Unsupported('units argument of c.h', n)
    r = I.D.sym('h') * I.unit(u[:-2])
    if I.truth(bar, n):
        r = r / (C(2) * I.D.sym('pi'))
    return r


def _c_c(I, fr, args, kwargs, n):
    u = _arg(args, kwargs, 0, 'units')
    if not isinstance(u, str) or not u.endswith('/s'):
        raise Unsupported('units argument of c.c', n)
    return I.D.sym('c0') * I.unit(u[:-2])


TEMP_UNITS = ('K', 'C', 'F', 'R')


def _c_convert(I, fr, args, kwargs, n):
    num = _arg(args, kwargs, 0, 'num', None)
    ini = _arg(args, kwargs, 1, 'initial')
    fin = _arg(args, kwargs, 2, 'final')
    if not isinstance(ini, str) or not isinstance(fin, str):
        raise Unsupported('symbolic unit in convert_unit', n)
    if ini in TEMP_UNITS or fin in TEMP_UNITS:
        if ini == fin:
            return num if num is not None else C(0)
        raise Unsupported('temperature conversion inside a numeric getter', n)
    # same refusal rules as the real function (type_dict): unknown unit or different quantity type
    m = I.repo.module('pmutt.constants')
    td = m.assigns.get('type_dict', [None])[-1]
    if isinstance(td, ast.Dict):
        types = {k.value: v.value for k, v in zip(td.keys, td.values)
                 if isinstance(k, ast.Constant) and isinstance(v, ast.Constant)}
        if ini not in types or fin not in types or types[ini] != types[fin]:
            raise _RaisedExc(Raised('ValueError', n))
    f = I.unit(fin) / I.unit(ini)
    if num is None:
        return f
    return I.binop('*', num, f)


def _c_P0(I, fr, args, kwargs, n):
    u = _arg(args, kwargs, 0, 'units')
    return _c_convert(I, fr, [C(1), 'bar', u], {}, n)


def _c_T0(I, fr, args, kwargs, n):
    u = _arg(args, kwargs, 0, 'units')
    if u != 'K':
        raise Unsupported('T0 in non-kelvin unit', n)
    return C(Fr('298.15'))


def expected_params(I, fn):
    """(names, accepts **kwargs) of a callable abstract value"""
    if isinstance(fn, FuncRef):
        names, _, _, kwarg = params(fn.fn)
        if fn.self_obj is None and fn.owner is not None and not any(
                ast.unparse(d) in ('staticmethod', 'classmethod') for d in fn.fn.decorator_list):
            pass
        return names, kwarg is not None
    if isinstance(fn, BoundOpaque):
        return list(fn.obj.opaque_params.get(fn.name, ())), False
    if isinstance(fn, ClassInfo):
        got = I.repo.find_method(fn, '__init__', missing_ok=True)
        if got:
            names, _, _, kwarg = params(got[1])
            return names, kwarg is not None
        return [], False
    raise Unsupported('expected arguments of %r' % (fn,))


def _pass_expected(I, fr, args, kwargs, n):
    fn = args[0] if args else kwargs.pop('fn')
    names, _ = expected_params(I, fn)
    sel = {k: v for k, v in kwargs.items() if k in names and k != 'self'}
    return fr.apply(fn, [], sel, n)


def _force_pass(I, fr, args, kwargs, n):
    fn = args[0] if args else kwargs.pop('fn')
    names, has_kw = expected_params(I, fn)
    if has_kw:
        return fr.apply(fn, [], dict(kwargs), n)
    sel = {k: v for k, v in kwargs.items() if k in names and k != 'self'}
    return fr.apply(fn, [], sel, n)


def _copy_value(I, v, deep, memo, n):
    """copy.copy / copy.deepcopy of an abstract value: containers and objects are NEW objects (a change of the copy does
    not reach the original); numbers, texts, None, functions and classes are immutable and stay"""
    import copy as _cp
    if id(v) in memo:
        return memo[id(v)]

    def sub(x):
        return _copy_value(I, x, True, memo, n) if deep else x
    if isinstance(v, DictV):
        r = _cp.copy(v)
        memo[id(v)] = r
        r.d = {k_: sub(x_) for k_, x_ in v.d.items()}
        r.keyobj = dict(v.keyobj)
        return r
    if isinstance(v, ListV):
        r = _cp.copy(v)
        memo[id(v)] = r
        r.items = [sub(x_) for x_ in v.items]
        for a_ in ('reshape_of', 'reshape_root', 'view_of'):
            if hasattr(r, a_):
                delattr(r, a_)
        return r
    if isinstance(v, Elem) and type(v) is Elem:
        r = Elem(v.r)
        memo[id(v)] = r
        return r
    if isinstance(v, Obj):
        if v.ci is not None and (I.repo.find_method(v.ci, '__copy__', missing_ok=True) or
                                 I.repo.find_method(v.ci, '__deepcopy__', missing_ok=True)):
            raise Unsupported('copy of an object whose class defines __copy__ / __deepcopy__', n)
        r = _cp.copy(v)
        memo[id(v)] = r
        r.attrs = {k_: sub(x_) for k_, x_ in v.attrs.items()}
        r.missing = set(v.missing)
        r.isa = set(v.isa)
        r.writes = list(v.writes)
        r.opaque_methods = dict(v.opaque_methods)
        r.opaque_params = dict(v.opaque_params)
        r.vec_attrs = set(v.vec_attrs)
        return r
    return v


def _copy(I, fr, args, kwargs, n):
    return _copy_value(I, args[0], False, {}, n)


def _deepcopy(I, fr, args, kwargs, n):
    kwargs.get('memo')
    return _copy_value(I, args[0], True, {}, n)


def _np_atleast_1d(I, fr, args, kwargs, n):
    v = args[0]
    if isinstance(v, (ListV, Elem)):
        return v
    r = ListV([v])
    r.is_array = True
    return r


def _np_full_like(I, fr, args, kwargs, n):
    a = _arg(args, kwargs, 0, 'a')
    fill = _arg(args, kwargs, 1, 'fill_value')
    dt = _arg(args, kwargs, 2, 'dtype', None)
    if isinstance(a, ListV):
        r = ListV([fill for _ in a.items])
        r.is_array = True
        # element type: the one asked for, else that of the prototype (a caller's container may hold integers)
        tag = _dtype_tag(dt)
        r.dtype = tag if tag is not None else getattr(a, 'dtype', 'caller')
        fr.int_store(r, [fill], n)          # the fill value is cast to the element type of the result
        return r
    if isinstance(a, Elem):
        return Elem(fill)
    raise Unsupported('np.full_like operand', n)


def _np_searchsorted(I, fr, args, kwargs, n):
    """index at which v would be inserted into the (ascending) sequence: number of entries < v (side='left',
    default) or <= v (side='right'); comparisons are answered by the ordering oracle"""
    a = _arg(args, kwargs, 0, 'a')
    v = _arg(args, kwargs, 1, 'v')
    side = _arg(args, kwargs, 2, 'side', 'left')
    if not isinstance(a, ListV) or not isinstance(v, Rat):
        raise Unsupported('np.searchsorted operands', n)
    op = '<' if side == 'left' else '<='
    k = 0
    for x in a.items:
        if I.compare(op, x, v, n):
            k += 1
        else:
            break
    return C(k)


def _bisect(side, insert=False):
    """bisect.bisect_left / bisect_right (= bisect) / insort_*: the insertion point in an ascending list, decided by
    the ordering oracle entry by entry (lo / hi / key are not modelled)"""
    def h(I, fr, args, kwargs, n):
        if len(args) != 2 or kwargs:
            raise Unsupported('bisect with lo / hi / key', n)
        a, x = args
        if not (isinstance(a, ListV) and not getattr(a, 'is_array', False) and isinstance(x, Rat)):
            raise Unsupported('bisect operands', n)
        k = int(_np_searchsorted(I, fr, [a, x, side], {}, n).const_value()) if a.items else 0
        if insert:
            a.items.insert(k, x)
            return None
        return C(k)
    return h


def _operator(op):
    def h(I, fr, args, kwargs, n):
        if len(args) != 2:
            raise Unsupported('operator with %d arguments' % len(args), n)
        return I.binop(op, args[0], args[1])
    return h


def _operator_neg(I, fr, args, kwargs, n):
    return I.neg(args[0])


def _functools_reduce(I, fr, args, kwargs, n):
    f_, seq = args[0], args[1]
    items = fr.iter_items(_vec_norm(seq) if not isinstance(seq, Elem) else seq, n) if not isinstance(seq, Elem) \
        else None
    if items is None:
        raise Unsupported('reduce over a vector of unknown length', n)
    if len(args) > 2:
        acc = args[2]
    elif items:
        acc, items = items[0], items[1:]
    else:
        raise _RaisedExc(Raised('TypeError', n))
    for x in items:
        acc = fr.apply(f_, [acc, x], {}, n)
    return acc


def _itertools_product(I, fr, args, kwargs, n):
    import itertools as _it
    seqs = [fr.iter_items(a, n) for a in args]
    return ListV([ListV(list(t)) for t in _it.product(*seqs)])


def _itertools_comb(which):
    def h(I, fr, args, kwargs, n):
        import itertools as _it
        seq = fr.iter_items(args[0], n)
        r = _as_int(_arg(args, kwargs, 1, 'r'), n) if (len(args) > 1 or 'r' in kwargs) else None
        f = getattr(_it, which)
        return ListV([ListV(list(t)) for t in (f(seq, r) if r is not None else f(seq))])
    return h


def _itertools_chain(I, fr, args, kwargs, n):
    out = []
    for a in args:
        out.extend(fr.iter_items(a, n))
    return ListV(out)


def _re_compile(I, fr, args, kwargs, n):
    pat = args[0]
    if not isinstance(pat, str) or pat in I.sym_strings:
        raise Unsupported('regular expression is not a literal', n)
    fl = args[1] if len(args) > 1 else kwargs.get('flags')
    cflags = 0
    if isinstance(fl, ReFlags):
        cflags = fl.value
    elif fl is not None and not (isinstance(fl, Rat) and fl.iszero()):
        raise Unsupported('regular expression flags %r' % (fl,), n)
    o = Obj('pattern', closed=True)
    o.attrs['pattern'] = pat
    for kind in ('search', 'match', 'fullmatch', 'findall', 'finditer', 'split', 'sub'):
        def meth(I_, ob, a, k, kind=kind):
            if k.get('flags') is not None:
                raise Unsupported('flags given to a method of a compiled pattern', n)
            return _re_generic(kind, cflags)(I_, fr, [pat] + list(a), k, n)
        o.opaque_methods[kind] = meth
    return o


def _np_flatnonzero(I, fr, args, kwargs, n):
    v = args[0]
    if isinstance(v, ListV) and all(isinstance(x, bool) for x in v.items):
        r = ListV([C(i) for i, x in enumerate(v.items) if x])
        r.is_array = True
        return r
    raise Unsupported('np.flatnonzero operand', n)


def _nx_graph(I):
    """networkx graph as a plain container: nodes {key: attribute dict}, edges [(u, v)]"""
    I.n_objects += 1
    g = Obj('graph#%d' % I.n_objects, closed=True)
    nodes = DictV()
    edges = ListV([])
    g.attrs['nodes'] = nodes
    g.attrs['edges'] = edges

    def add_node(I_, obj, args, kwargs):
        k = nodes.nkey(args[0] if args else kwargs.pop('node_for_adding'))
        cur = nodes.d.get(k)
        if not isinstance(cur, DictV):
            cur = DictV()
            nodes.d[k] = cur
        cur.d.update(kwargs)
        return None

    def add_edge(I_, obj, args, kwargs):
        for x in args[:2]:
            k = nodes.nkey(x)
            if k not in nodes.d:
                nodes.d[k] = DictV()
        edges.items.append(ListV(list(args[:2])))
        return None
    g.opaque_methods['add_node'] = add_node
    g.opaque_methods['add_edge'] = add_edge
    return g


def _np_where(I, fr, args, kwargs, n):
    if len(args) == 1 and not kwargs and isinstance(args[0], ListV) and \
            all(isinstance(x, bool) for x in args[0].items):
        idx = ListV([C(i) for i, x in enumerate(args[0].items) if x])
        idx.is_array = True
        idx.dtype = 'int'
        return ListV([idx])
    raise Unsupported('np.where form', n)


def _np_full(I, fr, args, kwargs, n):
    shape = _arg(args, kwargs, 0, 'shape')
    fill = _arg(args, kwargs, 1, 'fill_value')
    tag = _dtype_tag(_arg(args, kwargs, 2, 'dtype', None))
    if tag is None and isinstance(n, ast.Call):
        # without dtype the element type is that of the fill value: an integer literal gives an integer array
        fnode = n.args[1] if len(n.args) > 1 else next((k_.value for k_ in n.keywords if k_.arg == 'fill_value'), None)
        if isinstance(fnode, ast.Constant) and isinstance(fnode.value, int) and not isinstance(fnode.value, bool):
            tag = 'int'
    if isinstance(shape, Rat) and shape.is_const():
        r = ListV([fill] * _as_int(shape, n))
        r.is_array = True
        if tag is not None:
            r.dtype = tag
        return r
    if isinstance(shape, Rat):
        return Elem(fill)           # a vector of symbolic length, every entry the same value
    raise Unsupported('np.full shape', n)


def _quad(I, fr, args, kwargs, n):
    fn = _arg(args, kwargs, 0, 'func')
    lo = _arg(args, kwargs, 1, 'a')
    hi = _arg(args, kwargs, 2, 'b')
    if not (isinstance(lo, Rat) and lo.is_const()):
        raise Unsupported('integral with symbolic lower limit', n)
    if not isinstance(fn, FuncRef):
        raise Unsupported('integrand is not a resolvable function', n)
    at_hi = fr.apply(fn, [hi], {}, n)
    name = 'INT<%s from %s>{%r}' % (fn.fn.name, lo.const_value(), hi)
    I.D.kind.setdefault(name, 'int')
    I.D.arg.setdefault(name, hi)
    I.D.integrand[name] = at_hi
    I.integrals[name] = (fn, lo, hi)
    return ListV([Rat.atom(name), C(0)])


def _is_iterable(I, fr, args, kwargs, n):
    v = _arg(args, kwargs, 0, 'val')
    if isinstance(v, (ListV, Elem, DictV)):
        return True
    if isinstance(v, (Rat, SumV, str)) or v is None or isinstance(v, bool):
        return False
    raise Unsupported('_is_iterable of %r' % (v,), n)


NATIVE = {
    'numpy.array': _np_array_copy,
    'numpy.asarray': _np_asarray,
    'numpy.asanyarray': _np_asarray,
    'numpy.squeeze': _np_squeeze,
    'numpy.float64': _identity, 'numpy.double': _identity, 'numpy.float_': _identity,
    'numpy.ones_like': _np_like(1),
    'numpy.zeros_like': _np_like(0),
    'numpy.zeros': _np_zeros(0),
    'numpy.ones': _np_zeros(1),
    'numpy.empty': _np_empty,
    'json.JSONEncoder.default': _json_encoder_default,
    'logging.getLogger': _get_logger,
    'logging.debug': _log_call, 'logging.info': _log_call, 'logging.warning': _log_call, 'logging.error': _log_call,
    'logging.basicConfig': _log_call,
    'numpy.dot': _np_dot,
    'numpy.log': _np_unary('log'),
    'numpy.exp': _np_unary('exp'),
    'numpy.sqrt': _np_unary('sqrt'),
    'numpy.cbrt': lambda I, fr, args, kwargs, n: I.unary_fn(lambda r: I.D.powq(r, Fr(1, 3)), _arg(args, kwargs, 0, 'x')),
    'math.sqrt': _np_unary('sqrt'), 'math.exp': _np_unary('exp'),
    'math.log': lambda I, fr, args, kwargs, n: _math_log(I, fr, args, kwargs, n),
    'math.pow': lambda I, fr, args, kwargs, n: _math_pow(I, fr, args, kwargs, n),
    'numpy.abs': _np_unary('abs'), 'numpy.absolute': _np_unary('abs'), 'numpy.fabs': _np_unary('abs'),
    'numpy.sinh': _np_unary('sinh'),
    'numpy.cosh': _np_unary('cosh'),
    'numpy.tanh': _np_unary('tanh'),
    'numpy.sum': _np_sum,
    'numpy.sort': _np_sort,
    'numpy.prod': _np_prod,
    'numpy.append': _np_append,
    'numpy.size': _np_size,
    'numpy.argmax': _np_argmax_any,
    'numpy.roots': _np_roots,
    'numpy.mean': _np_mean,
    'numpy.isclose': _np_isclose,
    'collections.namedtuple': _namedtuple,
    'io.StringIO': _string_io, 'pathlib.Path': _pathlib_path, 'os.fspath': lambda I, fr, args, kwargs, n: (
        args[0].attrs['__fspath__'] if isinstance(args[0], Obj) and '__fspath__' in args[0].attrs else args[0]),
    'inspect.getfullargspec': _getfullargspec, 'dataclasses.replace': _dataclass_replace, 'numpy.repeat': _np_repeat, 'numpy.interp': _np_interp,
    'itertools.repeat': _itertools_repeat,
    'numpy.argmin': _arg_extremum('min'),
    'numpy.nanargmin': _arg_extremum('min'),
    'numpy.nanargmax': _arg_extremum('max'),
    'more_itertools.consecutive_groups': _consecutive_groups,
    're.search': _re_generic('search'),
    're.match': _re_generic('match'),
    're.fullmatch': _re_generic('fullmatch'),
    're.findall': _re_generic('findall'),
    're.split': _re_generic('split'),
    're.sub': _re_generic('sub'),
    're.finditer': _re_generic('finditer'),
    'collections.Counter': _counter,
    'collections.defaultdict': _defaultdict,
    'numpy.any': _np_anyall('any'),
    'numpy.all': _np_anyall('all'),
    'numpy.linspace': _np_linspace,
    'inspect.isclass': _isclass,
    'numpy.isreal': _np_isreal,
    'numpy.real': _np_real,
    'numpy.min': _np_minmax('min'),
    'numpy.max': _np_minmax('max'),
    'numpy.concatenate': _np_concatenate,
    'warnings.warn': _warn,
    'warnings.catch_warnings': _catch_warnings,
    'contextlib.contextmanager': _contextmanager,
    'warnings.simplefilter': lambda I, fr, args, kwargs, n: _add_filter(I, args, kwargs, n, True),
    'warnings.filterwarnings': lambda I, fr, args, kwargs, n: _add_filter(I, args, kwargs, n, False),
    'numpy.errstate': lambda I, fr, args, kwargs, n: None,
    'contextlib.nullcontext': lambda I, fr, args, kwargs, n: (args[0] if args else None),
    'pmutt.constants.R': _c_R,
    'pmutt.constants.kb': _c_kb,
    'pmutt.constants.h': _c_h,
    'pmutt.constants.c': _c_c,
    'pmutt.constants.convert_unit': _c_convert,
    'pmutt.constants.P0': _c_P0,
    'pmutt.constants.T0': _c_T0,
    'inspect.signature': _inspect_signature,
    'copy.copy': _copy,
    'copy.deepcopy': _deepcopy,
    'numpy.atleast_1d': _np_atleast_1d,
    'numpy.full_like': _np_full_like,
    'numpy.full': _np_full,
    'numpy.negative': _operator_neg,
    'numpy.flatnonzero': _np_flatnonzero,
    'numpy.where': _np_where, 'numpy.nonzero': _np_where,
    'operator.add': _operator('+'), 'operator.sub': _operator('-'), 'operator.mul': _operator('*'),
    'operator.truediv': _operator('/'), 'operator.pow': _operator('**'), 'operator.neg': _operator_neg,
    'functools.reduce': _functools_reduce,
    'itertools.product': _itertools_product,
    'itertools.chain': _itertools_chain,
    'itertools.combinations': _itertools_comb('combinations'),
    'itertools.permutations': _itertools_comb('permutations'),
    'itertools.combinations_with_replacement': _itertools_comb('combinations_with_replacement'),
    're.compile': _re_compile,
    'numpy.searchsorted': _np_searchsorted,
    'bisect.bisect_left': _bisect('left'), 'bisect.bisect_right': _bisect('right'), 'bisect.bisect': _bisect('right'),
    'bisect.insort_left': _bisect('left', True), 'bisect.insort_right': _bisect('right', True),
    'bisect.insort': _bisect('right', True),
    'scipy.integrate.quad': _quad,
    'networkx.Graph': lambda I, fr, args, kwargs, n: _nx_graph(I), 'networkx.DiGraph': lambda I, fr, args, kwargs, n: _nx_graph(I),
    # wall-clock text in file headers: a fixed-form stamp whose content no rule depends on
    'datetime.datetime.now': lambda I, fr, args, kwargs, n: clock_object('datetime.datetime'),
    'datetime.datetime.today': lambda I, fr, args, kwargs, n: clock_object('datetime.datetime'),
    'datetime.datetime.utcnow': lambda I, fr, args, kwargs, n: clock_object('datetime.datetime'),
    'datetime.date.today': lambda I, fr, args, kwargs, n: clock_object('datetime.date'),
    'time.time': lambda I, fr, args, kwargs, n: I.D.sym('wallclock'),
    'time.strftime': lambda I, fr, args, kwargs, n: '2000-01-01 00:00:00',
}

GLOBAL_ATTRS = {
    'inspect.Parameter': lambda I: Obj('inspect.Parameter', attrs=dict(PARAM_KINDS), closed=True),
    'numbers.Number': lambda I: Builtin('Number'),
    'numbers.Real': lambda I: Builtin('Number'),
    'numpy.pi': lambda I: I.D.sym('pi'),
    **{'re.' + nm_: (lambda I, v_=int(getattr(re, nm_)): ReFlags(v_))
       for nm_ in ('IGNORECASE', 'I', 'VERBOSE', 'X', 'MULTILINE', 'M', 'DOTALL', 'S', 'ASCII', 'A')},
    'numpy.inf': lambda I: I.D.sym('INF'),
    'numpy.double': lambda I: 'np.double',
    # abstract numpy scalar types: not the builtins (np.int64 is an np.integer and no int, a Python float no np.floating)
    'numpy.integer': lambda I: Builtin('numpy.integer'), 'numpy.floating': lambda I: Builtin('numpy.floating'),
    'numpy.number': lambda I: Builtin('numpy.number'), 'numpy.generic': lambda I: Builtin('numpy.generic'),
    'numpy.float32': lambda I: 'np.float32', 'numpy.float16': lambda I: 'np.float16',
    'numpy.single': lambda I: 'np.single', 'numpy.half': lambda I: 'np.half',
    'numpy.ndarray': lambda I: Builtin('ndarray'),
    'numpy.float64': lambda I: 'np.float64',
    'numpy.float_': lambda I: 'np.float_',
    'numpy.int64': lambda I: 'np.int64',
    'numpy.int32': lambda I: 'np.int32',
    'numpy.int_': lambda I: 'np.int_',
    'numpy.intp': lambda I: 'np.intp',
    'numpy.bool_': lambda I: 'np.bool_',
    'pmutt.constants.Na': lambda I: I.D.sym('Na'),
}


class RankOrder:
    """ordering oracle: atoms (and rational constants) are compared through an
    assumed assignment of ranks; anything else stays undecided."""

    def __init__(self, ranks, const_ranks=False, fallback=None, witness=False):
        self.ranks = ranks if isinstance(ranks, dict) else dict(ranks)     # shared: callers may add ranks later
        self.const_ranks = const_ranks
        self.fallback = fallback      # callable(atom name) -> rank | None for atoms created during interpretation
        self.witness = witness        # True: the ranks are a witness point; polynomials of ranked atoms are evaluated

    def rank(self, r):
        if r.is_const() or r.iszero():
            if self.const_ranks:
                return r.const_value() if not r.iszero() else Fr(0)
            return None
        if r.is_monomial():
            (k, v), = r.n.t.items()
            if v == 1 and len(k) == 1 and k[0][1] == 1:
                got = self.ranks.get(k[0][0])
                if got is None and self.fallback is not None:
                    got = self.fallback(k[0][0])
                return got
        if self.witness and not r.has_den():
            tot = Fr(0)
            for k, v in r.n.t.items():
                term = Fr(v)
                for a_, e_ in k:
                    ra = self.ranks.get(a_)
                    if ra is None and self.fallback is not None:
                        ra = self.fallback(a_)
                    if ra is None or Fr(e_).denominator != 1:
                        return None
                    term *= Fr(ra) ** int(e_)
                tot += term
            return tot
        return None

    def __call__(self, a, op, b):
        ra, rb = self.rank(a), self.rank(b)
        if ra is None or rb is None:
            return None
        return {'<': ra < rb, '<=': ra <= rb, '>': ra > rb, '>=': ra >= rb,
                '==': ra == rb, '!=': ra != rb}[op]


def translate(repo, qual, env_args, obj=None, order=None, interp=None):
    """convenience: interpret function/method ``qual`` with keyword args."""
    I = interp or Interp(repo, order=order)
    modname, _, fname = qual.rpartition('.')
    if modname in repo.modules:
        m = repo.module(modname)
        fn = m.functions.get(fname)
        if fn is None:
            raise AnchorError('function %s not found' % qual)
        return I, I.call_function(m, fn, [], env_args, name=qual)
    ci = repo.cls(modname)
    if obj is None:
        obj = Obj('self', ci)
    return I, I.call_method(obj, fname, [], env_args)


from . import stdlib as _stdlib      # noqa: E402,F401  (registers further library models into NATIVE)
