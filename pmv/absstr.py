"""Abstract strings: sequences of literal text and symbolic fields of known width.

A field stands for the text of a value whose characters are not known but
whose width and character class are (``text``: arbitrary non-blank printable
characters chosen by the user; ``num``: a formatted number).  Writers build
such strings by formatting and concatenation, readers take them apart by
slicing, find, split and strip; composing the two decides column agreement
for every value at once.  Cutting through a field, converting text that is not
exactly one numeric field, or a substring test whose outcome depends on
user-controlled text are reported, not guessed.
"""
import re

from .source import Unsupported


class Seg:
    __slots__ = ('kind', 'text', 'value', 'width', 'cls', 'spec')

    def __init__(self, kind, text=None, value=None, width=None, cls=None, spec=None):
        self.kind = kind        # 'lit' | 'field'
        self.text = text
        self.value = value
        self.width = width
        self.cls = cls          # 'text' | 'num'
        self.spec = spec

    def __len__(self):
        if self.kind == 'lit':
            return len(self.text)
        if self.width is None:
            raise Unsupported('length of a printed value whose width is not known: %r' % (self.value,))
        return self.width

    def __repr__(self):
        if self.kind == 'lit':
            return repr(self.text)
        return '<%s:%s w=%s>' % (self.cls, self.value if not hasattr(self.value, 'key') else repr(self.value),
                                 self.width)


class Cut(Exception):
    """an operation cuts through a symbolic field"""

    def __init__(self, seg, what):
        self.seg = seg
        Exception.__init__(self, what)


class SegStr:
    def __init__(self, segs=()):
        self.segs = []
        for s in segs:
            self._push(s)

    def _push(self, s):
        if s.kind == 'lit':
            if not s.text:
                return
            if self.segs and self.segs[-1].kind == 'lit':
                self.segs[-1] = Seg('lit', text=self.segs[-1].text + s.text)
                return
        elif s.width == 0 and s.width is not None:
            return
        self.segs.append(s)

    @staticmethod
    def lit(text):
        return SegStr([Seg('lit', text=text)])

    @staticmethod
    def field(value, width, cls='text', spec=None):
        return SegStr([Seg('field', value=value, width=width, cls=cls, spec=spec)])

    def __len__(self):
        return sum(len(s) for s in self.segs)

    def __add__(self, o):
        o = to_segstr(o)
        return SegStr(self.segs + o.segs)

    def __radd__(self, o):
        return to_segstr(o) + self

    def __repr__(self):
        return 'SegStr(%s)' % ' '.join(repr(s) for s in self.segs)

    def is_literal(self):
        return all(s.kind == 'lit' for s in self.segs)

    def literal(self):
        return ''.join(s.text for s in self.segs)

    def fields(self):
        return [s for s in self.segs if s.kind == 'field']

    def single_field(self):
        if len(self.segs) == 1 and self.segs[0].kind == 'field':
            return self.segs[0]
        return None

    # ---- positional operations -----------------------------------------
    def slice(self, lo, hi):
        if (lo is None or lo == 0) and hi is not None and hi < 0:
            # s[:-k] without needing the total length (fields of unknown width may precede)
            k = -hi
            segs = list(self.segs)
            while k > 0 and segs:
                last = segs[-1]
                if last.kind == 'lit':
                    if len(last.text) > k:
                        segs[-1] = Seg('lit', text=last.text[:-k])
                        k = 0
                    else:
                        k -= len(last.text)
                        segs.pop()
                else:
                    if last.width is None or last.width > k:
                        raise Cut(last, 'slice [:%d] cuts through field %r' % (hi, last))
                    k -= last.width
                    segs.pop()
            return SegStr(segs)
        n = len(self)
        if lo is None:
            lo = 0
        if hi is None:
            hi = n
        if lo < 0:
            lo += n
        if hi < 0:
            hi += n
        lo, hi = max(0, min(lo, n)), max(0, min(hi, n))
        out = []
        pos = 0
        for s in self.segs:
            a, b = pos, pos + len(s)
            pos = b
            if b <= lo or a >= hi:
                continue
            if s.kind == 'lit':
                out.append(Seg('lit', text=s.text[max(lo, a) - a:min(hi, b) - a]))
            else:
                if a < lo or b > hi:
                    raise Cut(s, 'slice [%d:%d] cuts through field %r occupying [%d:%d]' % (lo, hi, s, a, b))
                out.append(s)
        return SegStr(out)

    def char_at(self, i):
        return self.slice(i, i + 1)

    def find(self, needle, start=0):
        """position of the first occurrence of a literal needle assuming text fields contain no blank and the
        needle is made of blanks; other needles are not supported here"""
        if set(needle) != {' '}:
            # first literal occurrence; undecided when user text that may contain the needle precedes it
            pos = 0
            for s in self.segs:
                if s.kind == 'lit':
                    idx = s.text.find(needle, max(0, start - pos))
                    if idx >= 0 and pos + idx >= start:
                        return pos + idx
                elif s.cls == 'text' and pos + len(s) > start:
                    raise Unsupported('find(): user text precedes the first literal occurrence')
                pos += len(s)
            return -1
        pos = 0
        for s in self.segs:
            if s.kind == 'lit':
                idx = s.text.find(needle, max(0, start - pos))
                if idx >= 0 and pos + idx >= start:
                    return pos + idx
            pos += len(s)
        return -1

    def rfind(self, needle, lo=0, hi=None):
        """position of the last occurrence of a literal needle inside [lo, hi); None when a user-text field that may
        contain the needle follows the last literal occurrence (inside that window)"""
        pos = 0
        best = -1
        text_after = False
        for s in self.segs:
            a, b = pos, pos + len(s)
            pos = b
            if (hi is not None and a >= hi) or b <= lo and b != a:
                continue
            if s.kind == 'lit':
                w_lo = max(lo - a, 0)
                w_hi = len(s.text) if hi is None else min(hi - a, len(s.text))
                if w_hi - w_lo >= len(needle):
                    idx = s.text.rfind(needle, w_lo, w_hi)
                    if idx >= 0:
                        best = a + idx
                        text_after = False
            elif s.cls == 'text':
                text_after = True
        if text_after:
            return None
        return best

    def find_in(self, needle, lo, hi):
        """first occurrence of a literal needle inside [lo, hi) (as find(), with an end)"""
        pos = 0
        for s in self.segs:
            a, b = pos, pos + len(s)
            pos = b
            if a >= hi:
                break
            if b <= lo:
                continue
            if s.kind == 'lit':
                w_lo = max(lo - a, 0)
                w_hi = min(hi - a, len(s.text))
                if w_hi - w_lo >= len(needle):
                    idx = s.text.find(needle, w_lo, w_hi)
                    if idx >= 0:
                        return a + idx
            elif s.cls == 'text' and set(needle) != {' '}:
                raise Unsupported('find(): user text precedes the first literal occurrence')
        return -1

    def strip(self, mode='strip', chars=None, strict=False, sign=None):
        """``sign``: optional oracle value -> True (not negative) / False (negative) / None for numbers printed with the
        blank sign flag: the sign column of a non-negative number is a blank and goes with the other blanks"""
        segs = list(self.segs)

        def may_start_blank(f):
            # a number printed with the blank sign flag or padded to a width starts with a blank for some values
            sp = (f.spec or '').lstrip('%')
            return f.cls == 'num' and (sp.startswith(' ') or bool(re.match(r'^[<>^]?[ +]?\d', sp)) and
                                       not sp.startswith(('<', '0')))
        if strict and (chars is None or ' ' in chars):
            if mode in ('strip', 'lstrip') and segs and segs[0].kind == 'field' and may_start_blank(segs[0]):
                f = segs[0]
                sp = (f.spec or '').lstrip('%')
                sg = sign(f.value) if sign is not None and sp.startswith(' ') and isinstance(f.width, int) else None
                if sg is True:
                    # the same number without its (blank) sign column
                    segs[0] = Seg('field', value=f.value, width=f.width - 1, cls=f.cls,
                                  spec=(f.spec or '').replace(' ', '', 1))
                    return SegStr(segs).strip('rstrip', chars, strict, sign) if mode == 'strip' else SegStr(segs)
                if sg is False:
                    return SegStr(segs).strip('rstrip', chars, strict, sign) if mode == 'strip' else SegStr(segs)
                raise Unsupported('strip() at a formatted number whose first column is a blank for some values: %r'
                                  % (segs[0].value,))
        special = chars is not None and set(chars) - set(' \n')
        if mode in ('strip', 'lstrip') and segs and segs[0].kind == 'lit':
            t_ = segs[0].text.lstrip(chars)
            if strict and special and not t_ and len(segs) > 1:
                raise Unsupported('strip(%r) reaches a symbolic field' % (chars,))
            segs[0] = Seg('lit', text=t_)
        elif strict and special and mode in ('strip', 'lstrip') and segs and segs[0].kind == 'field':
            raise Unsupported('strip(%r) at a symbolic field' % (chars,))
        if mode in ('strip', 'rstrip') and segs and segs[-1].kind == 'lit':
            t_ = segs[-1].text.rstrip(chars)
            if strict and special and not t_ and len(segs) > 1:
                raise Unsupported('strip(%r) reaches a symbolic field' % (chars,))
            segs[-1] = Seg('lit', text=t_)
        elif strict and special and mode in ('strip', 'rstrip') and segs and segs[-1].kind == 'field':
            raise Unsupported('strip(%r) at a symbolic field' % (chars,))
        return SegStr(segs)

    def replace(self, old, new):
        return SegStr([Seg('lit', text=s.text.replace(old, new)) if s.kind == 'lit' else s for s in self.segs])

    def split(self, sep):
        """split on a literal separator occurring only in literal segments"""
        parts = [[]]
        for s in self.segs:
            if s.kind == 'field':
                parts[-1].append(s)
                continue
            chunks = s.text.split(sep)
            for i, ch in enumerate(chunks):
                if i > 0:
                    parts.append([])
                if ch:
                    parts[-1].append(Seg('lit', text=ch))
        return [SegStr(p) for p in parts]

    def contains(self, needle):
        """True / False / None (depends on the contents of user-controlled text)"""
        lits = [s.text for s in self.segs if s.kind == 'lit']
        if any(needle in t for t in lits):
            return True
        # across a boundary literal|field the needle would need characters of the field
        risky = False
        for s in self.segs:
            if s.kind != 'field':
                continue
            if s.cls in ('text', 'alpha'):
                if s.width is None or s.width >= 1:
                    risky = True
            else:
                # formatted numbers: digits, sign, point, exponent marker, blanks
                alphabet = set('0123456789+-.eE ')
                if set(needle) <= alphabet:
                    risky = True
        return None if risky else False

    def splitlines(self):
        out = []
        cur = []
        for s in self.segs:
            if s.kind == 'field':
                cur.append(s)
                continue
            chunks = s.text.split('\n')
            for i, ch in enumerate(chunks):
                if i > 0:
                    cur.append(Seg('lit', text='\n'))
                    out.append(SegStr(cur))
                    cur = []
                if ch:
                    cur.append(Seg('lit', text=ch))
        if cur:
            out.append(SegStr(cur))
        return out


def to_segstr(v):
    if isinstance(v, SegStr):
        return v
    if isinstance(v, str):
        return SegStr.lit(v)
    raise Unsupported('cannot make an abstract string from %r' % (v,))


_FIELD = re.compile(r'\{([^{}:!]*)(?:!([rsa]))?(?::((?:[^{}]|\{[^{}]*\})*))?\}')


def parse_format(fmt):
    """[(literal text | None, field name, spec)] of a str.format template"""
    out = []
    pos = 0
    auto = 0
    for m in _FIELD.finditer(fmt):
        lit = fmt[pos:m.start()].replace('{{', '{').replace('}}', '}')
        if lit:
            out.append(('lit', lit, None))
        name = m.group(1)
        if name == '':
            name = str(auto)
            auto += 1
        spec = m.group(3) or ''
        # auto-numbered fields nested in the spec continue the numbering ('{:0{}d}'.format(x, w))
        while '{}' in spec:
            spec = spec.replace('{}', '{%d}' % auto, 1)
            auto += 1
        out.append(('field', name, spec))
        pos = m.end()
    lit = fmt[pos:].replace('{{', '{').replace('}}', '}')
    if lit:
        out.append(('lit', lit, None))
    return out


_SPEC = re.compile(r'^(?:(.)?([<>=^]))?([ +-])?(#)?(0)?(\d+)?([,_])?(?:\.(\d+))?([a-zA-Z%])?$')


def spec_width(spec, natural=None):
    """width of a number formatted with ``spec`` (None when it depends on the value).
    E/e formats of |exponent| < 100 have a value-independent width."""
    m = _SPEC.match(spec)
    if not m:
        raise Unsupported('format spec %r' % spec)
    sign, width, prec, typ = m.group(3), m.group(6), m.group(8), m.group(9)
    width = int(width) if width else 0
    if typ in ('e', 'E'):
        p = int(prec) if prec is not None else 6
        w = (1 if sign in (' ', '+') else 0) + 1 + (1 + p if p > 0 else 0) + 4
        # a negative number without an explicit sign flag needs one more column: value dependent
        if sign not in (' ', '+'):
            return None
        return max(w, width)
    if natural is not None:
        return max(natural + (1 if sign in (' ', '+') else 0), width)
    return None


def spec_sigdigits(spec):
    m = _SPEC.match(spec)
    if not m:
        return None
    prec, typ = m.group(8), m.group(9)
    if typ in ('e', 'E'):
        return (int(prec) if prec is not None else 6) + 1
    return None
