"""Self-test of the checkers, both ways, without touching the disk: the
repository is re-indexed with in-memory source overrides.

MUTANTS: one textual edit each (old -> new, must match exactly once) placed in
code the existing unit tests do not pin; the check must report a *new* finding
whose rule/construct match the expectation.  EQUIV: behaviour-preserving
rewrites; the check must stay silent.  An edit whose anchor text is no longer
present (the file was changed) is skipped and reported as such - the self-test
never fails because the code under analysis moved on.
A self-test failure is an ANALYSIS-ERROR (the checker is broken), never a
VIOLATION of the property.
"""
import time

from .report import Run, AnalysisError
from .source import Repo, AnchorError, Unsupported


def _loose(old):
    """regular expression matching ``old`` whatever the spacing, line breaks and line continuations between its
    characters (the sources are not formatted the way the edits were written)"""
    import re
    chars = []
    i = 0
    while i < len(old):
        ch = old[i]
        if ch == '\\' and i + 1 < len(old) and old[i + 1] == '\n':
            i += 2
            continue
        if not ch.isspace():
            chars.append(re.escape(ch))
        i += 1
    return re.compile(r'(?:\s|\\\n)*'.join(chars))


def _loose_replace(text, old, new, k=0, n=1):
    rx = _loose(old)
    ms = list(rx.finditer(text))
    if len(ms) != n:
        return None
    m_ = ms[k]
    return text[:m_.start()] + new + text[m_.end():]


def apply_edits(repo, edits):
    import ast as _ast
    ov = {}
    for ed in edits:
        rel, old, new = ed[:3]
        m = [x for x in repo.modules.values() if x.relpath == rel]
        if not m:
            return None
        text = ov.get(rel, m[0].text)
        exact = text.count(old) == (ed[4] if len(ed) > 3 else 1)
        if not exact:
            res = _loose_replace(text, old, new, *(ed[3:5] if len(ed) > 3 else (0, 1)))
            if res is None:
                return None
            try:
                _ast.parse(res)
            except SyntaxError:
                return None
            ov[rel] = res
            continue
        if len(ed) > 3:
            # (rel, old, new, k, n): replace the k-th of exactly n occurrences
            k, n = ed[3], ed[4]
            if text.count(old) != n:
                return None
            pos = -1
            for _ in range(k + 1):
                pos = text.index(old, pos + 1)
            ov[rel] = text[:pos] + new + text[pos + len(old):]
        else:
            if text.count(old) != 1:
                return None
            ov[rel] = text.replace(old, new)
    return ov


def patch_overrides(repo, patch_text):
    """apply a unified diff in memory: hunks are located by their text (the occurrence nearest to the stated line when
    the text occurs more than once); files the diff adds become new modules; None when a hunk cannot be placed"""
    import re
    ov = {}
    rel = None
    old_rel = None
    hunks = []
    cur = None
    for line in patch_text.splitlines():
        if line.startswith('--- '):
            old_rel = line[4:].split('\t')[0].strip()
            continue
        if line.startswith('+++ '):
            rel = line[4:].split('\t')[0].strip()
            rel = rel[2:] if rel.startswith(('a/', 'b/')) else rel
            if rel == '/dev/null':
                return None                 # a deleted module: not handled in memory
            continue
        if line.startswith('diff ') or line.startswith('index ') or line.startswith('new file') \
                or line.startswith('deleted file') or line.startswith('old mode') or line.startswith('new mode') \
                or line.startswith('similarity ') or line.startswith('rename '):
            if line.startswith('rename '):
                return None
            continue
        if line.startswith('@@'):
            m_ = re.match(r'@@ -(\d+)', line)
            cur = {'rel': rel, 'old': [], 'new': [], 'at': int(m_.group(1)) if m_ else 0,
                   'created': old_rel == '/dev/null'}
            hunks.append(cur)
            continue
        if cur is None or line.startswith('\\'):
            continue
        if line.startswith('-'):
            cur['old'].append(line[1:])
        elif line.startswith('+'):
            cur['new'].append(line[1:])
        else:
            body = line[1:] if line.startswith(' ') else line
            cur['old'].append(body)
            cur['new'].append(body)
    for h in hunks:
        new = '\n'.join(h['new']) + '\n'
        if '/tests/' in '/' + (h['rel'] or '') or not (h['rel'] or '').endswith('.py'):
            continue                        # not part of what is analysed
        if h['created']:
            ov[h['rel']] = ov.get(h['rel'], '') + new
            continue
        m = [x for x in repo.modules.values() if x.relpath == h['rel']]
        if not m and h['rel'] not in ov:
            return None
        text = ov.get(h['rel'], m[0].text if m else '')
        old = '\n'.join(h['old']) + '\n'
        n_occ = text.count(old)
        if n_occ == 0 and text.endswith(old[:-1]):
            # the hunk reaches the end of a file that has no final newline
            ov[h['rel']] = text[:len(text) - len(old) + 1] + new[:-1]
            continue
        if n_occ == 0:
            return None
        if n_occ == 1:
            ov[h['rel']] = text.replace(old, new)
            continue
        # the occurrence whose first line is nearest to the line the hunk names
        best, pos = None, -1
        while True:
            pos = text.find(old, pos + 1)
            if pos < 0:
                break
            if pos and text[pos - 1] != '\n':
                continue
            ln = text.count('\n', 0, pos) + 1
            if best is None or abs(ln - h['at']) < abs(best[0] - h['at']):
                best = (ln, pos)
        if best is None:
            return None
        ov[h['rel']] = text[:best[1]] + new + text[best[1] + len(old):]
    return ov or None


def seeded(prop, kind='breaking'):
    """[(name, patch text)] of the committed seeded changes for this property (/verif/seeded/*/): kind 'breaking'
    (must be reported) or 'equivalent' (behaviour-preserving refactorings: must stay silent)"""
    import json
    import os
    root = os.path.join(os.path.dirname(os.path.dirname(os.path.abspath(__file__))), 'seeded')
    out = []
    if not os.path.isdir(root):
        return out
    for d in sorted(os.listdir(root)):
        mp = os.path.join(root, d, 'meta.json')
        pp = os.path.join(root, d, 'patch.diff')
        if not (os.path.exists(mp) and os.path.exists(pp)):
            continue
        try:
            meta = json.load(open(mp))
        except ValueError:
            continue
        if meta.get('property') == prop and meta.get('kind', 'breaking') == kind:
            out.append(('seeded/' + d, open(pp).read()))
    return out


def run_check(mod, prop, root, overrides):
    repo = Repo(root, overrides=overrides)
    r = Run(prop, 'quick', 0, repo)
    try:
        from .main import run_rules
        run_rules(mod, r, repo)
    except (AnchorError, Unsupported, AnalysisError) as e:
        return None, '%s: %s' % (type(e).__name__, e)
    return r, None


def _job(arg):
    modname, prop, root, ov = arg
    import importlib
    mod = importlib.import_module(modname)
    r, err = run_check(mod, prop, root, ov)
    if r is None:
        return None, err
    return [(f.ident(), f.sig) for f in r.findings], None


def _run_jobs(modname, prop, root, ovs):
    """the replays, in worker processes (PMV_JOBS, default 8; 1 = in this process)"""
    import os
    n = int(os.environ.get('PMV_JOBS', '8') or 8)
    args = [(modname, prop, root, ov) for ov in ovs]
    if n <= 1 or len(args) <= 1:
        return [_job(a) for a in args]
    from concurrent.futures import ProcessPoolExecutor
    import multiprocessing as mp
    with ProcessPoolExecutor(max_workers=min(n, len(args)), mp_context=mp.get_context('fork')) as ex:
        return list(ex.map(_job, args))


def selftest(run, repo, mod):
    prop = run.prop
    muts = getattr(mod, 'MUTANTS', [])
    eqs = getattr(mod, 'EQUIV', [])
    seeds = seeded(prop)
    if not muts and not eqs and not seeds and not seeded(prop, 'equivalent'):
        return
    t0 = time.time()
    base = {(f.ident(), f.sig) for f in run.findings}
    res = {'mutants': 0, 'caught': 0, 'skipped': [], 'equiv': 0, 'silent': 0, 'missed': [], 'noisy': [],
           'seeded': 0, 'seeded_caught': 0}
    # every replay is an independent in-memory run of the quick tier on a changed copy of the sources: they are
    # collected first and run in parallel worker processes (the verdicts do not depend on the order)
    jobs = []       # (kind, name, spec, overrides)
    # changes written by independent reviewers who saw only the property text (kept under /verif/seeded): each must
    # be reported as a violation, not as an analysis error
    for name, patch in seeds:
        ov = patch_overrides(repo, patch)
        if ov is None:
            res['skipped'].append(name + ' (patch no longer applies)')
            continue
        jobs.append(('seeded', name, None, ov))
    for mt in muts:
        ov = apply_edits(repo, mt['edits'])
        if ov is None:
            res['skipped'].append(mt['name'])
            continue
        jobs.append(('mutant', mt['name'], mt, ov))
    # behaviour-preserving refactorings written by independent reviewers: no new finding, no analysis error
    for name, patch in seeded(prop, 'equivalent'):
        ov = patch_overrides(repo, patch)
        if ov is None:
            res['skipped'].append(name + ' (patch no longer applies)')
            continue
        jobs.append(('equiv', name, None, ov))
    for eq in eqs:
        ov = apply_edits(repo, eq['edits'])
        if ov is None:
            res['skipped'].append(eq['name'])
            continue
        jobs.append(('equiv', eq['name'], None, ov))
    outcomes = _run_jobs(mod.__name__, prop, repo.root, [j[3] for j in jobs])
    for (kind, name, spec, _ov), (idents, err) in zip(jobs, outcomes):
        new = None if idents is None else [x for x in idents if (x[0], x[1]) not in base]
        if kind == 'seeded':
            res['seeded'] += 1
            if new is None:
                res['missed'].append('%s (analysis error instead of finding: %s)' % (name, err[:120]))
            elif new:
                res['seeded_caught'] += 1
            else:
                res['missed'].append('%s (no new finding)' % name)
        elif kind == 'mutant':
            res['mutants'] += 1
            exp = spec.get('expect')
            if new is None:
                if exp == 'error':
                    res['caught'] += 1
                else:
                    res['missed'].append('%s (analysis error instead of finding: %s)' % (name, err[:120]))
                continue
            hit = [x for x in new if exp is None or exp == 'error' or
                   (x[0][1].startswith(exp[0]) and exp[1] in x[0][2])]
            if hit:
                res['caught'] += 1
            else:
                res['missed'].append('%s (new findings: %s)' % (name, [x[0][1:3] for x in new][:3]))
        else:
            res['equiv'] += 1
            if new is None:
                res['noisy'].append('%s (analysis error: %s)' % (name, err[:160]))
            elif new:
                res['noisy'].append('%s (%s)' % (name, [x[0][1:] for x in new][:2]))
            else:
                res['silent'] += 1
    res['wall_s'] = round(time.time() - t0, 2)
    run.extra['selftest'] = res
    if res['missed'] or res['noisy']:
        raise AnalysisError('self-test failed: missed=%s noisy=%s' % (res['missed'], res['noisy']))
