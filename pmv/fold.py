"""Constant folding of literals with exact Fractions.

A numeric literal is read from its *source token*, so ``273.15`` is exactly
27315/100 and the rounding implied by the number of digits written is known:
``Num.err`` is an absolute bound (half a unit in the last written digit),
zero for integers, integer-valued floats (``100.``, ``60.``) and pure powers
of ten (``1.e-3``).  Interval arithmetic propagates the bound.
"""
import ast
import re
from fractions import Fraction as Fr

from .source import Unsupported

_NUM = re.compile(r'^([0-9]*)(?:\.([0-9]*))?(?:[eE]([+-]?[0-9]+))?$')


class Num:
    __slots__ = ('v', 'err')

    def __init__(self, v, err=0):
        self.v = Fr(v)
        self.err = Fr(err)

    @property
    def exact(self):
        return self.err == 0

    def rel(self):
        return self.err / abs(self.v) if self.v != 0 else Fr(0)

    def __add__(a, b):
        b = _num(b)
        return Num(a.v + b.v, a.err + b.err)

    def __sub__(a, b):
        b = _num(b)
        return Num(a.v - b.v, a.err + b.err)

    def __neg__(a):
        return Num(-a.v, a.err)

    def __mul__(a, b):
        b = _num(b)
        return Num(a.v * b.v, abs(a.v) * b.err + abs(b.v) * a.err + a.err * b.err)

    def __truediv__(a, b):
        b = _num(b)
        if abs(b.v) <= b.err:
            raise ZeroDivisionError('interval contains zero')
        lo = abs(b.v) - b.err
        err = (abs(a.v) * b.err + abs(b.v) * a.err) / (abs(b.v) * lo)
        return Num(a.v / b.v, err)

    def __pow__(a, k):
        if isinstance(k, Num):
            if not k.exact or k.v.denominator != 1:
                raise Unsupported('non-integer constant power')
            k = int(k.v)
        r = Num(1)
        base = a if k >= 0 else Num(1) / a
        for _ in range(abs(k)):
            r = r * base
        return r

    def approx(a, b, slack=2):
        """|a-b| <= slack * (err_a + err_b) (exact equality when both exact)"""
        b = _num(b)
        return abs(a.v - b.v) <= slack * (a.err + b.err)

    def __float__(self):
        return float(self.v)

    def __repr__(self):
        if self.err == 0:
            return 'Num(%s)' % (self.v if self.v.denominator == 1 else float(self.v))
        return 'Num(%.12g +/- %.2g)' % (float(self.v), float(self.err))


def _num(x):
    return x if isinstance(x, Num) else Num(x)


def token_num(tok):
    """Num for a numeric literal token ('6.02214086e23', '1.e-3', '100.')."""
    t = tok.replace('_', '').strip()
    m = _NUM.match(t)
    if not m or (m.group(1) == '' and not m.group(2)):
        raise Unsupported('unrecognised numeric literal %r' % tok)
    ip, fp, ex = m.group(1) or '', m.group(2), m.group(3)
    e = int(ex) if ex else 0
    if fp is None and ex is None:
        return Num(int(ip))
    fp = fp or ''
    val = Fr(int((ip + fp) or '0')) / Fr(10) ** len(fp) * Fr(10) ** e
    # integer-valued mantissa (no non-zero fractional digits): exact
    if fp.strip('0') == '':
        return Num(val)
    half = Fr(1, 2) / Fr(10) ** len(fp) * Fr(10) ** e
    return Num(val, half)


def sig_digits(tok):
    t = tok.replace('_', '').strip()
    m = _NUM.match(t)
    digits = ((m.group(1) or '') + (m.group(2) or '')).lstrip('0')
    return len(digits)


def fold_num(module, node, env=None):
    """Fold a constant numeric expression to Num (Unsupported otherwise).
    env: name -> Num (module-level constants such as Na)."""
    env = env or {}
    if isinstance(node, ast.Constant):
        if isinstance(node.value, bool) or not isinstance(node.value, (int, float)):
            raise Unsupported('non numeric constant', node, module.relpath)
        tok = module.segment(node)
        if tok is None:
            # synthesised node (e.g. after transformation): fall back on repr
            tok = repr(node.value)
        return token_num(tok)
    if isinstance(node, ast.UnaryOp) and isinstance(node.op, (ast.USub, ast.UAdd)):
        v = fold_num(module, node.operand, env)
        return -v if isinstance(node.op, ast.USub) else v
    if isinstance(node, ast.BinOp):
        a = fold_num(module, node.left, env)
        b = fold_num(module, node.right, env)
        if isinstance(node.op, ast.Add):
            return a + b
        if isinstance(node.op, ast.Sub):
            return a - b
        if isinstance(node.op, ast.Mult):
            return a * b
        if isinstance(node.op, ast.Div):
            return a / b
        if isinstance(node.op, ast.Pow):
            return a ** b
        raise Unsupported('operator in constant expression', node, module.relpath)
    if isinstance(node, ast.Name) and node.id in env:
        return env[node.id]
    raise Unsupported('not a constant numeric expression: %s' % ast.unparse(node)[:60],
                      node, module.relpath)


def fold_value(module, node, env=None, numeric=False):
    """Fold a literal (dict/list/tuple/set/str/number/None/bool) into Python
    data.  Numbers become Num when numeric=True, else plain python numbers."""
    if isinstance(node, ast.Constant):
        if isinstance(node.value, (int, float)) and not isinstance(node.value, bool) and numeric:
            return fold_num(module, node, env)
        return node.value
    if isinstance(node, ast.Dict):
        out = {}
        for k, v in zip(node.keys, node.values):
            if k is None:
                raise Unsupported('dict unpacking in literal', node, module.relpath)
            out[fold_value(module, k, env, False)] = fold_value(module, v, env, numeric)
        return out
    if isinstance(node, (ast.List, ast.Tuple, ast.Set)):
        vals = [fold_value(module, e, env, numeric) for e in node.elts]
        return tuple(vals) if isinstance(node, ast.Tuple) else vals
    if isinstance(node, (ast.BinOp, ast.UnaryOp)):
        v = fold_num(module, node, env)
        return v if numeric else float(v)
    if isinstance(node, ast.Name) and env and node.id in env:
        return env[node.id]
    raise Unsupported('not a literal: %s' % ast.unparse(node)[:60], node, module.relpath)


def fold_table(module, node, env=None):
    """[(key, Num, source node)] of a numeric table written as a dict display, including the entries it unpacks with
    ``**``: a dict comprehension over literal tuples (keys from f-strings / names, values arithmetic over the loop
    variables and module constants), ``dict.fromkeys(<literal keys>, <number>)`` or another display"""
    env = dict(env or {})
    out = []

    def lit(e, names):
        # a loop source element: strings stay strings, numbers become Num (with the rounding of their token)
        if isinstance(e, ast.Constant) and isinstance(e.value, str):
            return e.value
        if isinstance(e, (ast.Tuple, ast.List)):
            return [lit(x, names) for x in e.elts]
        return fold_num(module, e, dict(env, **{k: v for k, v in names.items() if isinstance(v, Num)}))

    def text(e, names):
        if isinstance(e, ast.Constant) and isinstance(e.value, str):
            return e.value
        if isinstance(e, ast.Name) and isinstance(names.get(e.id), str):
            return names[e.id]
        if isinstance(e, ast.JoinedStr):
            parts = []
            for v in e.values:
                if isinstance(v, ast.Constant):
                    parts.append(v.value)
                elif isinstance(v, ast.FormattedValue) and v.format_spec is None and v.conversion == -1:
                    parts.append(text(v.value, names))
                else:
                    raise Unsupported('formatted key in a table', e, module.relpath)
            return ''.join(parts)
        if isinstance(e, ast.BinOp) and isinstance(e.op, ast.Add):
            return text(e.left, names) + text(e.right, names)
        if isinstance(e, ast.Call) and isinstance(e.func, ast.Attribute) and e.func.attr == 'format' \
                and isinstance(e.func.value, ast.Constant) and not e.keywords:
            return e.func.value.value.format(*[text(a, names) for a in e.args])
        raise Unsupported('key of a table entry is not a literal string', e, module.relpath)

    def bind(target, val, names):
        if isinstance(target, ast.Name):
            names[target.id] = val
        elif isinstance(target, (ast.Tuple, ast.List)) and isinstance(val, list) and len(val) == len(target.elts):
            for t, v in zip(target.elts, val):
                bind(t, v, names)
        else:
            raise Unsupported('loop target in a table comprehension', target, module.relpath)

    def comp(c, gens, names):
        if not gens:
            nm = {k: v for k, v in names.items() if isinstance(v, Num)}
            out.append((text(c.key, names), fold_num(module, c.value, dict(env, **nm)), c.value))
            return
        g = gens[0]
        if g.ifs or g.is_async or not isinstance(g.iter, (ast.Tuple, ast.List)):
            raise Unsupported('table comprehension over something other than a literal sequence', c, module.relpath)
        for e in g.iter.elts:
            n2 = dict(names)
            bind(g.target, lit(e, names), n2)
            comp(c, gens[1:], n2)

    def walk(d):
        for k, v in zip(d.keys, d.values):
            if k is not None:
                out.append((fold_value(module, k), fold_num(module, v, env), v))
            elif isinstance(v, ast.Dict):
                walk(v)
            elif isinstance(v, ast.DictComp):
                comp(v, list(v.generators), {})
            elif isinstance(v, ast.Call) and ast.unparse(v.func) == 'dict.fromkeys' and len(v.args) == 2 \
                    and isinstance(v.args[0], (ast.Tuple, ast.List)):
                num = fold_num(module, v.args[1], env)
                for e in v.args[0].elts:
                    out.append((fold_value(module, e), num, v.args[1]))
            else:
                raise Unsupported('entries unpacked into a table from %s' % ast.unparse(v)[:50], v, module.relpath)
    walk(node)
    return out


def dict_literal_items(node):
    """[(key node, value node)] of a dict literal; Unsupported on ** unpacking."""
    if not isinstance(node, ast.Dict):
        raise Unsupported('expected dict literal')
    return list(zip(node.keys, node.values))


def duplicate_keys(module, node):
    seen, dups = set(), []
    for k in node.keys:
        if k is None:
            continue
        try:
            kv = fold_value(module, k)
        except Unsupported:
            continue
        if kv in seen:
            dups.append(kv)
        seen.add(kv)
    return dups


def find_local_assign(fn, name):
    """value nodes assigned to local ``name`` anywhere in fn (source order)."""
    out = []
    for n in ast.walk(fn):
        if isinstance(n, ast.Assign):
            for t in n.targets:
                if isinstance(t, ast.Name) and t.id == name:
                    out.append(n.value)
        elif isinstance(n, ast.AnnAssign) and n.value is not None and isinstance(n.target, ast.Name) and \
                n.target.id == name:
            out.append(n.value)           # an annotated assignment binds like a plain one
    return out


def format_spec_width(spec):
    """(width, precision, type, sign/space flag) of a format spec such as
    ' 2.8E' ; width may be None."""
    m = re.match(r'^(?:(.)?([<>=^]))?([ +-])?(#)?(0)?(\d+)?(,|_)?(?:\.(\d+))?([a-zA-Z%])?$', spec)
    if not m:
        raise Unsupported('format spec %r' % spec)
    return {'fill': m.group(1), 'align': m.group(2), 'sign': m.group(3),
            'width': int(m.group(6)) if m.group(6) else None,
            'precision': int(m.group(8)) if m.group(8) else None,
            'type': m.group(9)}
