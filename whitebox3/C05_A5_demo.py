"""C05_A5 demo - the phase letter is looked up in {'g': 'G', 'l': 'L', 's': 'S'} when reading: a species of phase 'g' comes back as 'G'.
Takes pMuTT from PYTHONPATH. Exit 0 and no WRONG on the unchanged tree, prints WRONG and exits 1 with the change."""
import os, sys, tempfile
import numpy as np
from pmutt.empirical.nasa import Nasa
from pmutt.io.thermdat import write_thermdat, read_thermdat

def mk(name, elements, phase='G', T_low=200., T_mid=1000., T_high=3500., a_low=None, a_high=None, **kw):
    a_low = [4.19864056E+00, -2.03643410E-03, 6.52040211E-06, -5.48797062E-09, 1.77197817E-12, -3.02937267E+04, -8.49032208E-01] if a_low is None else a_low
    a_high = [3.03399249E+00, 2.17691804E-03, -1.64072518E-07, -9.70419870E-11, 1.68200992E-14, -3.00042971E+04, 4.96677010E+00] if a_high is None else a_high
    return Nasa(name=name, elements=elements, phase=phase, T_low=T_low, T_mid=T_mid, T_high=T_high,
                a_low=np.array(a_low), a_high=np.array(a_high), **kw)

def roundtrip(species, fmt='list', **kw):
    d = tempfile.mkdtemp()
    f = os.path.join(d, 'thermdat')
    write_thermdat(species, filename=f, write_date=kw.pop('write_date', False), **kw)
    return read_thermdat(f, format=fmt), open(f).read()

def sig9(x):
    return '%.8e' % x

def same(a, b):
    """the property's notion of 'the same species'"""
    return (a.name == b.name and a.phase == b.phase and dict(a.elements) == dict(b.elements)
            and all(abs(getattr(a, t) - getattr(b, t)) <= 0.1 + 1e-9 for t in ('T_low', 'T_mid', 'T_high'))
            and all(sig9(x) == sig9(y) for x, y in zip(a.a_low, b.a_low)) and len(a.a_low) == len(b.a_low) == 7
            and all(sig9(x) == sig9(y) for x, y in zip(a.a_high, b.a_high)) and len(a.a_high) == len(b.a_high) == 7)

def verdict(species, **kw):
    """'' when the collection reads back as written, else a description"""
    sp = list(species.values()) if isinstance(species, dict) else list(species)
    try:
        got, text = roundtrip(species, **kw)
    except Exception as e:
        return 'reading back raises %s: %s' % (type(e).__name__, e)
    got = list(got.values()) if isinstance(got, dict) else list(got)
    if len(got) != len(sp):
        return '%d species written, %d read back: %s' % (len(sp), len(got), [g.name for g in got])
    for a, b in zip(sp, got):
        if not same(a, b):
            return 'species %s reads back as name=%r phase=%r elements=%r T=(%r, %r, %r)' % (
                a.name, b.name, b.phase, b.elements, b.T_low, b.T_mid, b.T_high)
    return ''


bad = 0
for ph in ('G', 'S', 'g', 's', 'l', 'B'):
    sp = mk('X' + ph, {'C': 1, 'O': 1}, phase=ph)
    got, _ = roundtrip([sp])
    ok = len(got) == 1 and got[0].phase == ph
    print('phase %r read back as %r %s' % (ph, got[0].phase if got else None, 'ok' if ok else '<- not the phase written'))
    bad += not ok
if bad:
    print('WRONG')
    sys.exit(1)
