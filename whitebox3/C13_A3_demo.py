"""C13_A3 - Shomate remembers the summed corrections per (getter, T, P, x); the per-species <name>_kwargs blocks, through
which each coverage effect gets the coverage of its own species, are not part of the key: the second question at
another coverage gets the first answer.  Exit 1 / WRONG with the change, exit 0 without."""
import sys, warnings
import numpy as np
from pmutt.empirical.shomate import Shomate
from pmutt.mixture.cov import PiecewiseCovEffect
warnings.simplefilter('ignore')

a = [30.09200, 6.832514, 6.793435, -2.534480, 0.082139, -250.8810, 223.3967, -241.8264]
covs = [PiecewiseCovEffect(name_i='H2O(S)', name_j='CO(S)', intervals=[0., 0.4], slopes=[-20., -35.]),
        PiecewiseCovEffect(name_i='H2O(S)', name_j='O(S)', intervals=[0., 0.5], slopes=[12., 30.])]
bad = 0


def check(label, got, want):
    global bad
    ok = np.allclose(got, want, rtol=1e-10, atol=1e-10)
    print('%-66s got %-26s want %-26s %s' % (label, np.round(got, 6), np.round(want, 6), 'ok' if ok else 'WRONG'))
    bad += not ok


for phase, models in (('S', covs), ('s', covs[:1]), (None, covs)):
    sp = Shomate(name='H2O(S)', T_low=500., T_high=1700., a=np.array(a), phase=phase, misc_models=list(models))
    bare = Shomate(name='H2O(S)', T_low=500., T_high=1700., a=np.array(a), phase=phase)
    # a coverage scan at fixed T, as for a phase diagram / a microkinetic model: each coverage effect is told the
    # coverage of its own species
    for T in (600., np.array([600., 900.])):
        for xco, xo in ((0.1, 0.0), (0.3, 0.2), (0.6, 0.45), (0.0, 0.0)):
            blocks = {'CO(S)_kwargs': {'x': xco}, 'O(S)_kwargs': {'x': xo}}
            want = bare.get_HoRT(T=T) + sum(m.get_HoRT(x={'CO(S)': xco, 'O(S)': xo}[m.name_j], T=T) for m in models)
            check('phase=%r %d effect(s) T=%s  H at CO=%.2f O=%.2f' % (phase, len(models), T, xco, xo),
                  sp.get_HoRT(T=T, **blocks), want)
            check('phase=%r %d effect(s) T=%s  G at CO=%.2f O=%.2f' % (phase, len(models), T, xco, xo),
                  sp.get_GoRT(T=T, **blocks), want - bare.get_SoR(T=T))
print('WRONG' if bad else 'all ok')
sys.exit(1 if bad else 0)
