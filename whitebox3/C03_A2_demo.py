"""C03_A2: Shomate._fit_CpoR hands curve_fit sigma=CpoR ("minimise the relative error").  For an adsorbate whose
vibrations are frozen out at the cold end of the window (Cp/R(100 K) ~ 1e-9) the weights 1/sigma^2 span 18 orders of
magnitude and the fit no longer tracks the source.  Run with PYTHONPATH=<tree>."""
import sys
import warnings
import numpy as np
from pmutt.statmech import StatMech, presets
from pmutt.empirical.shomate import Shomate

warnings.simplefilter('ignore')
cases = (('adsorbate 2100/1900 cm-1, 100-1500 K, n_T=50', [2100., 1900.], 100., 1500., 50),
         ('adsorbate 3000/1500/1200 cm-1, 100-2000 K, n_T=100', [3000., 1500., 1200.], 100., 2000., 100),
         ('adsorbate 1600/900 cm-1, 100-1000 K, n_T=30', [1600., 900.], 100., 1000., 30))
bad = 0
for label, wn, T_low, T_high, n_T in cases:
    model = StatMech(name='ads', potentialenergy=-1., vib_wavenumbers=np.array(wn), **presets['harmonic'])
    for units in ('J/mol/K', 'eV/K'):
        sp = Shomate.from_model(model=model, name='ads', T_low=T_low, T_high=T_high, n_T=n_T, units=units)
        T = np.linspace(T_low, T_high, 141)
        dCp = max(abs(sp.get_CpoR(T=t) - model.get_CpoR(T=t)) for t in T)
        dH = max(abs(sp.get_HoRT(T=t) - model.get_HoRT(T=t)) for t in T)
        dS = max(abs(sp.get_SoR(T=t) - model.get_SoR(T=t)) for t in T)
        # the unweighted five-term Shomate fit follows these sources within 0.12 (Cp/R) and 0.04 (H/RT, S/R)
        ok = dCp < 0.15 and dH < 0.05 and dS < 0.05
        print('%-52s %-8s Cp/R(T_low)=%.1e  max|dCp/R|=%.3f  max|dH/RT|=%.3f  max|dS/R|=%.3f  %s'
              % (label, units, model.get_CpoR(T=T_low), dCp, dH, dS, 'ok' if ok else 'WRONG'))
        bad += not ok
sys.exit(1 if bad else 0)
