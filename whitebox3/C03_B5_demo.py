"""C03_B3 (and B5): Nasa.from_model / Shomate.from_model.  The species built by from_model of the tree under PYTHONPATH
is compared (== on every coefficient, bounds, break) with the same steps done by hand as the ORIGINAL code does them
(grid np.linspace(T_low, T_high, n_T), reference at the middle of the window, from_data with keywords), for the model
given as an object and as a class.  Exit 0 = bit-identical."""
import sys
import warnings
import numpy as np
from ase.build import molecule
from pmutt.statmech import StatMech, presets
from pmutt.empirical.nasa import Nasa
from pmutt.empirical.shomate import Shomate

warnings.simplefilter('ignore')
rng = np.random.RandomState(5)
n_cases = n_diff = 0


def by_hand(cls, model, name, T_low, T_high, n_T, **extra):
    T = np.linspace(T_low, T_high, n_T)
    CpoR = model.get_CpoR(T=T) if False else np.array([model.get_CpoR(T=t) for t in T])
    T_mean = (T_low + T_high) / 2.
    return cls.from_data(name=name, T=T, CpoR=CpoR, T_ref=T_mean, HoRT_ref=model.get_HoRT(T=T_mean),
                         SoR_ref=model.get_SoR(T=T_mean), model=model, elements=model.elements, **extra)


def equal(a, b):
    if isinstance(a, Nasa):
        return (np.array_equal(a.a_low, b.a_low) and np.array_equal(a.a_high, b.a_high) and a.T_mid == b.T_mid
                and a.T_low == b.T_low and a.T_high == b.T_high and a.name == b.name)
    return np.array_equal(a.a, b.a) and a.T_low == b.T_low and a.T_high == b.T_high and a.units == b.units \
        and a.name == b.name


for k in range(60):
    T_low = float(rng.uniform(100., 1200.))
    T_high = float(rng.uniform(T_low + 400., 3000.))
    n_T = int(rng.randint(15, 201))
    if k % 3 == 0:
        kw = dict(name='H2O', symmetrynumber=2, atoms=molecule('H2O'), potentialenergy=-14.2209, spin=0,
                  vib_wavenumbers=np.array([3825.434, 3710.2642, 1582.432]), **presets['idealgas'])
    elif k % 3 == 1:
        kw = dict(name='ads', potentialenergy=-1., vib_wavenumbers=rng.uniform(50., 4000., size=rng.randint(1, 10)),
                  **presets['harmonic'])
    else:
        kw = dict(name='e', potentialenergy=-1.5, spin=int(rng.randint(0, 3)), **presets['electronic'])
    model = StatMech(**kw)
    for cls, extra in ((Nasa, {'T_mid': None}), (Nasa, {'T_mid': float(rng.uniform(T_low + 150., T_high - 150.))}),
                       (Shomate, {'units': ('J/mol/K', 'eV/K', 'cal/mol/K')[k % 3]})):
        want = by_hand(cls, model, kw['name'], T_low, T_high, n_T, **extra)
        got = [cls.from_model(model=model, name=kw['name'], T_low=T_low, T_high=T_high, n_T=n_T, **extra)]
        if k % 4 == 0:
            # documented: "model : Model object or class", the keywords initialise it
            kw2 = {q: v for q, v in kw.items() if q not in ('name', 'model', 'required', 'optional')}
            got.append(cls.from_model(model=StatMech, name=kw['name'], T_low=T_low, T_high=T_high, n_T=n_T,
                                      **dict(kw2, **extra)))
        if n_T == 50 or k % 10 == 0:
            want50 = by_hand(cls, model, kw['name'], T_low, T_high, 50, **extra)
            g50 = cls.from_model(model=model, name=kw['name'], T_low=T_low, T_high=T_high, **extra)     # default n_T
            n_cases += 1
            if not equal(g50, want50):
                n_diff += 1
                print('DIFFERENT (default n_T): case %d %s' % (k, cls.__name__))
        for g in got:
            n_cases += 1
            if not equal(g, want):
                n_diff += 1
                print('DIFFERENT: case %d %s %r' % (k, cls.__name__, extra))
print('%d cases, %d differences' % (n_cases, n_diff))
sys.exit(1 if n_diff else 0)
