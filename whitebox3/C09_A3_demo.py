"""C09 / A3: activation enthalpy / Gibbs energy of an adsorption step (is_adsorption=True, written with a sticking
coefficient) that has no transition state, in BOTH directions, for ChemkinReaction and SurfaceReaction:
max(0, reaction change in the direction asked for).  The reverse direction of an exothermic adsorption is the
desorption: its barrier must not fall below the desorption enthalpy / Gibbs energy.
Exit 1 / WRONG when a value is below the thermodynamic minimum of its direction."""
import sys
import numpy as np
from pmutt import constants as c
from pmutt.empirical.nasa import Nasa
from pmutt.chemkin import CatSite
from pmutt.reaction import ChemkinReaction, Reaction
from pmutt.omkm.reaction import SurfaceReaction
from pmutt.omkm.phase import InteractingInterface
from pmutt.cantera.phase import IdealGas


def nasa(name, H, S, phase='G', cat_site=None, cp=3.5):
    a = np.array([cp, 0., 0., 0., 0., H, S])
    return Nasa(name=name, T_low=100., T_mid=1000., T_high=3000., a_low=a, a_high=a, phase=phase, cat_site=cat_site)


def chemkin_species():
    site = CatSite(name='RU(S)', site_density=2.5e-9, density=12.1, bulk_specie='RU(B)')
    return {'H2': nasa('H2', 0., 10.), 'RU(S)': nasa('RU(S)', 0., 0., 'S', site, cp=0.),
            'H(S)': nasa('H(S)', -3000., 1., 'S', site, cp=1.)}


def omkm_species():
    sp = chemkin_species()
    gas = IdealGas(name='gas', species=[sp['H2']])
    surf = InteractingInterface(name='terrace', species=[sp['RU(S)'], sp['H(S)']], site_density=2.5e-9)
    sp['H2'].phase = gas
    sp['RU(S)'].phase = surf
    sp['H(S)'].phase = surf
    return sp


T, P = 500., 1.
step = 'H2 + 2RU(S) = 2H(S)'
bad = 0
for cname, make in (('ChemkinReaction', lambda ads: ChemkinReaction.from_string(step, chemkin_species(), is_adsorption=ads)),
                    ('SurfaceReaction', lambda ads: SurfaceReaction.from_string(step, omkm_species(), is_adsorption=ads))):
    for ads in (False, True):
        rxn = make(ads)
        ref = Reaction.from_string(step, chemkin_species())
        for rev in (False, True):
            for X in ('H', 'G'):
                got = getattr(rxn, 'get_%s_act' % X)(units='kcal/mol', T=T, P=P, rev=rev)
                want = max(0., getattr(ref, 'get_delta_' + X)(units='kcal/mol', T=T, P=P, rev=rev))
                ok = np.isclose(got, want, rtol=1e-10, atol=1e-12)
                bad += not ok
                print('%-16s is_adsorption=%-5s rev=%-5s get_%s_act = %9.5f kcal/mol   max(0, delta %s of this direction) '
                      '= %9.5f%s' % (cname, ads, rev, X, got, X, want, '' if ok else '   <-- WRONG'))
if bad:
    print('WRONG: %d activation quantities are not max(0, reaction change in the direction asked for)' % bad)
    sys.exit(1)
print('ok')
