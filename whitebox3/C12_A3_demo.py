"""C12_A3: convert_unit passes a quantity between a molar energy unit and the plain energy unit of the same name
(J/mol <-> J, kJ/mol <-> kJ, cal/mol <-> cal, kcal/mol <-> kcal) instead of refusing it.
Property: "converting between different quantity types is refused" - quantifier "every cross-type pair"
('kJ/mol' is typed energy/amount, 'kJ' is typed energy in type_dict).
Takes the tree from PYTHONPATH; exit 1 and WRONG lines with the change, exit 0 on the original tree."""
import sys
import numpy as np
import pmutt.constants as c

bad = 0
for a, b in (('kJ/mol', 'kJ'), ('kJ', 'kJ/mol'), ('J', 'J/mol'), ('J/mol', 'J'), ('cal/mol', 'cal'), ('kcal', 'kcal/mol')):
    assert c.type_dict[a] != c.type_dict[b]
    for num in (5., -2.5, 0., None, np.array([1., 2.])):
        try:
            got = c.convert_unit(num, a, b)
        except ValueError:
            continue
        bad += 1
        print('WRONG convert_unit(%r, %r, %r) = %r; right: ValueError (types %s and %s)'
              % (num, a, b, got, c.type_dict[a], c.type_dict[b]))
# the representatives the quick tier looks at are still refused
for a, b in (('kJ', 'Eh/molecule'), ('kJ/mol', 'Eh'), ('kJ/mol', 'J')):
    try:
        c.convert_unit(1., a, b)
        raise AssertionError((a, b))
    except ValueError:
        pass
print('%d wrong' % bad)
sys.exit(1 if bad else 0)
