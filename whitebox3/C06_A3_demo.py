"""C06 A3: EAs.inp for a pressure series at one temperature (three runs at 600 K, P = 1, 10, 0.1 atm) and for a
temperature series.  Every EA/RT value written must be the value the reaction's method gives at the conditions of
that run.
Run: cd <tree> && PYTHONPATH=<tree> python C06_A3_demo.py   (exit 0 / OK on the original tree, exit 1 / WRONG with the change)"""
import sys
import warnings
from pmutt.empirical.nasa import Nasa
from pmutt.chemkin import CatSite
from pmutt.reaction import ChemkinReaction
from pmutt.io import chemkin as ck

warnings.simplefilter('ignore')


def nasa(name, phase, elements, h, s, cat_site=None, n_sites=None):
    a = [4., 0., 0., 0., 0., h, s]
    return Nasa(name=name, T_low=200., T_mid=1000., T_high=3000., a_low=a, a_high=a, phase=phase,
                elements=elements, cat_site=cat_site, n_sites=n_sites)


terr = CatSite(name='PT_TERRACE', site_density=2.1671e-09, density=21.45, bulk_specie='PT(B)')
sp = {s.name: s for s in [
    nasa('H2', 'G', {'H': 2}, -1000., 15.), nasa('H2O', 'G', {'H': 2, 'O': 1}, -30000., 22.),
    nasa('H(S)', 'S', {'H': 1, 'PT': 1}, -2500., 1., terr, 1),
    nasa('OH(S)', 'S', {'O': 1, 'H': 1, 'PT': 1}, -20000., 2., terr, 1),
    nasa('PT(S)', 'S', {'PT': 1}, 0., 0., terr, 1),
    nasa('TS1', 'S', {'O': 1, 'H': 2, 'PT': 2}, -24000., 9., terr, 2)]}
rx = [ChemkinReaction.from_string('H2+2PT(S)=2H(S)', sp, is_adsorption=True, sticking_coeff=0.3, beta=0),
      # Eley-Rideal type step: a gas species among the reactants of a surface reaction
      ChemkinReaction.from_string('H2O+PT(S)+H(S)=TS1=OH(S)+H2+PT(S)', sp)]
bad = False
for label, conds in (('pressure series at 600 K', [{'T': 600., 'P': 1.}, {'T': 600., 'P': 10.}, {'T': 600., 'P': 0.1}]),
                     ('temperature series at 1 atm', [{'T': 500., 'P': 1.}, {'T': 600., 'P': 1.}, {'T': 700., 'P': 1.}])):
    txt = ck.write_EA(reactions=rx, conditions=conds, act_method_name='get_GoRT_act', ads_act_method='get_GoRT_act',
                      float_format=' .6E')
    lines = [l for l in txt.split('\n') if '=' in l and not l.startswith('!')]
    print(label)
    for r, line in zip(rx, lines):
        got = [float(x) for x in line.split()[1:]]
        want = [r.get_GoRT_act(**c_) for c_ in conds]
        ok = len(got) == len(want) and all(abs(a - b) <= 1e-6 * max(1., abs(b)) for a, b in zip(got, want))
        print('   %-28s written %s' % (line.split()[0], ' '.join('% .6E' % x for x in got)))
        print('   %-28s model   %s   %s' % ('', ' '.join('% .6E' % x for x in want), 'ok' if ok else 'WRONG'))
        bad = bad or not ok
print('WRONG' if bad else 'OK')
sys.exit(1 if bad else 0)
