"""C09 / B3 (equivalence): get_A of ChemkinReaction and SurfaceReaction for steps with 0-4 surface reactant molecules on
one, two or three different sites, gas species first / in the middle / last, a bulk reactant, all four site-density
operations, with and without transition state, include_entropy on/off, both directions, several unit systems.
Every factor is compared BIT FOR BIT (==) with (kB/h [* q ratio]) / op(list of site densities, one per molecule)^(n-1)
computed by hand with the list the loop used to build; the digest is the same on both trees.  Exit 0 on both trees."""
import hashlib
import itertools
import sys
import numpy as np
from pmutt import constants as c
from pmutt.empirical.nasa import Nasa
from pmutt.chemkin import CatSite
from pmutt.reaction import ChemkinReaction, Reaction
from pmutt.omkm.reaction import SurfaceReaction
from pmutt.omkm.phase import InteractingInterface, StoichSolid
from pmutt.omkm.units import Units
from pmutt.cantera.phase import IdealGas


def nasa(name, H, S, phase='G', cat_site=None, cp=3.5):
    a = np.array([cp, 0., 0., 0., 0., H, S])
    return Nasa(name=name, T_low=100., T_mid=1000., T_high=3000., a_low=a, a_high=a, phase=phase, cat_site=cat_site)


DENS = {'RU': 2.5e-9, 'PT': 1.0e-9, 'NI': 3.1e-9}


def chemkin_species():
    site = {k: CatSite(name=k + '(S)', site_density=v, density=12.1, bulk_specie=k + '(B)') for k, v in DENS.items()}
    return {'H2': nasa('H2', 0., 10.), 'O2': nasa('O2', 0., 14.),
            'RU(S)': nasa('RU(S)', 0., 0., 'S', site['RU'], cp=0.), 'RU(B)': nasa('RU(B)', 0., 0., 'S', site['RU'], cp=0.),
            'PT(S)': nasa('PT(S)', 0., 0., 'S', site['PT'], cp=0.),
            'H(S)': nasa('H(S)', -3000., 1., 'S', site['RU'], cp=1.), 'O(S)': nasa('O(S)', -9000., 2., 'S', site['PT'], cp=1.5),
            'N(S)': nasa('N(S)', -500., 2., 'S', site['NI'], cp=1.5),
            'OH(S)': nasa('OH(S)', -11000., 3., 'S', site['PT'], cp=2.), 'TS(S)': nasa('TS(S)', 2000., 6., 'S', site['RU'], cp=2.5)}


SITE_OF = {'RU(S)': 'RU', 'PT(S)': 'PT', 'H(S)': 'RU', 'O(S)': 'PT', 'N(S)': 'NI', 'OH(S)': 'PT', 'TS(S)': 'RU'}


def omkm_species():
    sp = chemkin_species()
    gas = IdealGas(name='gas', species=[sp['H2'], sp['O2']])
    bulk = StoichSolid(name='bulk', species=[sp['RU(B)']])
    ifc = {k: InteractingInterface(name=k, species=[], site_density=v) for k, v in DENS.items()}
    for k, v in sp.items():
        v.phase = gas if k in ('H2', 'O2') else bulk if k == 'RU(B)' else ifc[SITE_OF[k]]
    return sp


STEPS = (('H2 + O2 = 2OH(S)', []), ('OH(S) = OH(S)', ['PT']), ('H2 + 2RU(S) = 2H(S)', ['RU', 'RU']),
         ('2RU(S) + H2 = 2H(S)', ['RU', 'RU']), ('H(S) + O(S) = OH(S) + RU(S)', ['RU', 'PT']),
         ('O(S) + H2 + RU(S) = OH(S) + H(S)', ['PT', 'RU']), ('2H(S) + O(S) = H2 + O(S) + 2RU(S)', ['RU', 'RU', 'PT']),
         ('N(S) + H2 + 2O(S) + H(S) = N(S) + 2OH(S) + RU(S)', ['NI', 'PT', 'PT', 'RU']),
         ('2H(S) + RU(B) = H2 + RU(S)', ['RU', 'RU']),
         ('H2 + 2RU(S) = TS(S) + RU(S) = 2H(S)', ['RU', 'RU']), ('H(S) + O(S) = TS(S) + PT(S) = OH(S) + RU(S)', ['RU', 'PT']))
OPS = {'sum': np.sum, 'min': np.min, 'max': np.max, 'mean': np.mean}
kb_h = c.kb('J/K') / c.h('J s')
out, bad = [], 0
for (step, sites), op, T in itertools.product(STEPS, OPS, (300., 500.)):
    dens = [DENS[s] for s in sites]
    # ---- Chemkin
    rxn = ChemkinReaction.from_string(step, chemkin_species())
    ref = Reaction.from_string(step, chemkin_species())
    for ent, rev in itertools.product((True, False), (False, True)):
        got = rxn.get_A(T=T, sden_operation=op, include_entropy=ent, rev=rev) if rxn.transition_state is not None \
            else rxn.get_A(T=T, sden_operation=op, include_entropy=ent)
        A = kb_h if (rxn.transition_state is None or not ent) else ref.get_A(T=T, rev=rev) / T
        if dens:
            A = A / OPS[op](dens) ** (float(len(dens)) - 1)
        bad += not (got == A)
        out.append(got)
    # ---- OpenMKM (needs a site density)
    if not dens or 'RU(B)' in step:
        continue
    for units in ('molec/cm2', 'mol/m2', Units(quantity='molec', length='m')):
        rxn = SurfaceReaction.from_string(step, omkm_species())
        got = rxn.get_A(T=T, sden_operation=op, include_entropy=False, units=units)
        qu, au = (units.quantity, units.length + '2') if isinstance(units, Units) else units.split('/')
        eff = OPS[op](dens) * c.convert_unit(initial='mol', final=qu) / c.convert_unit(initial='cm2', final=au)
        want = kb_h / eff ** (float(len(dens)) - 1)
        bad += not (got == want)
        out.append(got)
print('%d factors, %d differ bitwise from the hand-computed value' % (len(out), bad))
print('digest', hashlib.sha256(np.array(out, dtype=float).tobytes()).hexdigest())
sys.exit(1 if bad else 0)
