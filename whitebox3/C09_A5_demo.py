"""C09 / A5: the activation Gibbs energy of EVERY reaction of a mechanism.  surf.inp / EAs.inp are written by asking each
ChemkinReaction of the mechanism for get_G_act at the same (T, P): each must get R T max(0, dG_act, dG) of ITS OWN
species.  Exit 1 / WRONG when a reaction returns the value of another reaction that was asked before."""
import sys
import numpy as np
from pmutt import constants as c
from pmutt.empirical.nasa import Nasa
from pmutt.chemkin import CatSite
from pmutt.reaction import ChemkinReaction, Reaction


def nasa(name, H, S, phase='G', cat_site=None, cp=3.5):
    a = np.array([cp, 0., 0., 0., 0., H, S])
    return Nasa(name=name, T_low=100., T_mid=1000., T_high=3000., a_low=a, a_high=a, phase=phase, cat_site=cat_site)


site = CatSite(name='RU(S)', site_density=2.5e-9, density=12.1, bulk_specie='RU(B)')
sp = {'H2': nasa('H2', 0., 10.), 'O2': nasa('O2', 0., 14.), 'RU(S)': nasa('RU(S)', 0., 0., 'S', site, cp=0.),
      'H(S)': nasa('H(S)', -3000., 1., 'S', site, cp=1.), 'O(S)': nasa('O(S)', -9000., 2., 'S', site, cp=1.5),
      'OH(S)': nasa('OH(S)', -11000., 3., 'S', site, cp=2.),
      'TS1(S)': nasa('TS1(S)', 2000., 6., 'S', site, cp=2.5), 'TS2(S)': nasa('TS2(S)', 1000., 9., 'S', site, cp=3.),
      'TS3(S)': nasa('TS3(S)', -6000., 4., 'S', site, cp=3.)}
steps = ['H2 + 2RU(S) = TS1(S) + RU(S) = 2H(S)', 'O2 + 2RU(S) = TS2(S) + RU(S) = 2O(S)',
         'H(S) + O(S) = TS3(S) + RU(S) = OH(S) + RU(S)']
T, P, units = 500., 1., 'kcal/mol'
RT = c.R('kcal/mol/K') * T
bad = 0
mechanism = [ChemkinReaction.from_string(s, sp) for s in steps]
for rev in (False, True):
    for s, rxn in zip(steps, mechanism):
        got = rxn.get_G_act(units=units, T=T, P=P, rev=rev)
        ref = Reaction.from_string(s, sp)        # base class: plain state differences, nothing kept anywhere
        want = RT * max(0., ref.get_delta_GoRT(T=T, P=P, rev=rev, act=True), ref.get_delta_GoRT(T=T, P=P, rev=rev))
        ok = np.isclose(got, want, rtol=1e-10, atol=1e-12)
        bad += not ok
        print('%-42s rev=%-5s get_G_act = %10.5f kcal/mol   R T max(0, dG_act, dG) of this reaction = %10.5f%s'
              % (s, rev, got, want, '' if ok else '   <-- WRONG'))
if bad:
    print('WRONG: %d activation Gibbs energies are those of another reaction of the mechanism' % bad)
    sys.exit(1)
print('ok')
