"""C12_A1: convert_unit scales a copy of an array argument in place (``result = num.copy(); result *= factor``).
numpy refuses to store the float64 product back into an integer array (casting rule 'same_kind'), so every integer
array in a non-temperature conversion raises UFuncTypeError; float arrays and plain numbers are unaffected.
Property: "converting within a quantity type is ... proportional" over "arbitrary numeric arguments" (an integer grid
np.array([1, 2, 3]) / np.arange(...) is an everyday argument - the checker has an 'int array' instance for it).
Takes the tree from PYTHONPATH; exit 1 and WRONG lines with the change, exit 0 on the original tree."""
import sys
import numpy as np
import pmutt.constants as c

bad = 0
cases = [(np.array([1, 2, 3]), 'kJ', 'J', [1000., 2000., 3000.]),
         (np.arange(1, 4), 'J', 'kcal', [0.000239006, 0.000478012, 0.000717018]),
         (np.array([100, 200]), 'kPa', 'atm', [0.986923, 1.973846]),
         (np.array([10, 20, 30]), 'cm', 'm', [0.1, 0.2, 0.3]),
         (np.array([[1, 2], [3, 4]]), 'hr', 'min', [[60., 120.], [180., 240.]])]
for arr, a, b, want in cases:
    try:
        got = c.convert_unit(arr, a, b)
        ok = np.allclose(got, want, rtol=1e-12)
        print('%s convert_unit(%r, %r, %r) = %r' % ('right' if ok else 'WRONG', arr.tolist(), a, b, np.asarray(got).tolist()))
    except Exception as e:        # noqa
        ok = False
        print('WRONG convert_unit(%r, %r, %r) raises %s: %s (right: %r)' % (arr.tolist(), a, b, type(e).__name__, e, want))
    bad += not ok
# the instances the suite and the checker's float instances look at stay right
assert np.allclose(c.convert_unit(np.array([1., 2., 3.]), 'kJ', 'J'), [1000., 2000., 3000.])
assert c.convert_unit(5, 'kJ', 'J') == 5000.
print('%d wrong' % bad)
sys.exit(1 if bad else 0)
