"""C16_A3 demo: two species models that use the same species names (the same network described by two sets of NASA-7
polynomials, e.g. two levels of theory), one Equilibrium object for each, in one process.

Takes pMuTT from PYTHONPATH.  Each returned composition must minimise the Gibbs energy computed from THE MODEL OF ITS OWN
OBJECT: for species with x > 1e-6 the chemical potentials mu_i = g_i(T) + ln(x_i P 1.01325 / n), g_i from that model,
must lie in the span of the element columns.  WRONG (exit 1): distance > 1e-3 and nothing signalled."""
import os
import sys
import warnings

import numpy as np

import pmutt
from pmutt.empirical.nasa import Nasa
from pmutt.equilibrium import Equilibrium
from pmutt.io.thermdat import read_thermdat

THERMDAT = os.path.join(os.path.dirname(pmutt.__file__), 'tests', 'equilibrium', 'thermdat_equilibrium_unittest.txt')


def residual(eq, r, T, P):
    x = r.moles
    n = x.sum()
    g = np.array([eq.model[s].get_GoRT(T=T) for s in eq.species])
    keep = x / n > 1e-6
    mu = g[keep] + np.log(x[keep] * P * 1.01325 / n)
    A = eq.mol_elem[keep]
    lam = np.linalg.lstsq(A, mu, rcond=None)[0]
    return np.abs(mu - A.dot(lam)).max()


def shifted(sp, dH_over_R):
    """the same species with its enthalpy of formation moved by dH_over_R kelvin (a6 of both NASA-7 ranges)"""
    a_low, a_high = np.array(sp.a_low, dtype=float), np.array(sp.a_high, dtype=float)
    a_low[5] += dH_over_R
    a_high[5] += dH_over_R
    return Nasa(name=sp.name, T_low=sp.T_low, T_mid=sp.T_mid, T_high=sp.T_high, a_low=a_low, a_high=a_high,
                elements=dict(sp.elements), phase=sp.phase)


def main():
    model_a = read_thermdat(THERMDAT, 'dict')
    # second parametrisation: CO2 more stable by 5000 K * R = 41.6 kJ/mol, CH4 less stable by 2000 K * R
    model_b = dict(model_a)
    model_b['CO2'] = shifted(model_a['CO2'], -5000.)
    model_b['CH4'] = shifted(model_a['CH4'], +2000.)
    network = {'CH4': 1.0, 'H2O': 2.0, 'CO': 0.0, 'H2': 0.0, 'CO2': 0.0}
    T, P = 900., 1.
    wrong = 0
    out = []
    for tag, model in (('model A', model_a), ('model B', model_b), ('model A again', model_a)):
        eq = Equilibrium(model, dict(network))
        with warnings.catch_warnings(record=True) as w:
            warnings.simplefilter('always')
            with np.errstate(all='ignore'):
                r = eq.get_net_comp(T=T, P=P)
        signalled = any('did not converge' in str(x.message) for x in w)
        d = residual(eq, r, T, P)
        bad = d > 1e-3 and not signalled
        wrong += bad
        out.append(r.moles)
        print('%s%s, T=%g K P=%g atm: moles CH4 %.5f H2O %.5f CO %.5f H2 %.5f CO2 %.5f; max |deltaG/RT + ln Q| with the '
              'Gibbs energies of this model = %.2g, signalled=%s' % ('WRONG: ' if bad else '', tag, T, P, *r.moles, d, signalled))
    if np.allclose(out[0], out[1], rtol=1e-6):
        print('the compositions for model A and model B are the same although CO2 and CH4 differ by 5.6 and 2.2 in G/RT')
    return 1 if wrong else 0


if __name__ == '__main__':
    sys.exit(main())
