"""C20 A3 - "unit sanity" asserts in vanDerWaalsEOS.__init__ (a < 10 Pa m6/mol2, b < 5e-4 m3/mol) cut into the critical
points of the quantifier (Tc 5-1000 K, Pc 1-300 bar): heavy hydrocarbons cannot be built from their critical constants.
Tree is taken from PYTHONPATH.  Exit 1 / WRONG with the change, exit 0 without."""
import sys

from pmutt import constants as c
from pmutt.eos import vanDerWaalsEOS

# (Tc / K, Pc / bar), all inside Tc 5-1000 K, Pc 1-300 bar
crit = {'He': (5.1953, 2.2746), 'CO2': (304.13, 73.77), 'H2O': (647.1, 220.64), 'n-hexane': (507.6, 30.25),
        'n-dodecane': (658.1, 18.2), 'n-hexadecane': (722., 14.), 'n-eicosane': (768., 10.7),
        'corner Tc=1000 Pc=1': (1000., 1.), 'corner Tc=5 Pc=300': (5., 300.)}
bad = 0
for name, (Tc, Pc) in crit.items():
    try:
        eos = vanDerWaalsEOS.from_critical(Tc=Tc, Pc=Pc)
        gTc, gPc, gVc = eos.get_Tc(), eos.get_Pc(), eos.get_Vc(n=2.)
        ok = abs(gTc / Tc - 1.) < 1e-12 and abs(gPc / Pc - 1.) < 1e-12 and abs(gVc / (3. * 2. * eos.b) - 1.) < 1e-12
        print('%s %-20s Tc=%g Pc=%g -> a=%.4g b=%.4g, get_Tc=%.10g get_Pc=%.10g Vc/(3nb)=%.12g'
              % ('right' if ok else 'WRONG', name, Tc, Pc, eos.a, eos.b, gTc, gPc, gVc / (6. * eos.b)))
    except Exception as e:          # noqa
        ok = False
        R = c.R('J/mol/K')
        print('WRONG %-20s Tc=%g Pc=%g (a=%.4g b=%.4g): %s: %s'
              % (name, Tc, Pc, 27. / 64. * (R * Tc)**2 / (Pc * 1e5), R * Tc / 8. / (Pc * 1e5), type(e).__name__, e))
    bad += not ok
print('%d wrong' % bad)
sys.exit(1 if bad else 0)
