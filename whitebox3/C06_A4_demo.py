"""C06 A4: a mechanism whose species went through pMuTT's own JSON files (every species then carries its own copy of its
catalyst site, equal to the others but not the same object) is written to surf.inp.  Every catalyst site must have
exactly one SITE line (with all its adsorbates under it) and one BULK line.
Run: cd <tree> && PYTHONPATH=<tree> python C06_A4_demo.py   (exit 0 / OK on the original tree, exit 1 / WRONG with the change)"""
import json
import sys
import warnings
from pmutt.empirical.nasa import Nasa
from pmutt.chemkin import CatSite
from pmutt.reaction import ChemkinReaction, Reactions
from pmutt.io import chemkin as ck
from pmutt.io.json import pmuttEncoder, json_to_pmutt

warnings.simplefilter('ignore')


def nasa(name, phase, elements, h, s, cat_site=None, n_sites=None):
    a = [4., 0., 0., 0., 0., h, s]
    return Nasa(name=name, T_low=200., T_mid=1000., T_high=3000., a_low=a, a_high=a, phase=phase,
                elements=elements, cat_site=cat_site, n_sites=n_sites)


terr = CatSite(name='PT_TERRACE', site_density=2.1671e-09, density=21.45, bulk_specie='PT(B)')
step = CatSite(name='PT_STEP', site_density=4.4385e-10, density=21.45, bulk_specie='PT(B2)')
species = [nasa('H2', 'G', {'H': 2}, -1000., 10.),
           nasa('H(S)', 'S', {'H': 1, 'PT': 1}, -4000., 1., terr, 1),
           nasa('PT(S)', 'S', {'PT': 1}, 0., 0., terr, 1),
           nasa('O(S)', 'S', {'O': 1, 'PT': 1}, -14000., 1.5, terr, 1),
           nasa('OH(S)', 'S', {'O': 1, 'H': 1, 'PT': 1}, -20000., 2., terr, 1),
           nasa('H(T)', 'S', {'H': 1, 'PT': 1}, -4500., 1.1, step, 1),
           nasa('PT(T)', 'S', {'PT': 1}, 0., 0., step, 1)]
eqs = ['H2+2PT(S)=2H(S)', 'H(S)+PT(T)=H(T)+PT(S)', 'H(S)+O(S)=OH(S)+PT(S)']
bad = False
for label, sps in (('species as built (shared site objects)', species),
                   ('species saved to and loaded from JSON', json.loads(json.dumps(species, cls=pmuttEncoder),
                                                                         object_hook=json_to_pmutt))):
    sp = {s.name: s for s in sps}
    rx = [ChemkinReaction.from_string(e, sp, is_adsorption=(i == 0)) for i, e in enumerate(eqs)]
    txt = ck.write_surf(reactions=Reactions(rx), T=500., P=1., act_method_name='get_G_act')
    lines = txt.split('\n')
    site = {s.name: sum(1 for l in lines if l.startswith('SITE/%s/' % s.name)) for s in (terr, step)}
    bulk = {s.bulk_specie: sum(1 for l in lines if l.startswith('BULK %s/' % s.bulk_specie)) for s in (terr, step)}
    ok = set(site.values()) == {1} and set(bulk.values()) == {1}
    print('%s:\n   SITE lines per site %s, BULK lines per bulk species %s   %s' % (label, site, bulk, 'ok' if ok else 'WRONG'))
    if not ok:
        print('\n'.join('      ' + l for l in lines if l.startswith(('SITE', 'BULK', '  '))))
    bad = bad or not ok
print('WRONG' if bad else 'OK')
sys.exit(1 if bad else 0)
