"""C08 A2: a block addressed to one species that overrides a condition which is also given for all species.

H2 + 0.5 O2 = [H2O_TS] = H2O, StatMech species of the test-suite; shared T=500 K, P=1 bar; H2 at 2 bar
(H2_kwargs={'P': 2.}) - and a block with another temperature for the transition state.  The block must change the
contribution of the species it names and of no other; the change is final minus initial, K = exp(-delta G/RT).
A call in which the block brings a condition that is *not* among the shared ones (the example of the class docstring:
T shared, every pressure in a block) is evaluated as a control.
"""
import sys
import numpy as np
from ase.build import molecule
from pmutt.statmech import StatMech, presets
from pmutt.reaction import Reaction, ChemkinReaction
from pmutt.omkm.reaction import SurfaceReaction

ig = presets['idealgas']
H2O = StatMech(name='H2O', atoms=molecule('H2O'), symmetrynumber=2, vib_wavenumbers=[3825.434, 3710.2642, 1582.432],
               potentialenergy=-6.7598, spin=0., **ig)
H2 = StatMech(name='H2', atoms=molecule('H2'), symmetrynumber=2, vib_wavenumbers=[4306.1793],
              potentialenergy=-14.2209, spin=0., **ig)
O2 = StatMech(name='O2', atoms=molecule('O2'), symmetrynumber=2, vib_wavenumbers=[2205.], potentialenergy=-9.862407,
              spin=1., **ig)
TS = StatMech(name='H2O_TS', atoms=molecule('H2O'), symmetrynumber=1., vib_wavenumbers=[4000., 3900., 1600.],
              potentialenergy=-5.7598, spin=0., **ig)
for sp in (H2O, H2, O2, TS):
    sp.phase = 'G'
    sp.cat_site = None

T, P = 500., 1.
bad = 0


def report(label, got, want):
    global bad
    if isinstance(got, Exception):
        bad += 1
        print('WRONG %s: raised %s: %s  (right value %.6f)' % (label, type(got).__name__, got, want))
    elif not np.isclose(got, want, rtol=1e-10, atol=1e-10):
        bad += 1
        print('WRONG %s: got %.6f, right value %.6f' % (label, got, want))


def call(fn, **kw):
    try:
        return fn(**kw)
    except Exception as e:          # the getter must return a value
        return e


for cls in (Reaction, ChemkinReaction, SurfaceReaction):
    rxn = cls(reactants=[H2, O2], reactants_stoich=[1., 0.5], products=[H2O], products_stoich=[1.],
              transition_state=[TS], transition_state_stoich=[1.])
    n = cls.__name__
    # H2 at 2 bar, everybody else at the shared pressure
    g = {'H2': H2.get_GoRT(T=T, P=2.), 'O2': O2.get_GoRT(T=T, P=P), 'H2O': H2O.get_GoRT(T=T, P=P),
         'TS': TS.get_GoRT(T=T, P=P)}
    s = {'H2': H2.get_SoR(T=T, P=2.), 'O2': O2.get_SoR(T=T, P=P), 'H2O': H2O.get_SoR(T=T, P=P)}
    blk = {'H2_kwargs': {'P': 2.}}
    report(n + ".get_GoRT_state('reactants', T, P, H2_kwargs={'P': 2})",
           call(rxn.get_GoRT_state, state='reactants', T=T, P=P, **blk), g['H2'] + 0.5 * g['O2'])
    report(n + ".get_delta_GoRT(T, P, H2_kwargs={'P': 2})",
           call(rxn.get_delta_GoRT, T=T, P=P, **blk), g['H2O'] - g['H2'] - 0.5 * g['O2'])
    report(n + ".get_delta_SoR(T, P, H2_kwargs={'P': 2})",
           call(rxn.get_delta_SoR, T=T, P=P, **blk), s['H2O'] - s['H2'] - 0.5 * s['O2'])
    report(n + ".get_delta_GoRT(rev, act, T, P, H2_kwargs)",
           call(rxn.get_delta_GoRT, rev=False, act=True, T=T, P=P, **blk), g['TS'] - g['H2'] - 0.5 * g['O2'])
    K = call(rxn.get_Keq, T=T, P=P, **blk)
    report(n + ".get_Keq(T, P, H2_kwargs): ln K", K if isinstance(K, Exception) else np.log(K),
           -(g['H2O'] - g['H2'] - 0.5 * g['O2']))
    # the transition state at its own temperature
    gts = TS.get_GoRT(T=650., P=P)
    report(n + ".get_delta_GoRT(act, T, P, H2O_TS_kwargs={'T': 650})",
           call(rxn.get_delta_GoRT, act=True, T=T, P=P, H2O_TS_kwargs={'T': 650.}),
           gts - H2.get_GoRT(T=T, P=P) - 0.5 * g['O2'])
    # control: the block brings a condition nobody else was given (class docstring)
    want = H2O.get_GoRT(T=T, P=1.) - H2.get_GoRT(T=T, P=2.) - 0.5 * O2.get_GoRT(T=T, P=1.)
    report(n + ".get_delta_GoRT(T, H2_kwargs={'P': 2}, O2_kwargs={'P': 1}, H2O_kwargs={'P': 1})",
           call(rxn.get_delta_GoRT, T=T, H2_kwargs={'P': 2.}, O2_kwargs={'P': 1.}, H2O_kwargs={'P': 1.}), want)
print('violations: %d' % bad)
sys.exit(1 if bad else 0)
