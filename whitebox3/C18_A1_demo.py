"""C18 A1: the list form of _get_omkm_range is read from a generator that str.join has already exhausted.
Exit 1 / WRONG when the list form does not denote the identifiers given, exit 0 otherwise."""
import sys

from pmutt.cantera import _get_omkm_range
from pmutt.omkm.reaction import BEP


class WithId:
    def __init__(self, id):
        self.id = id


def expand(entries):
    out = []
    for e in entries:
        ends = e.strip('"').split(' to ')
        if len(ends) == 1:
            out.append(ends[0])
        else:
            (h, s, a), (_, _, b) = ends[0].rpartition('_'), ends[1].rpartition('_')
            out.extend('%s%s%04d' % (h, s, k) for k in range(int(a), int(b) + 1))
    return out


bad = 0
for ids in (['r_0001', 'r_0002', 'r_0004', 's_0001'],
            ['s_0007', 'r_0002', 's_0008', 'r_0001', 'r_0004'],
            ['a_b_0002', 'a_b_0001', 'a_c_0001', 'a_b_0004', 'a_0003'],
            ['0003', '0001', '0002', '0007'],
            ['r_9998', 'r_9999', 'r_10000', 'r_10001']):
    for objs in (ids, [WithId(i) for i in ids], tuple(ids)):
        text = _get_omkm_range(objs)
        lst = _get_omkm_range(objs, None, '_', 'list')
        ok = isinstance(lst, list) and set(expand(lst)) == set(ids)
        print('%-5s ids=%s\n      string form %s\n      list form   %r' % ('ok' if ok else 'WRONG', ids, text, lst))
        bad += not ok
# the caller that uses the list form
bep = BEP(name='bep', slope=0.5, intercept=20., direction='cleavage',
          synthesis_reactions=['r_0001', 'r_0002', 'r_0004'], cleavage_reactions=[WithId('c_0007')])
y = bep.to_omkm_yaml(act_energy_unit='kcal/mol')
ok = y.get('synthesis-reactions') == ['"r_0001 to r_0002"', '"r_0004"'] and y.get('cleavage-reactions') == ['"c_0007"']
print('%-5s BEP.to_omkm_yaml: synthesis-reactions=%r cleavage-reactions=%r'
      % ('ok' if ok else 'WRONG', y.get('synthesis-reactions'), y.get('cleavage-reactions')))
bad += not ok
print('WRONG: %d results' % bad if bad else 'all right')
sys.exit(1 if bad else 0)
