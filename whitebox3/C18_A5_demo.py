"""C18 A5: obj_to_cti(obj, line_len, max_line_len) called with positional widths, as the property writes it.
Exit 1 / WRONG when the first line is longer than the requested first-line width although it holds several tokens."""
import sys

from pmutt.io.cantera import obj_to_cti

bad = 0
species = ['SPECIES%02d(S)' % k for k in range(12)]
for toks, line_len, max_line_len in ((species, 40, 60), (species, 30, 100), (['ab'] * 40, 50, 80), (species, 60, 60)):
    for obj in (toks, tuple(toks), ' '.join(toks)):
        text = obj_to_cti(obj, line_len, max_line_len)
        assert text.strip('"').split() == toks, 'tokens changed'
        lines = text.split('\n')
        too_long = [(k, len(l)) for k, l in enumerate(lines)
                    if len(l) > (line_len if k == 0 else max_line_len) and len(l.split()) > 1]
        print('%-5s obj_to_cti(<%d tokens as %s>, %d, %d): line lengths %s%s'
              % ('WRONG' if too_long else 'ok', len(toks), type(obj).__name__, line_len, max_line_len,
                 [len(l) for l in lines][:6],
                 ''.join('; line %d has %d characters' % x for x in too_long[:2])))
        bad += bool(too_long)
print('WRONG: %d results' % bad if bad else 'all right')
sys.exit(1 if bad else 0)
