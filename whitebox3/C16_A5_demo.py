"""C16_A5 demo: a network on which SLSQP gives up at once; plain interpreter, no filter added by the caller
(`catch_warnings(record=True)` only collects what would have been shown).

Takes pMuTT from PYTHONPATH.  WRONG (exit 1): the returned amounts do not conserve the atoms of the feed and neither a
warning nor an exception reached the caller."""
import os
import sys
import warnings

import numpy as np

import pmutt
from pmutt.equilibrium import Equilibrium
from pmutt.io.thermdat import read_thermdat

THERMDAT = os.path.join(os.path.dirname(pmutt.__file__), 'tests', 'equilibrium', 'thermdat_equilibrium_unittest.txt')


def main():
    model = read_thermdat(THERMDAT, 'dict')
    wrong = 0
    for network, T, P in [({'CH2CHCH3': 1.0, 'CH2CH2': 0.0, 'H2O': 2.0}, 500., 1.),
                          ({'CH2CH2': 2, 'CH2CHCH3': 0, 'CO2': 10}, 1000., 1.)]:
        eq = Equilibrium(model, network)
        with warnings.catch_warnings(record=True) as w:
            try:
                r = eq.get_net_comp(T=T, P=P)
            except Exception as e:
                print('exception', type(e).__name__, '- signalled')
                continue
        signalled = any('did not converge' in str(x.message) for x in w)
        atoms = r.moles.dot(eq.mol_elem)
        err = np.abs(atoms - eq.ele_feed).max() / eq.ele_feed.max()
        bad = err > 1e-6 and not signalled
        wrong += bad
        print('%s%s T=%g K P=%g atm: moles %s, atoms %s of %s against %s in the feed (rel. error %.2g), signalled=%s'
              % ('WRONG: ' if bad else '', network, T, P, r.moles, atoms, [str(e) for e in eq.elements], eq.ele_feed, err,
                 signalled))
    return 1 if wrong else 0


if __name__ == '__main__':
    sys.exit(main())
