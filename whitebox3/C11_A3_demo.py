"""C11_A3: Nasa.to_dict rounds the coefficients to the 9 significant digits of the thermdat format.
Exit 1 / WRONG when decoded coefficients / getter values differ from the original, exit 0 otherwise."""
import json
import sys

import numpy as np

from pmutt.io.json import pmuttEncoder, json_to_pmutt
from pmutt.empirical.nasa import Nasa
from pmutt.statmech import StatMech, presets

# a species whose coefficients come from a fit (full double precision), as Nasa.from_model/from_data produce them
sm = StatMech(name='H2O', elements={'H': 2, 'O': 1}, potentialenergy=-14.2209, spin=0., symmetrynumber=2,
              rot_temperatures=[40.1, 20.9, 13.4], geometry='nonlinear', molecular_weight=18.015,
              vib_wavenumbers=[3825.434, 3710.2642, 1582.432], **presets['idealgas'])
fitted = Nasa.from_model(name='H2O', model=sm, T_low=200., T_high=1100., elements={'H': 2, 'O': 1}, phase='G')
fitted.model = None          # the fit itself is not the subject here
# and one typed in with more digits than thermdat keeps
typed = Nasa(name='X', T_low=200., T_mid=1000., T_high=3500., phase='G', elements={'H': 2},
             a_low=[1. / 3., 2.5e-3 / 7., -1.e-6 / 3., 1.e-9 / 7., -1.e-13 / 3., -1000. / 3., 10. / 7.],
             a_high=[3.0, 1.e-3, -1.e-7, 1.e-11, -1.e-15, -900., 5.])
bad = []
for label, sp in (('fitted', fitted), ('typed', typed)):
    dec = json.loads(json.dumps(sp, cls=pmuttEncoder), object_hook=json_to_pmutt)
    same = np.array_equal(sp.a_low, dec.a_low) and np.array_equal(sp.a_high, dec.a_high)
    g0, g1 = sp.get_GoRT(T=500.), dec.get_GoRT(T=500.)
    print('%s: a_low[0] %r -> %r; coefficients identical: %s; GoRT(500 K) %r -> %r'
          % (label, float(sp.a_low[0]), float(dec.a_low[0]), same, g0, g1))
    if not same or g0 != g1:
        bad.append(label)
if bad:
    print('WRONG: the decoded species does not hold the numbers of the original (%s)' % ', '.join(bad))
    sys.exit(1)
print('OK: Nasa coefficients survive the round trip bit for bit')
