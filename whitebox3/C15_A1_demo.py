"""C15_A1: the filled cells of a row are collected with filter() and looked at twice (blank-row warning, then the
parsing loop).  A filter object is a one-shot iterator: any() takes the first filled cell away, so the first non-empty
cell of EVERY row (usually `name`) never reaches the record.
exit 1 / WRONG with the change, exit 0 without.  Tree from PYTHONPATH."""
import os
import sys
import tempfile
import warnings

import openpyxl

from pmutt.io.excel import read_excel

warnings.simplefilter('ignore')
header = ['name', 'phase', 'element.H', 'element.O', 'potentialenergy', 'vib_wavenumber', 'vib_wavenumber',
          'vib_wavenumber']
comment = ['species', '', '', '', 'eV', 'cm-1', 'cm-1', 'cm-1']
rows = [['H2O', 'G', 2, 1, -14.22, 3657.05, 1594.75, 3755.93],
        ['O2', 'G', None, 2, -9.86, 1580.19, None, None],
        [None, 'S', None, None, -1.5, None, 200.5, 100.25]]
expected = [{'name': 'H2O', 'phase': 'G', 'elements': {'H': 2, 'O': 1}, 'potentialenergy': -14.22,
             'vib_wavenumbers': [3657.05, 1594.75, 3755.93]},
            {'name': 'O2', 'phase': 'G', 'elements': {'O': 2}, 'potentialenergy': -9.86,
             'vib_wavenumbers': [1580.19]},
            {'phase': 'S', 'potentialenergy': -1.5, 'vib_wavenumbers': [200.5, 100.25]}]
with tempfile.TemporaryDirectory() as tmp:
    path = os.path.join(tmp, 'book.xlsx')
    wb = openpyxl.Workbook()
    ws = wb.active
    ws.title = 'species'
    for r in [header, comment] + rows:
        ws.append(r)
    wb.save(path)
    got = read_excel(path, sheet_name='species')
ok = got == expected
for g, e in zip(got, expected):
    print('got     ', g)
    print('expected', e)
print('OK' if ok else 'WRONG: the first filled cell of every row is missing from its record')
sys.exit(0 if ok else 1)
