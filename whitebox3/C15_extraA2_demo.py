"""C15_extraA2: the ordinary column `phase` is special-cased: its text is upper-cased.  Ordinary columns pass through
unchanged (apart from trimming): 'g', 'gas', 'fcc(111)' must arrive as written.
exit 1 / WRONG with the change, exit 0 without.  Tree from PYTHONPATH."""
import os
import sys
import tempfile
import warnings

import openpyxl

from pmutt.io.excel import read_excel

warnings.simplefilter('ignore')
header = ['name', 'phase', 'potentialenergy']
rows = [['H2O', 'g', -14.22], ['CO(S)', ' fcc(111) ', -16.1], ['N2', 'gas', -16.63], ['O2', 'G', -9.86]]
expected = [{'name': 'H2O', 'phase': 'g', 'potentialenergy': -14.22},
            {'name': 'CO(S)', 'phase': 'fcc(111)', 'potentialenergy': -16.1},
            {'name': 'N2', 'phase': 'gas', 'potentialenergy': -16.63},
            {'name': 'O2', 'phase': 'G', 'potentialenergy': -9.86}]
with tempfile.TemporaryDirectory() as tmp:
    path = os.path.join(tmp, 'book.xlsx')
    wb = openpyxl.Workbook()
    ws = wb.active
    for r in [header, [''] * 3] + rows:
        ws.append(r)
    wb.save(path)
    got = read_excel(path)
ok = got == expected
for g, e in zip(got, expected):
    print('got %-60s expected %s' % (g, e))
print('OK' if ok else 'WRONG: the text of the ordinary column phase is altered')
sys.exit(0 if ok else 1)
