"""C17_A2: intercepts kept in np.array([0] * n) - an int64 buffer whatever the slopes are: every intercept is
truncated towards zero, the pieces do not join.  exit 1 + WRONG with the change, exit 0 on the unchanged tree."""
import sys
from pmutt.mixture.cov import PiecewiseCovEffect

R = 1.9872036e-3
T = 350.
bad = []


def U(m, x):
    return m.get_UoRT(x=x, T=T) * R * T


def ref(pairs, x):
    """continuous piecewise-linear function, 0 at 0, of the (breakpoint, slope) pairs"""
    u, last_b, last_s = 0., 0., None
    for b, s in pairs:
        if b > x:
            break
        if last_s is not None:
            u += last_s * (b - last_b)
        last_b, last_s = b, s
    return u + last_s * (x - last_b)


# float slopes, float breakpoints: the centre of the quantifier
m = PiecewiseCovEffect('A', 'B', [0., 0.5], [1., 2.5])
for x in (0.25, 0.499999, 0.5, 0.7, 1.0):
    got, want = U(m, x), ref([(0., 1.), (0.5, 2.5)], x)
    print('construct [0,.5]/[1,2.5]: U(%g) = %.6f (right %.6f)' % (x, got, want))
    if abs(got - want) > 1e-5:
        bad.append('WRONG: U(%g) = %.6f, right %.6f' % (x, got, want))
jump = U(m, 0.5) - U(m, 0.5 - 1e-9)
if abs(jump) > 1e-6:
    bad.append('WRONG: the energy jumps by %.6f kcal/mol at the breakpoint 0.5 (continuity)' % jump)
# after edits
m = PiecewiseCovEffect('A', 'B', [0., 0.3, 0.6], [0.4, 7.3, -2.2])
m.insert(0.45, 12.9)
m.pop(1)
pairs = [(0., 0.4), (0.45, 12.9), (0.6, -2.2)]
for x in (0.2, 0.5, 0.6, 0.9):
    got, want = U(m, x), ref(pairs, x)
    print('after insert(0.45,12.9), pop(1): U(%g) = %.6f (right %.6f)' % (x, got, want))
    if abs(got - want) > 1e-9:
        bad.append('WRONG: after insert/pop U(%g) = %.6f, right %.6f' % (x, got, want))
m2 = PiecewiseCovEffect.from_dict(m.to_dict())
if abs(U(m2, 0.9) - ref(pairs, 0.9)) > 1e-9:
    bad.append('WRONG: reloaded copy U(0.9) = %.6f, right %.6f' % (U(m2, 0.9), ref(pairs, 0.9)))
for b in bad:
    print(b)
print('FAIL' if bad else 'OK')
sys.exit(1 if bad else 0)
