"""C18 B5: "delimiter not in obj_id" decides that an identifier has no header, rfind only locates the delimiter."""
# Compares a spread of results (values, or kind and text of the error) with the digest recorded on the original tree.
EXPECTED = "5ceeeefabd13f3cbc50f6f91b2ad47b05073d28fbfe2f345fe4efb2f433e83f4"
import hashlib
import random
import sys

from pmutt.cantera import _get_omkm_range
from pmutt.io.cantera import obj_to_cti
from pmutt.omkm.reaction import BEP


class WithId:
    def __init__(self, id):
        self.id = id

    def __repr__(self):
        return 'WithId(%r)' % (self.id,)


class WithName:
    def __init__(self, name):
        self.name = name

    def __repr__(self):
        return 'WithName(%r)' % (self.name,)


def call(fn, *args, **kwargs):
    try:
        return ('value', fn(*args, **kwargs))
    except Exception as e:      # the kind of error and its text are part of the behaviour
        return ('raises', type(e).__name__, str(e))


def spell(n, canonical):
    return '%04d' % n if canonical or n >= 10000 else str(n)


def collections(rng):
    prefixes = ['r', 'rxn', '', 'a_b', 'site_1', 'lat', 'BEP_cle', 'x_y_z', 'R', 'r2']
    for trial in range(400):
        delim = rng.choice(['_'] * 6 + ['-', '.'])
        pres = rng.sample(prefixes, rng.randint(1, 3))
        n = rng.choice([0, 1, 2, 3, 5, 8, 13, 30, 60])
        base = rng.choice([0, 1, 5, 95, 9990, 9996, 10000, 54321, 99990])
        ids = []
        for _ in range(n):
            p = rng.choice(pres).replace('_', delim)
            k = min(99999, base + rng.randint(0, 12))
            s = spell(k, canonical=trial % 7 != 0)
            ids.append(p + delim + s if p else s)
        if trial % 5 == 0:
            ids = sorted(ids)
        yield delim, ids
    # identifiers that cannot be encoded, and odd ones
    for ids in (['CO-Pt_0001', 'CO-Pt_0002', 'H2O(S)_0004'], ['a.b_0001', 'a.b_0003', ' r_0007'], ['r_0001', 'r_1.5'], ['r_1e3'], ['r_abc'], ['r_'], [''], ['_0001', '0002'], ['r__0003', 'r_0004'],
                ['r_-0002', 'r_0001'], ['r_ 7'], ['r[1]_0001', 'r[1]_0002'], ['a, b_0001', 'a, b_0003']):
        yield '_', ids


def main():
    rng = random.Random(18)
    h = hashlib.sha256()
    n = 0

    def add(x):
        nonlocal n
        n += 1
        h.update(repr(x).encode())

    for delim, ids in collections(rng):
        for wrap in (lambda i: i, WithId, WithName):
            objs = [wrap(i) for i in ids]
            add(call(_get_omkm_range, objs, None, delim))                   # string form
            add(call(_get_omkm_range, objs, None, delim, 'list'))           # list form (fourth parameter)
            add(call(_get_omkm_range, tuple(objs), WithName('parent'), delim))
    add(call(_get_omkm_range, [WithId(5)]))
    add(call(_get_omkm_range, [WithId(None), WithId('r_0001')]))
    add(call(_get_omkm_range, [5, 6]))
    add(call(_get_omkm_range, 'all'))
    add(call(_get_omkm_range, []))
    add(call(_get_omkm_range, [], None, '_', 'list'))
    # the callers: BEP directives in both output forms
    for trial in range(40):
        syn = ['r_%04d' % rng.randint(0, 30) for _ in range(rng.randint(0, 8))]
        cle = [WithId('%s_%04d' % (rng.choice(['r', 'c_d']), rng.randint(9990, 10010))) for _ in range(rng.randint(0, 8))]
        bep = BEP(name='bep_%d' % trial, slope=0.5, intercept=20., direction='cleavage',
                  synthesis_reactions=syn, cleavage_reactions=cle)
        add(call(bep.to_cti, act_energy_unit='kcal/mol'))
        add(call(bep.to_omkm_yaml, act_energy_unit='kcal/mol'))
    # wrapping
    alphabet = 'ABCDEFGHIJKLMNOPQRSTUVWXYZabcdefghijklmnopqrstuvwxyz0123456789()-_:,."\'+*'
    for trial in range(400):
        toks = [''.join(rng.choice(alphabet) for _ in range(rng.randint(1, 30))) for _ in range(rng.randint(0, 80))]
        line_len = rng.randint(30, 100)
        max_line_len = rng.randint(30, 100)
        for obj in (toks, tuple(toks), ' '.join(toks)):
            add(call(obj_to_cti, obj, line_len, max_line_len))
            add(call(obj_to_cti, obj, line_len=min(line_len, max_line_len), max_line_len=max(line_len, max_line_len)))
    # strings with doubled, leading and trailing blanks (empty entries), long entries, the empty string
    for trial in range(300):
        n_ = rng.randint(0, 25)
        parts = []
        for _ in range(n_):
            parts.append(''.join(rng.choice(alphabet) for _ in range(rng.choice([0, 0, 1, 2, 5, 9, 28, 30, 31, 45, 120]))))
        text = ' '.join(parts)
        if trial % 3 == 0:
            text = ' ' * rng.randint(0, 3) + text + ' ' * rng.randint(0, 3)
        for line_len, max_line_len in ((30, 30), (33, 32), (31, 100), (40, 60), (80, 80), (rng.randint(1, 100), rng.randint(1, 100))):
            add(call(obj_to_cti, text, line_len, max_line_len))
            add(call(obj_to_cti, parts, line_len, max_line_len))
    for L in range(-3, 12):
        for text in ('', ' ', 'a', 'a b', 'ab cd ef', '  a  ', 'abcdefghij', 'a ' * 6):
            for M in (-4, 0, 3, 8, 11):
                add(call(obj_to_cti, text, L, M))
    add(call(obj_to_cti, {'H'}))
    add(call(obj_to_cti, set()))
    add(call(obj_to_cti, ['a', 5]))
    add(call(obj_to_cti, None))
    add(call(obj_to_cti, {'a': 1, 'b': 2}))
    add(call(obj_to_cti, 12.5))
    digest = h.hexdigest()
    print('%d results, digest %s' % (n, digest))
    if digest != EXPECTED:
        print('DIFFERENT from the original tree (f5552c6): expected digest %s' % EXPECTED)
        sys.exit(1)
    print('same as the original tree (f5552c6)')
    sys.exit(0)


main()
