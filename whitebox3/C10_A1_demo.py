"""C10_A1: reference species with fractional formula units (FeO1.5, FeO, O2; 3 species x 2 elements, full rank).
After the fit every reference species must come out at its experimental enthalpy when the three are consistent
(here they are: the experimental values are generated from exact offsets), through References.get_HoRT and through
StatMech(references=refs).get_HoRT / get_H.  Exit 1 / WRONG when that fails."""
import sys
import warnings

import numpy as np

from pmutt import constants as c
from pmutt.empirical.references import Reference, References
from pmutt.statmech import StatMech

warnings.simplefilter('ignore')
T0 = c.T0('K')


class Dft:
    """stands for the statistical-mechanical model of a species: H/RT = h0 * T0 / T (constant energy)"""

    def __init__(self, h0):
        self.h0 = h0

    def get_HoRT(self, T):
        return self.h0 * T0 / T

    def get_SoR(self, T):
        return 0.

    def get_CpoR(self, T):
        return 0.


true_offset = {'Fe': -310.25, 'O': -121.5}          # H_dft - H_exp per atom, in RT units
species = {'FeO1.5': {'Fe': 1, 'O': 1.5}, 'FeO': {'Fe': 1, 'O': 1}, 'O2': {'O': 2}}
h_dft = {'FeO1.5': -1520.3, 'FeO': -1130.9, 'O2': -395.1}
h_exp = {n: h_dft[n] - sum(true_offset[e] * k for e, k in comp.items()) for n, comp in species.items()}

refs = References(references=[
    Reference(name=n, elements=dict(comp), T_ref=T0, HoRT_ref=h_exp[n], model=Dft(h_dft[n]))
    for n, comp in species.items()])
print('descriptor matrix:\n', refs.get_descriptors_matrix())
print('offsets:', {k: round(float(v), 6) for k, v in refs.offset.items()}, ' expected', true_offset)

bad = 0
for n, comp in species.items():
    direct = h_dft[n] + refs.get_HoRT(descriptors=comp, T=T0)
    sp = StatMech(name=n, elec_model=Dft(h_dft[n]), elements=dict(comp), references=refs)
    through = sp.get_HoRT(T=T0)
    H = sp.get_H(T=T0, units='kJ/mol')
    H_exp = h_exp[n] * c.R('kJ/mol/K') * T0
    ok = abs(direct - h_exp[n]) < 1e-6 and abs(through - h_exp[n]) < 1e-6 and abs(H - H_exp) < 1e-6
    print('%-7s adjusted H/RT %12.4f (via StatMech %12.4f)  experimental %12.4f   H %10.3f kJ/mol (exp %10.3f)  %s'
          % (n, direct, through, h_exp[n], H, H_exp, 'ok' if ok else 'WRONG'))
    bad += not ok
# linear in the composition, also for a target species with fractional counts
half = refs.get_HoRT(descriptors={'Fe': 0.5, 'O': 0.75}, T=T0)
full = refs.get_HoRT(descriptors={'Fe': 1, 'O': 1.5}, T=T0)
if abs(2 * half - full) > 1e-9 * abs(full):
    print('WRONG: adjustment is not linear in the composition: 2*adj(Fe0.5 O0.75) = %r, adj(Fe O1.5) = %r'
          % (2 * half, full))
    bad += 1
if bad:
    print('WRONG: the references are not reproduced')
    sys.exit(1)
print('all reference species reproduced')
