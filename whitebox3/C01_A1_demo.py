"""C01_A1: the pressure given to a species must reach its translational mode.

ideal-gas entropy falls by R ln(P2/P1) between two pressures; G = H - TS; species total == sum of the verbose list,
and the translational entry of the verbose list == the translational mode asked directly at the same T, P."""
import sys
import numpy as np
from pmutt.statmech import StatMech, presets
from pmutt.statmech.trans import FreeTrans
from pmutt.statmech.vib import HarmonicVib
from pmutt.statmech.rot import RigidRotor
from pmutt.statmech.elec import GroundStateElec
from pmutt import constants as c

bad = 0
def check(ok, msg):
    global bad
    if not ok:
        bad += 1
        print('WRONG:', msg)

def species():
    return StatMech(name='H2O', elements={'H': 2, 'O': 1},
                    trans_model=FreeTrans(n_degrees=3, molecular_weight=18.015),
                    vib_model=HarmonicVib([3825.434, 3710.2642, 1582.432]),
                    rot_model=RigidRotor(symmetrynumber=2, rot_temperatures=[40.1, 20.9, 13.4], geometry='nonlinear'),
                    elec_model=GroundStateElec(potentialenergy=-14.22, spin=0.))

sp = species()
# the usual way of building the same species
sp2 = StatMech(name='H2O', elements={'H': 2, 'O': 1}, molecular_weight=18.015,
               vib_wavenumbers=[3825.434, 3710.2642, 1582.432], symmetrynumber=2,
               rot_temperatures=[40.1, 20.9, 13.4], geometry='nonlinear', potentialenergy=-14.22, spin=0.,
               **presets['idealgas'])
for label, s in (('objects', sp), ('preset', sp2)):
    for T in (200., 298.15, 1000.):
        for P1, P2 in ((1., 10.), (1e-3, 1.), (0.5, 250.)):
            S1 = s.get_SoR(T=T, P=P1)
            S2 = s.get_SoR(T=T, P=P2)
            check(abs((S1 - S2) - np.log(P2 / P1)) < 1e-9,
                  '%s T=%g: S/R(%g bar) - S/R(%g bar) = %.6f, must be ln(P2/P1) = %.6f'
                  % (label, T, P1, P2, S1 - S2, np.log(P2 / P1)))
            # verbose entry of the translational mode == the mode asked directly
            v = s.get_SoR(T=T, P=P2, verbose=True)
            direct = s.trans_model.get_SoR(T=T, P=P2)
            check(abs(v[0] - direct) < 1e-9,
                  '%s T=%g P=%g: translational entry of the verbose list %.6f, the mode itself reports %.6f'
                  % (label, T, P2, v[0], direct))
            G = s.get_GoRT(T=T, P=P2)
            H = s.get_HoRT(T=T, P=P2)
            check(abs(G - (H - S2)) < 1e-9, '%s T=%g P=%g: G/RT %.6f != H/RT - S/R %.6f' % (label, T, P2, G, H - S2))
            # q: translational partition function is kT/P * (...)
            q1 = s.get_q(T=T, P=P1, verbose=True)[0]
            q2 = s.get_q(T=T, P=P2, verbose=True)[0]
            check(abs(q1 / q2 - P2 / P1) < 1e-9 * P2 / P1,
                  '%s T=%g: q_trans(%g bar)/q_trans(%g bar) = %.6g, must be P2/P1 = %.6g' % (label, T, P1, P2, q1 / q2, P2 / P1))
            # with units
            dS = s.get_S(units='J/mol/K', T=T, P=P1) - s.get_S(units='J/mol/K', T=T, P=P2)
            check(abs(dS - c.R('J/mol/K') * np.log(P2 / P1)) < 1e-7,
                  '%s T=%g: S(%g bar) - S(%g bar) = %.5f J/mol/K, must be R ln(P2/P1) = %.5f'
                  % (label, T, P1, P2, dS, c.R('J/mol/K') * np.log(P2 / P1)))
print('%d wrong' % bad)
sys.exit(1 if bad else 0)
