"""C04_B4: StatMech.__init__ assigns its five mode attributes in a loop with setattr instead of five assignment
statements.  Equivalence: the same attributes with the same objects (classes are still instantiated with the same
keyword arguments), same dictionaries, bit-identical thermodynamic values in every unit.  The digest below was
recorded on the pristine tree (f5552c6).  Run with PYTHONPATH=<tree>; exit 0 on both trees."""
import hashlib
import sys
import warnings
import numpy as np
warnings.simplefilter('ignore')
from ase.build import molecule
from pmutt.statmech import StatMech, presets, trans, vib, rot, elec, nucl, EmptyMode

EXPECTED = '0b93554440b4cb16'
out = []
species = [
    StatMech(name='H2O', atoms=molecule('H2O'), symmetrynumber=2, vib_wavenumbers=[3825.434, 3710.2642, 1582.432],
             potentialenergy=-14.22, spin=0, **presets['idealgas']),
    StatMech(name='CO*', elements={'C': 1, 'O': 1}, vib_wavenumbers=[2100., 400., 350., 60.], potentialenergy=-1.8,
             **presets['harmonic']),
    StatMech(name='E', potentialenergy=-3.3, **presets['electronic']),
    StatMech(name='mixed', trans_model=trans.FreeTrans(n_degrees=2, molecular_weight=28.01),
             vib_model=vib.QRRHOVib, vib_wavenumbers=[2100., 90.], rot_model=EmptyMode(),
             elec_model=elec.GroundStateElec(potentialenergy=-2., spin=0.5), elements={'C': 1, 'O': 1}),
    StatMech(name='empty'),
]
for sp in species:
    out.append('%s %r' % (sp.name, [(k, type(v).__name__) for k, v in sorted(vars(sp).items())]))
    out.append(repr(sorted((k, repr(v)) for k, v in sp.to_dict().items())))
    for T in (298.15, 900.):
        for u in ('J/mol/K', 'eV/K', 'L atm/mol/K', 'J/g/K', 'kJ/kg/K'):
            for q, uu in (('Cv', u), ('Cp', u), ('S', u), ('U', u[:-2]), ('H', u[:-2]), ('F', u[:-2]), ('G', u[:-2]), ('E', u[:-2])):
                for kw in ({}, {'P': 7.}, {'verbose': True} if q != 'E' else {'include_ZPE': True}):
                    try:
                        v = getattr(sp, 'get_' + q)(units=uu, T=T, **kw)
                        out.append(np.asarray(v, dtype=float).tobytes().hex())
                    except Exception as e:      # noqa
                        out.append('%s %r' % (type(e).__name__, e.args))
digest = hashlib.sha256('\n'.join(out).encode()).hexdigest()[:16]
print('digest', digest, '(%d values, %d refusals)' % (len(out), sum(not all(ch in '0123456789abcdef' for ch in o) for o in out) - 2 * len(species)))
if EXPECTED != 'PLACEHOLDER' and digest != EXPECTED:
    print('DIFFERENT from the pristine tree (%s)' % EXPECTED)
    sys.exit(1)
sys.exit(0)
