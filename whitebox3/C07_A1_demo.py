"""C07 A1: a surface step whose pre-exponential factor is GIVEN by the user (SurfaceReaction(A=1e13)) must appear in the
CTI file and in the thermo YAML file with exactly that number, in every unit system; only an estimated A (A=None) is
kB/h over the site density.  Run with PYTHONPATH=<tree>."""
import re
import sys
import numpy as np
import yaml
from pmutt.empirical.nasa import Nasa
from pmutt.omkm.phase import InteractingInterface
from pmutt.omkm.reaction import SurfaceReaction
from pmutt.omkm.units import Units
from pmutt.io.omkm import write_cti, write_thermo_yaml


def nasa(name, elements, hf, n_sites=None):
    a = np.array([3.5, 1e-3, 0., 0., 0., hf, 4.0])
    return Nasa(name=name, T_low=200., T_mid=1000., T_high=3000., a_low=a, a_high=a.copy(),
                elements=elements, n_sites=n_sites)


PT_S = nasa('PT(S)', {'Pt': 1}, 0., 1)
H_S = nasa('H(S)', {'H': 1, 'Pt': 1}, -3000., 1)
NH_S = nasa('NH(S)', {'N': 1, 'H': 1, 'Pt': 1}, -4000., 1)
NH2_S = nasa('NH2(S)', {'N': 1, 'H': 2, 'Pt': 1}, -5500., 1)
surf = InteractingInterface(name='terrace', species=[PT_S, H_S, NH_S, NH2_S], site_density=2.5e-9, phases=[])
A_USER = 1.0e13
rxn = SurfaceReaction(reactants=[NH2_S, PT_S], reactants_stoich=[1., 1.], products=[NH_S, H_S],
                      products_stoich=[1., 1.], A=A_USER, Ea=20., beta=0.)

ok = True
for usys in ({'quantity': 'mol', 'length': 'cm'}, {'quantity': 'molec', 'length': 'm'}, {}):
    u = Units(**usys)
    cti = write_cti(reactions=[rxn], units=u, T=500.)
    a_cti = float(re.search(r'\[\s*([-+0-9.eE]+),', cti[cti.index('surface_reaction'):]).group(1))
    text = write_thermo_yaml(reactions=[rxn], units=u, T=500.)
    docs = [d for d in yaml.safe_load_all(text.replace('\n\n-', '\n-')) if d and 'reactions' in d]
    a_yaml = docs[0]['reactions'][0]['rate-constant']['A']
    good = abs(a_cti / A_USER - 1) < 1e-5 and abs(a_yaml / A_USER - 1) < 1e-12
    ok = ok and good
    print('units %-40s CTI A = %.5e   YAML A = %.5e   model A = %.5e   %s'
          % (usys or 'default', a_cti, a_yaml, rxn.A, 'ok' if good else 'WRONG'))
print('OK' if ok else 'WRONG: the files carry a pre-exponential factor the reaction does not have')
sys.exit(0 if ok else 1)
