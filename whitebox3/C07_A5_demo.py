"""C07 A5: the ideal_gas entry of the CTI file lists the species of the phase under species= and the elements they
are made of under elements=.  Run with PYTHONPATH=<tree>."""
import ast
import sys
import numpy as np
from pmutt.empirical.nasa import Nasa
from pmutt.omkm.phase import IdealGas
from pmutt.omkm.units import Units
from pmutt.io.omkm import write_cti


def nasa(name, elements, hf):
    a = np.array([3.5, 1e-3, 0., 0., 0., hf, 4.0])
    return Nasa(name=name, T_low=200., T_mid=1000., T_high=3000., a_low=a, a_high=a.copy(), elements=elements)


sp = [nasa('H2', {'H': 2}, -1000.), nasa('N2', {'N': 2}, -1100.), nasa('NH3', {'N': 1, 'H': 3}, -6000.)]
gas = IdealGas(name='gas', species=sp)
text = write_cti(phases=[gas], species=sp, units=Units())
entry = [n.value for n in ast.parse(text).body if getattr(n.value.func, 'id', '') == 'ideal_gas'][0]
kw = {k.arg: ast.literal_eval(k.value) for k in entry.keywords}
print('ideal_gas(name=%(name)r, elements=%(elements)r, species=%(species)r)' % kw)
ok = kw['species'].split() == ['H2', 'N2', 'NH3'] and sorted(kw['elements'].split()) == ['H', 'N']
print('OK' if ok else 'WRONG: the phase lists its elements as species and its species as elements')
sys.exit(0 if ok else 1)
