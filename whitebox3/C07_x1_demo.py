"""C07 x1: quantities written with their unit into the YAML files ("<value> <unit>") must keep the value: the site
density of an interface (2.5e-9 mol/cm2) and a small reactor volume.  Run with PYTHONPATH=<tree>."""
import sys
import numpy as np
import yaml
from pmutt.empirical.nasa import Nasa
from pmutt.omkm.phase import InteractingInterface
from pmutt.omkm.units import Units
from pmutt.io.omkm import write_thermo_yaml, write_yaml

a = np.array([3.5, 1e-3, 0., 0., 0., -100., 4.0])
pt = Nasa(name='PT(S)', T_low=200., T_mid=1000., T_high=3000., a_low=a, a_high=a.copy(), elements={'Pt': 1}, n_sites=1)
surf = InteractingInterface(name='terrace', species=[pt], site_density=2.5e-9, phases=[])
u = Units(quantity='mol', length='cm')
text = write_thermo_yaml(phases=[surf], units=u)
docs = [d for d in yaml.safe_load_all(text.replace('\n\n-', '\n-')) if d and 'phases' in d]
sd = docs[0]['phases'][0]['site-density']
vol = yaml.safe_load(write_yaml(V=2.5e-4, units=Units(length='m')))['reactor']['volume']
print('site-density:', sd, '  reactor volume:', vol)
ok = abs(float(sd.split()[0]) / 2.5e-9 - 1) < 1e-6 and abs(float(vol.split()[0]) / 2.5e-4 - 1) < 1e-6
print('OK' if ok else 'WRONG: the written quantities are not the values of the model (2.5e-09 mol/cm^2, 0.00025 m3)')
sys.exit(0 if ok else 1)
