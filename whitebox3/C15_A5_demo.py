"""C15_A5: a row whose `name` cell is empty is skipped ("separator or note").  Such a row is a data row like any other
(any pattern of empty cells): its record must be returned, in row order.
exit 1 / WRONG with the change, exit 0 without.  Tree from PYTHONPATH."""
import os
import sys
import tempfile
import warnings

import openpyxl

from pmutt.io.excel import read_excel

warnings.simplefilter('ignore')
# a sheet of linear scaling relations / BEP-like entries: only some rows carry a name
header = ['name', 'slope', 'intercept', 'reaction', 'list.notes']
comment = ['optional', '', 'eV', '', '']
rows = [['C-H scission', 0.62, 1.05, 'CH4(S) = CH3(S) + H(S)', 'fitted'],
        [None, 0.48, 0.81, 'CH3(S) = CH2(S) + H(S)', None],
        ['O-H scission', 0.35, 0.92, 'H2O(S) = OH(S) + H(S)', None],
        [None, 0.3, None, 'OH(S) = O(S) + H(S)', 'guess']]
expected = [{'name': 'C-H scission', 'slope': 0.62, 'intercept': 1.05, 'reaction': 'CH4(S) = CH3(S) + H(S)',
             'notes': ['fitted']},
            {'slope': 0.48, 'intercept': 0.81, 'reaction': 'CH3(S) = CH2(S) + H(S)'},
            {'name': 'O-H scission', 'slope': 0.35, 'intercept': 0.92, 'reaction': 'H2O(S) = OH(S) + H(S)'},
            {'slope': 0.3, 'reaction': 'OH(S) = O(S) + H(S)', 'notes': ['guess']}]
with tempfile.TemporaryDirectory() as tmp:
    path = os.path.join(tmp, 'book.xlsx')
    wb = openpyxl.Workbook()
    ws = wb.active
    ws.title = 'beps'
    for r in [header, comment] + rows:
        ws.append(r)
    wb.save(path)
    got = read_excel(path, sheet_name='beps')
ok = got == expected
print('records got %d, expected %d' % (len(got), len(expected)))
for g in got:
    print('got     ', g)
for e in expected:
    print('expected', e)
print('OK' if ok else 'WRONG: data rows with an empty name cell give no record')
sys.exit(0 if ok else 1)
