"""C03_A1: a segment with fewer than five data points is fitted with a lower degree and the coefficients are padded
at the wrong end (np.polyfit returns the highest power first).  Run with PYTHONPATH=<tree>."""
import sys
import warnings
import numpy as np
from ase.build import molecule
from pmutt.statmech import StatMech, presets
from pmutt.empirical.nasa import Nasa

warnings.simplefilter('ignore')
H2O = StatMech(name='H2O', symmetrynumber=2, atoms=molecule('H2O'), potentialenergy=-14.2209, spin=0,
               vib_wavenumbers=np.array([3825.434, 3710.2642, 1582.432]), **presets['idealgas'])
CO_ads = StatMech(name='CO*', potentialenergy=-1.2, vib_wavenumbers=np.array([2050., 420., 380., 360., 60., 55.]),
                  **presets['harmonic'])
bad = 0
for label, model, T_low, T_high, n_T, T_mid in (('H2O gas   100-1500 K n_T=15 T_mid=400', H2O, 100., 1500., 15, 400.),
                                                ('H2O gas   300-3000 K n_T=20 T_mid=2500', H2O, 300., 3000., 20, 2500.),
                                                ('CO* ads   100-1500 K n_T=15 T_mid=400', CO_ads, 100., 1500., 15, 400.),
                                                ('CO* ads   100-1500 K n_T=15 T_mid=[400, 800]', CO_ads, 100., 1500., 15,
                                                 [400., 800.])):
    sp = Nasa.from_model(model=model, name='sp', T_low=T_low, T_high=T_high, n_T=n_T, T_mid=T_mid)
    T = np.linspace(T_low, T_high, 141)
    dCp = max(abs(sp.get_CpoR(T=t) - model.get_CpoR(T=t)) for t in T)
    dH = max(abs(sp.get_HoRT(T=t) - model.get_HoRT(T=t)) for t in T)
    dS = max(abs(sp.get_SoR(T=t) - model.get_SoR(T=t)) for t in T)
    ok = dCp < 0.1 and dH < 0.1 and dS < 0.1
    print('%-48s T_mid=%7.1f  max|dCp/R|=%9.3e  max|dH/RT|=%9.3e  max|dS/R|=%9.3e  %s'
          % (label, sp.T_mid, dCp, dH, dS, 'ok' if ok else 'WRONG'))
    bad += not ok
sys.exit(1 if bad else 0)
