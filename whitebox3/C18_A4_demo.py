"""C18 A4: InteractingInterface.to_cti(delimiter=...) - the reactions= / interactions= fields of a written interface
for identifiers that use another delimiter than '_'.  Exit 1 / WRONG when the fields do not denote the identifiers
(or cannot be written at all), exit 0 otherwise."""
import re
import sys

from pmutt.omkm.phase import InteractingInterface


class Species:
    def __init__(self, name, elements):
        self.name = name
        self.elements = elements
        self.phase = None


class WithId:
    def __init__(self, id):
        self.id = id


class WithName:
    def __init__(self, name):
        self.name = name


def expand(text, delim):
    out = []
    for e in re.findall(r'"([^"]*)"', text):
        ends = e.split(' to ')
        if len(ends) == 1:
            out.append(ends[0])
        else:
            (h, s, a), (_, _, b) = ends[0].rpartition(delim), ends[1].rpartition(delim)
            out.extend('%s%s%04d' % (h, s, k) for k in range(int(a), int(b) + 1))
    return out


bad = 0
for delim, rxn_ids, int_ids in (('_', ['rxn_0001', 'rxn_0002', 'rxn_0004'], ['lat_0001', 'lat_0002']),      # control
                                ('-', ['rxn-0001', 'rxn-0002', 'rxn-0004'], ['lat-0001', 'lat-0002']),
                                ('-', ['a_b-0004', 'a_b-0005', 's-10000', 's-9999'], ['CO_CO-0001']),
                                ('.', ['rxn.0002', 'rxn.0004', 'rxn.0003'], ['H_H.0007', 'H_H.0008'])):
    iface = InteractingInterface(name='terrace', species=[Species('PT(S)', {'Pt': 1}), Species('H(S)', {'H': 1, 'Pt': 1})],
                                 site_density=2.5e-9, phases=['gas', 'bulk'],
                                 reactions=[WithId(i) for i in rxn_ids], interactions=[WithName(i) for i in int_ids])
    try:
        text = iface.to_cti(delimiter=delim)
    except Exception as e:
        print('WRONG delimiter %r, reactions %s: to_cti raises %s: %s' % (delim, rxn_ids, type(e).__name__, e))
        bad += 1
        continue
    fields = dict(re.findall(r'^\s*(reactions|interactions)=(\[.*\])[,)]$', text, re.M))
    ok = set(expand(fields.get('reactions', ''), delim)) == set(rxn_ids) and \
        set(expand(fields.get('interactions', ''), delim)) == set(int_ids)
    print('%-5s delimiter %r: reactions=%s interactions=%s' % ('ok' if ok else 'WRONG', delim, fields.get('reactions'),
                                                             fields.get('interactions')))
    bad += not ok
print('WRONG: %d results' % bad if bad else 'all right')
sys.exit(1 if bad else 0)
