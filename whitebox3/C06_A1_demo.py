"""C06 A1: surf.inp of a mechanism that lists its adsorption steps first (as the pMuTT examples do).  The activation
energy written for every reaction must be the value the model gives for it (ads_act_method for adsorption steps).
Run: cd <tree> && PYTHONPATH=<tree> python C06_A1_demo.py   (exit 0 / OK on the original tree, exit 1 / WRONG with the change)"""
import sys
import warnings
from pmutt.empirical.nasa import Nasa
from pmutt.chemkin import CatSite
from pmutt.reaction import ChemkinReaction, Reactions
from pmutt.io import chemkin as ck

warnings.simplefilter('ignore')


def nasa(name, phase, elements, h, s, cat_site=None, n_sites=None):
    a = [4., 0., 0., 0., 0., h, s]
    return Nasa(name=name, T_low=200., T_mid=1000., T_high=3000., a_low=a, a_high=a, phase=phase,
                elements=elements, cat_site=cat_site, n_sites=n_sites)


terr = CatSite(name='PT_TERRACE', site_density=2.1671e-09, density=21.45, bulk_specie='PT(B)')
sp = {s.name: s for s in [
    nasa('CH4', 'G', {'C': 1, 'H': 4}, -9000., 20.), nasa('H2', 'G', {'H': 2}, -1000., 15.),
    nasa('CH3(S)', 'S', {'C': 1, 'H': 3, 'PT': 1}, -6000., 3., terr, 1),
    nasa('CH2(S)', 'S', {'C': 1, 'H': 2, 'PT': 1}, -1500., 2.5, terr, 1),
    nasa('H(S)', 'S', {'H': 1, 'PT': 1}, -2500., 1., terr, 1),
    nasa('PT(S)', 'S', {'PT': 1}, 0., 0., terr, 1),
    nasa('TS_CH4', 'S', {'C': 1, 'H': 4, 'PT': 2}, -2000., 6., terr, 2),
    nasa('TS_CH3', 'S', {'C': 1, 'H': 3, 'PT': 2}, 1000., 4., terr, 2)]}
# dissociative, activated adsorption of methane (transition state), adsorption of H2, then a surface step
ads1 = ChemkinReaction(reactants=[sp['CH4'], sp['PT(S)']], reactants_stoich=[1, 2],
                       products=[sp['CH3(S)'], sp['H(S)']], products_stoich=[1, 1],
                       transition_state=[sp['TS_CH4']], transition_state_stoich=[1],
                       is_adsorption=True, sticking_coeff=0.1, beta=0.)
ads2 = ChemkinReaction(reactants=[sp['H2'], sp['PT(S)']], reactants_stoich=[1, 2], products=[sp['H(S)']],
                       products_stoich=[2], is_adsorption=True, sticking_coeff=0.3, beta=0.)
surf = ChemkinReaction(reactants=[sp['CH3(S)'], sp['PT(S)']], reactants_stoich=[1, 1],
                       products=[sp['CH2(S)'], sp['H(S)']], products_stoich=[1, 1],
                       transition_state=[sp['TS_CH3']], transition_state_stoich=[1], beta=1.)
T, P = 800., 1.
bad = False
for label, rx, ads in (('adsorption steps first, ads_act_method=get_H_act', [ads1, ads2, surf], 'get_H_act'),
                       ('adsorption steps first, ads_act_method=get_G_act', [ads1, ads2, surf], 'get_G_act'),
                       ('surface step first,     ads_act_method=get_G_act', [surf, ads1, ads2], 'get_G_act')):
    txt = ck.write_surf(reactions=Reactions(rx), T=T, P=P, act_method_name='get_G_act', ads_act_method=ads,
                        float_format=' .6E')
    lines = [l for l in txt.split('\n') if '=' in l and not l.startswith('!')]
    print(label)
    for r, line in zip(rx, lines):
        meth = ads if r.is_adsorption else 'get_G_act'
        want = getattr(r, meth)(units='kcal/mol', T=T, P=P)
        got = float(line.split()[-1])
        ok = abs(got - want) <= 1e-6 * max(1., abs(want))
        print('   %-42s Ea written % .6E   model %s % .6E   %s' % (line.split()[0], got, meth, want,
                                                                   'ok' if ok else 'WRONG'))
        bad = bad or not ok
print('WRONG' if bad else 'OK')
sys.exit(1 if bad else 0)
