"""C07 A4: the lateral_interaction directives of the CTI file must be valid CTI (Python syntax that Cantera's
ctml_writer executes) and carry thresholds and strengths as plain numbers.  Run with PYTHONPATH=<tree>."""
import ast
import sys
from pmutt.mixture.cov import PiecewiseCovEffect
from pmutt.omkm.units import Units
from pmutt.io.omkm import write_cti

inter = [PiecewiseCovEffect(name_i='CO(S)', name_j='CO(S)', intervals=[0., 0.5], slopes=[0., -5.0]),
         PiecewiseCovEffect(name_i='H(S)', name_j='CO(S)', intervals=[0., 0.3, 0.7], slopes=[0., -2.5, -7.5])]
text = write_cti(lateral_interactions=inter, units=Units(energy='kJ', quantity='mol'))
ok = True
found = []
for node in ast.parse(text).body:
    call = node.value
    if getattr(call.func, 'id', None) != 'lateral_interaction':
        continue
    kw = {k.arg: k.value for k in call.keywords}
    try:
        strengths = ast.literal_eval(kw['strengths'])
    except ValueError:
        strengths = None
    found.append(strengths)
    print('id=%s strengths as written: %s' % (ast.literal_eval(kw['id']), ast.unparse(kw['strengths'])))
from pmutt import constants as c
fac = c.convert_unit(initial='kcal', final='kJ')
want = [[0.0 * fac, -5.0 * fac], [0.0 * fac, -2.5 * fac, -7.5 * fac]]
ok = len(found) == 2 and all(f is not None and len(f) == len(w) and all(abs(a - b) < 1e-9 for a, b in zip(f, w))
                             for f, w in zip(found, want))
print('OK' if ok else 'WRONG: the strengths are not number literals (Cantera evaluates the directive: NameError np)')
sys.exit(0 if ok else 1)
