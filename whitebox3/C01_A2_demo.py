"""Two crystals evaluated in one process: each must report the Einstein / Debye values of ITS OWN characteristic
temperature (textbook closed forms, written out here), whatever other crystals exist."""
import sys
import numpy as np
from scipy.integrate import quad
from pmutt.statmech.vib import EinsteinVib, DebyeVib
from pmutt.statmech import StatMech

bad = 0
def check(ok, msg):
    global bad
    if not ok:
        bad += 1
        print('WRONG:', msg)

def einstein(theta, T):
    x = theta / T
    return {'CvoR': 3. * x**2 * np.exp(-x) / (1. - np.exp(-x))**2,
            'SoR': 3. * (x * np.exp(-x) / (1. - np.exp(-x)) - np.log(1. - np.exp(-x)))}

def debye_cv(theta, T):
    x = theta / T
    return 9. / x**3 * quad(lambda t: t**4 * np.exp(t) / (np.exp(t) - 1.)**2, 0., x)[0]

T = 300.
silver = EinsteinVib(einstein_temperature=168., interaction_energy=-2.9)
diamond = EinsteinVib(einstein_temperature=1320., interaction_energy=-7.4)
for name, ob, theta in (('silver', silver, 168.), ('diamond', diamond, 1320.)):
    want = einstein(theta, T)
    for q in ('CvoR', 'SoR'):
        got = getattr(ob, 'get_' + q)(T=T)
        check(abs(got - want[q]) < 1e-9 * max(1., abs(want[q])),
              'Einstein crystal %s (theta_E = %g K): %s(300 K) = %.6f, textbook %.6f' % (name, theta, q, got, want[q]))
    check(ob.einstein_temperature == theta, '%s.einstein_temperature reads %r, was given %r' % (name, ob.einstein_temperature, theta))
    # Cv = d(TU)/dT
    h = 1e-3
    dTU = ((T + h) * ob.get_UoRT(T=T + h) - (T - h) * ob.get_UoRT(T=T - h)) / (2 * h)
    check(abs(dTU - want['CvoR']) < 1e-5, 'Einstein crystal %s: d(T U/RT)/dT = %.6f but the textbook Cv/R is %.6f' % (name, dTU, want['CvoR']))
lead = DebyeVib(debye_temperature=105., interaction_energy=-2.0)
copper = DebyeVib(debye_temperature=343., interaction_energy=-3.5)
for name, ob, theta in (('lead', lead, 105.), ('copper', copper, 343.)):
    got, want = ob.get_CvoR(T=T), debye_cv(theta, T)
    check(abs(got - want) < 1e-8, 'Debye crystal %s (theta_D = %g K): Cv/R(300 K) = %.6f, textbook 3K(theta/T) = %.6f' % (name, theta, got, want))
# species: total == sum of verbose contributions AND the vibrational entry is that of the species' own crystal
sp1 = StatMech(name='Ag', vib_model=EinsteinVib(168.))
sp2 = StatMech(name='C', vib_model=EinsteinVib(1320.))
check(abs(sp1.get_CvoR(T=T) - einstein(168., T)['CvoR']) < 1e-9,
      'species Ag: Cv/R = %.6f, expected %.6f' % (sp1.get_CvoR(T=T), einstein(168., T)['CvoR']))
print('%d wrong' % bad)
sys.exit(1 if bad else 0)
