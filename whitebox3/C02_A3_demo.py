"""C02_A3 demo: a NASA-7 species evaluated on an array of temperatures must give, entry by entry, what it gives for each
temperature on its own (low-temperature polynomial below T_mid, high-temperature polynomial from T_mid upwards) - in
whatever order the temperatures are listed.  exit 1 / WRONG with the change, exit 0 without."""
import sys
import numpy as np
from pmutt.empirical.nasa import Nasa

# H2O (Burcat), T_mid = 1000 K; the two polynomials of a fitted species differ away from the break
a_low = np.array([4.19864056E+00, -2.03643410E-03, 6.52040211E-06, -5.48797062E-09, 1.77197817E-12, -3.02937267E+04, -8.49032208E-01])
a_high = np.array([3.03399249E+00, 2.17691804E-03, -1.64072518E-07, -9.70419870E-11, 1.68200992E-14, -3.00042971E+04, 4.96677010E+00])
sp = Nasa(name='H2O', T_low=200., T_mid=1000., T_high=3500., a_low=a_low, a_high=a_high)
bad = False
for T in (np.array([1500., 1000., 500., 300.]),        # cooling ramp
          np.array([300., 1200., 400.]),               # unsorted
          [2000., 298.15]):                            # a list, reference temperature last
    for q in ('get_CpoR', 'get_HoRT', 'get_SoR', 'get_GoRT'):
        arr = np.asarray(getattr(sp, q)(T=T))
        each = np.array([getattr(sp, q)(T=float(T_i)) for T_i in T])
        ok = arr.shape == each.shape and np.allclose(arr, each, rtol=1e-12, atol=0.)
        print('%-8s T=%s\n   array      %s\n   one by one %s  %s' % (q, list(np.asarray(T)), np.array2string(arr, precision=6),
                                                                 np.array2string(each, precision=6), 'ok' if ok else 'WRONG'))
        bad |= not ok
sys.exit(1 if bad else 0)
