"""C19 / A1: the tabulated energies must EQUAL the reactions' own delta G/RT divided by the normalisation factors
(times RT with units) and the stable phase must be the one with the LOWEST of them at every grid point.
A table whose entries went through text with four significant digits is neither: close to a phase boundary two
phases get the same rounded energy and the arg-min answers with the first of them.
Exit 1 / WRONG when the diagram disagrees with the reactions' own values, exit 0 otherwise."""
import sys
import numpy as np
from pmutt import constants as c
from pmutt.reaction import Reaction
from pmutt.reaction.phasediagram import PhaseDiagram


class Sp:
    """species with an ideal-gas like Gibbs energy depending on T and P"""
    def __init__(self, name, h, s, elements, gas=False):
        self.name, self.h, self.s, self.elements, self.gas = name, h, s, elements, gas
        self.phase = 'G' if gas else 'S'

    def get_GoRT(self, T=298.15, P=1., **kwargs):
        return self.h / T - self.s + (np.log(P) if self.gas else 0.)

    def get_G(self, units, T=298.15, **kwargs):
        return self.get_GoRT(T=T, **kwargs) * T * c.R('{}/K'.format(units))


sp = {'M': Sp('M', 0., 0., {'M': 1}), 'O2': Sp('O2', 0., 25., {'O': 2}, gas=True),
      'MO': Sp('MO', -30000., 5., {'M': 1, 'O': 1}), 'MO2': Sp('MO2', -52000., 9., {'M': 1, 'O': 2}),
      'M2O': Sp('M2O', -36000., 7., {'M': 2, 'O': 1})}
rx = [Reaction.from_string(s, sp) for s in ('M = M', 'M + 0.5O2 = MO', 'M + O2 = MO2', '2M + 0.5O2 = M2O')]
nf = [1., 1., 1.5, 2.]
pd = PhaseDiagram(rx, norm_factors=list(nf))


def own(units, T, P):
    """the reactions' own values / factor (x RT)"""
    return np.array([[r.get_delta_GoRT(T=t, P=P) / n * (c.R(units + '/K') * t if units else 1.) for t in T]
                     for r, n in zip(rx, nf)])


# the boundary between the phases MO (index 1) and MO2 (index 2) at P = 1e-6 bar, by bisection on the true energies
lo, hi = 600., 2400.
diff = lambda t: rx[2].get_delta_GoRT(T=t, P=1e-6) / nf[2] - rx[1].get_delta_GoRT(T=t, P=1e-6) / nf[1]
assert diff(lo) * diff(hi) < 0
for _ in range(80):
    mid = 0.5 * (lo + hi)
    lo, hi = (mid, hi) if diff(lo) * diff(mid) > 0 else (lo, mid)
T_b = 0.5 * (lo + hi)
T_grid = list(T_b + np.linspace(-3., 3., 30))         # 30 temperatures within 3 K of the boundary
P_grid = [1e-6]

bad = 0
for units in ('kJ/mol', None):
    want = own(units, T_grid, 1e-6)
    want_st = np.nanargmin(want, axis=0)
    G1, st1 = pd.get_GoRT_1D('T', T_grid, G_units=units, P=1e-6)
    G2, st2 = pd.get_GoRT_2D('T', T_grid, 'P', P_grid, G_units=units)
    for label, G, st in (('1D', G1, st1), ('2D', G2[:, :, 0], st2[:, 0])):
        st = np.asarray(st, dtype=int)
        n_wrong = int(np.sum(st != want_st))
        err = float(np.max(np.abs(G - want)))
        ok = n_wrong == 0 and np.allclose(G, want, rtol=1e-12, atol=0.)
        print('%s units=%-6s boundary MO/MO2 at %.3f K: stable phase wrong at %d of %d grid points; '
              'max |table - own value| = %.3g   %s' % (label, units, T_b, n_wrong, len(T_grid), err,
                                                       'ok' if ok else 'WRONG'))
        if not ok:
            j = int(np.argmax(st != want_st)) if n_wrong else int(np.argmax(np.abs(G - want).max(axis=0)))
            print('     e.g. T=%.4f K: tabulated %s, own values %s, reported phase %d, lowest is phase %d'
                  % (T_grid[j], G[:, j], want[:, j], st[j], want_st[j]))
        bad += not ok
sys.exit(1 if bad else 0)
