"""C07 A2: two reactor files written one after the other with the same dictionary of top-level entries (misc=): the
second file - a batch reactor without inlet - must carry the values supplied for it and nothing else.
Run with PYTHONPATH=<tree>."""
import sys
import yaml
from pmutt.omkm.units import Units
from pmutt.io.omkm import write_yaml

common = {'thermo_file': 'thermo.yaml'}            # top-level entries shared by all reactor files of the study
u = Units(length='cm', pressure='atm', time='s')
first = write_yaml(reactor_type='cstr', temperature_mode='isothermal', V=1.5, T=650., P=2., flow_rate=3.,
                   end_time=100., misc=common, units=u)
second = write_yaml(reactor_type='batch', V=0.5, T=400., misc=common, units=u)
d1, d2 = yaml.safe_load(first), yaml.safe_load(second)
print('first  file:', d1)
print('second file:', d2)
print('misc after the two calls:', common)
want2 = {'thermo_file': 'thermo.yaml', 'reactor': {'type': 'batch', 'volume': '0.5 cm3', 'temperature': 400.0}}
ok = d2 == want2 and common == {'thermo_file': 'thermo.yaml'}
print('OK' if ok else 'WRONG: the batch reactor file carries %s, which nobody supplied for it'
      % {k: v for k, v in d2.items() if k not in want2})
sys.exit(0 if ok else 1)
