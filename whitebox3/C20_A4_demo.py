"""C20 A4 - the roots of the cubic are remembered under the key (a, b, T): the pressure is missing from the key, so the
same gas asked at a second pressure of the same isotherm gets the volume of the first pressure.
Tree is taken from PYTHONPATH.  Exit 1 / WRONG with the change, exit 0 without."""
import sys

from pmutt.eos import vanDerWaalsEOS

co2 = vanDerWaalsEOS(a=0.364, b=4.27e-5)
bad = 0
T, n = 350., 2.
for P in (1., 10., 100., 1.e-2):                # an isotherm
    for gas in (True, False):
        V = co2.get_V(T=T, P=P, n=n, gas_phase=gas)
        Pb = co2.get_P(T=T, V=V, n=n)
        nb = co2.get_n(V=V, P=P, T=T, gas_phase=gas)
        ok = abs(Pb / P - 1.) < 1e-6 and abs(nb / n - 1.) < 1e-9
        bad += not ok
        print('%s T=%g K P=%g bar n=%g gas_phase=%s: V=%.6e m3, get_P(T, V, n)=%.6g bar'
              % ('right' if ok else 'WRONG', T, P, n, gas, V, Pb))
print('%d wrong' % bad)
sys.exit(1 if bad else 0)
