"""C06 A2: surf.inp is written and read back with pMuTT's own reader.  The equation returned for every reaction must be
the equation that was written (all reactants, all products), whatever the species are called - here the name of the last
product, H(S), also occurs inside the name of another species of the same reaction, OH(S).
Run: cd <tree> && PYTHONPATH=<tree> python C06_A2_demo.py   (exit 0 / OK on the original tree, exit 1 / WRONG with the change)"""
import os
import sys
import tempfile
import warnings
from pmutt.empirical.nasa import Nasa
from pmutt.chemkin import CatSite
from pmutt.reaction import ChemkinReaction, Reactions
from pmutt.io import chemkin as ck

warnings.simplefilter('ignore')


def nasa(name, phase, elements, h, s, cat_site=None, n_sites=None):
    a = [4., 0., 0., 0., 0., h, s]
    return Nasa(name=name, T_low=200., T_mid=1000., T_high=3000., a_low=a, a_high=a, phase=phase,
                elements=elements, cat_site=cat_site, n_sites=n_sites)


terr = CatSite(name='PT_TERRACE', site_density=2.1671e-09, density=21.45, bulk_specie='PT(B)')
species = [nasa('H2', 'G', {'H': 2}, -1000., 10.), nasa('H', 'G', {'H': 1}, 25000., 8.),
           nasa('H2O(S)', 'S', {'H': 2, 'O': 1, 'PT': 1}, -33000., 3., terr, 1),
           nasa('OH(S)', 'S', {'O': 1, 'H': 1, 'PT': 1}, -20000., 2., terr, 1),
           nasa('H(S)', 'S', {'H': 1, 'PT': 1}, -4000., 1., terr, 1),
           nasa('O(S)', 'S', {'O': 1, 'PT': 1}, -14000., 1.5, terr, 1),
           nasa('PT(S)', 'S', {'PT': 1}, 0., 0., terr, 1)]
sp = {s.name: s for s in species}
rx = [ChemkinReaction.from_string('H2O(S)+PT(S)=OH(S)+H(S)', sp),
      ChemkinReaction.from_string('OH(S)+PT(S)=O(S)+H(S)', sp),
      ChemkinReaction.from_string('H2=2H', sp)]
d = tempfile.mkdtemp()
bad = False
for fname, writer, kw, rxs in (
        ('surf.inp', ck.write_surf, dict(reactions=Reactions(rx)), rx[:2]),
        ('gas.inp', ck.write_gas, dict(nasa_species=species, reactions=rx), rx[2:])):
    path = os.path.join(d, fname)
    writer(filename=path, T=500., P=1., act_method_name='get_G_act', **kw)
    got = ck.read_reactions(path)
    for r, eq, reac, prod in zip(rxs, got[0], got[1], got[3]):
        want = r.to_string(stoich_format='.0f', include_TS=False)
        ok = eq == want
        print('%-8s written %-26s equation read back %-26s %s' % (fname, want, eq, 'ok' if ok else 'WRONG'))
        bad = bad or not ok
print('WRONG' if bad else 'OK')
sys.exit(1 if bad else 0)
