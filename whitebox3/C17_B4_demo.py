"""C17_B4: behaviour-preserving refactoring - the observations (values with their types, lists, dictionaries, CTI / YAML / JSON
text, exceptions with their messages) of 300 random histories are hashed and compared with the hash recorded on the
unchanged tree f5552c6.  exit 0 on both trees (tree taken from PYTHONPATH); WRONG + exit 1 if anything differs."""
import hashlib
import inspect
import json
import random
import sys

import numpy as np

from pmutt.mixture.cov import PiecewiseCovEffect
from pmutt.io.json import pmuttEncoder, json_to_pmutt

OBS = []


def rec(*a):
    OBS.append(repr(a))


def call(tag, f, *a, **k):
    try:
        r = f(*a, **k)
        if isinstance(r, np.ndarray):
            rec(tag, 'array', r.dtype.str, r.tolist())
        elif isinstance(r, PiecewiseCovEffect):
            rec(tag, type(r).__name__)
        else:
            rec(tag, type(r).__name__, r)
        return r
    except Exception as e:                                  # noqa
        rec(tag, 'EXC', type(e).__name__, str(e))
        return None


def observe(m, rng, tag):
    rec(tag, 'lists', type(m.intervals).__name__, list(m.intervals), type(m.slopes).__name__, list(m.slopes),
        m.name_i, m.name_j, m.name)
    xs = [0., 0, 1., 1, 0.37, np.float64(0.62), 1.3] + list(m.intervals) + \
        [(a + b) / 2 for a, b in zip(m.intervals, m.intervals[1:])] + [rng.random() for _ in range(3)]
    for x in xs:
        for T in (298.15, 500, np.float64(731.5)):
            call((tag, 'U', repr(x), repr(T)), m.get_UoRT, x=x, T=T)
        call((tag, 'H', repr(x)), m.get_HoRT, x=x, T=400.)
        call((tag, 'F', repr(x)), m.get_FoRT, x, 400.)
        call((tag, 'G', repr(x)), m.get_GoRT, T=400., x=x)
        call((tag, 'U again', repr(x)), m.get_UoRT, x, 298.15)
    call((tag, 'U default'), m.get_UoRT)
    call((tag, 'U T array'), m.get_UoRT, x=0.4, T=np.array([300., 400.]))
    call((tag, 'U x list'), m.get_UoRT, x=[0.4], T=300.)
    call((tag, 'get_U'), m.get_U, units='kJ/mol', x=0.4, T=350.)
    call((tag, 'get_G'), m.get_G, units='eV', x=0.8, T=350.)
    for q in ('get_SoR', 'get_CvoR', 'get_CpoR', 'get_q'):
        call((tag, q), getattr(m, q))
    d = call((tag, 'to_dict'), m.to_dict)
    call((tag, 'to_cti'), m.to_cti)
    call((tag, 'to_cti eV'), m.to_cti, energy_unit='eV', quantity_unit='molecule')
    call((tag, 'to_omkm_yaml'), m.to_omkm_yaml)
    call((tag, 'to_omkm_yaml kJ'), m.to_omkm_yaml, energy_unit='kJ', quantity_unit='kmol')
    return d


def history(seed):
    rng = random.Random(seed)
    n = rng.randint(1, 6)
    pts = sorted(round(rng.random(), rng.choice((1, 2, 6))) for _ in range(n - 1))
    if rng.random() < 0.2 and pts:
        pts[-1] = 1 if rng.random() < 0.5 else 1.
    iv = [0. if rng.random() < 0.8 else 0] + pts
    sl = [rng.choice((rng.uniform(-30, 30), float(rng.randint(-5, 5)), rng.randint(-5, 5))) for _ in range(n)]
    name = rng.choice((None, 'cov_%d' % seed))
    if rng.random() < 0.5:
        m = PiecewiseCovEffect('CO(S)', rng.choice(('CO(S)', 'O(S)')), list(iv), list(sl), name)
    else:
        m = PiecewiseCovEffect(name_i='H(S)', name_j='N(S)', intervals=list(iv), slopes=list(sl), name=name)
    tag = 'h%d' % seed
    observe(m, rng, tag + ':0')
    for k in range(rng.randint(0, 6)):
        if rng.random() < 0.6:
            kind = rng.random()
            if kind < 0.3 and m.intervals:
                x = rng.choice(list(m.intervals))
            elif kind < 0.4:
                x = rng.choice((0., 1., 0, 1))
            else:
                x = round(rng.random(), rng.choice((1, 3, 9)))
            s = rng.choice((rng.uniform(-30, 30), rng.randint(-5, 5)))
            call((tag, k, 'insert', x, s), m.insert, x, s) if rng.random() < 0.5 else \
                call((tag, k, 'insert kw', x, s), m.insert, slope=s, interval=x)
        else:
            i = rng.randint(-len(m.intervals) - 1, len(m.intervals) + 1)
            if i == -len(m.intervals):
                i = 0               # (removing the first breakpoint through a negative index is not a valid edit)
            call((tag, k, 'pop', i), m.pop, i)
        d = observe(m, rng, tag + ':%d' % (k + 1))
        if d is not None and rng.random() < 0.5:
            m2 = call((tag, k, 'from_dict'), PiecewiseCovEffect.from_dict, d)
            if m2 is not None:
                rec(tag, k, 'eq', m2 == m, m == m2, m2 != m, m == 3)
                observe(m2, rng, tag + ':%d reload' % (k + 1))
                txt = json.dumps(m, cls=pmuttEncoder, sort_keys=True)
                rec(tag, k, 'json', txt)
                m3 = json.loads(txt, object_hook=json_to_pmutt)
                rec(tag, k, 'json type', type(m3).__name__, m3 == m)
                m3.insert(0.5, 1.25)
                observe(m3, rng, tag + ':%d json reload + insert' % (k + 1))
                rec(tag, k, 'original untouched', list(m.intervals), list(m.slopes), m2 == m)


def main(expected):
    sig = inspect.signature(PiecewiseCovEffect.__init__)
    rec('signature', [(p.name, p.default, str(p.kind)) for p in sig.parameters.values()])
    rec('mro', [c.__name__ for c in PiecewiseCovEffect.__mro__], PiecewiseCovEffect.__name__,
        PiecewiseCovEffect.__module__, str(PiecewiseCovEffect))
    call('missing args', PiecewiseCovEffect, 'A', 'B')
    call('too many', PiecewiseCovEffect, 'A', 'B', [0.], [1.], 'n', 3)
    call('unknown kw', PiecewiseCovEffect, 'A', 'B', [0.], [1.], colour=3)
    m = PiecewiseCovEffect('A', 'B', [0., 0.5], [1., 3.])
    call('pop(0)', m.pop, 0)
    call('pop(0.)', m.pop, 0.)
    call('pop(None)', m.pop, None)
    call('hash', hash, m)
    rec('repr', repr(m).split(' at ')[0])
    for seed in range(300):
        history(seed)
    h = hashlib.sha256('\n'.join(OBS).encode()).hexdigest()
    print('%d observations, sha256 %s' % (len(OBS), h))
    if expected is None:
        return 0
    if h != expected:
        print('WRONG: observations differ from the unchanged tree (expected %s)' % expected)
        return 1
    print('OK: identical to the unchanged tree')
    return 0


if __name__ == '__main__':
    import warnings
    warnings.simplefilter('ignore')
    sys.exit(main('9ba38b6162f777312d2979e6d08d4da0bac4d54e3b7d0fb64bf32c752547100e'))
