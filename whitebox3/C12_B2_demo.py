"""C12_B2: the conversion factors are grouped by quantity type (``unit_dict[type][unit]``) - the rows 'yr' and 'particle',
which type_dict does not admit and no call can reach, are dropped.  The same doubles are multiplied and divided in the
same order for every admitted pair; the table is local to the call.
Takes the tree from PYTHONPATH.  Runs the digest of C12_B_dump.py (24959 observations: convert_unit for every ordered pair
of units incl. refusals and messages, numbers, float/int/float32/0-d/empty/2-D arrays, argument modification; every key
of R/kb/h/c; P0/T0/m_e/m_p/V0 for every unit; all helpers; element tables; molar masses - values bit-exact by float.hex)
and compares it with the digest of the original tree f5552c6.  exit 0 on both trees, exit 1 on any difference."""
import os
import subprocess
import sys

ORIGINAL = '6eed1ad733d24fa4b1ea796b862c127d51a58cfe356ee8523a07c424aec9b812'
here = os.path.dirname(os.path.abspath(__file__))
r = subprocess.run([sys.executable, os.path.join(here, 'C12_B_dump.py'), '--expect', ORIGINAL])
sys.exit(r.returncode)
