"""C17_x1 (same model gap as A3): np.argmax(<generator>) is 0 whatever the generator yields, so get_UoRT always uses the
last piece.  exit 1 + WRONG with the change, exit 0 on the unchanged tree (tree from PYTHONPATH)."""
import sys
from pmutt.mixture.cov import PiecewiseCovEffect

R, T = 1.9872036e-3, 300.
m = PiecewiseCovEffect('A', 'B', [0., 0.5], [1., 3.])
bad = []
for x, want in ((0.2, 0.2), (0.4, 0.4), (0.5, 0.5), (0.7, 1.1)):
    got = m.get_UoRT(x=x, T=T) * R * T
    print('U(%g) = %.6f (right %.6f)' % (x, got, want))
    if abs(got - want) > 1e-9:
        bad.append('WRONG: U(%g) = %.6f, right %.6f' % (x, got, want))
for b in bad:
    print(b)
sys.exit(1 if bad else 0)
