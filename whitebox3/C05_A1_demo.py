"""C05_A1 demo - temperature bounds written with '%.10g': a bound whose text is wider than its ten columns runs into the next
field (T_low = 1000/3 K: '333.3333333' + '3500' is read as one number, T_high becomes T_mid, T_mid becomes the record number).
Takes pMuTT from PYTHONPATH. Exit 0 and no WRONG on the unchanged tree, prints WRONG and exits 1 with the change."""
import os, sys, tempfile
import numpy as np
from pmutt.empirical.nasa import Nasa
from pmutt.io.thermdat import write_thermdat, read_thermdat

def mk(name, elements, phase='G', T_low=200., T_mid=1000., T_high=3500., a_low=None, a_high=None, **kw):
    a_low = [4.19864056E+00, -2.03643410E-03, 6.52040211E-06, -5.48797062E-09, 1.77197817E-12, -3.02937267E+04, -8.49032208E-01] if a_low is None else a_low
    a_high = [3.03399249E+00, 2.17691804E-03, -1.64072518E-07, -9.70419870E-11, 1.68200992E-14, -3.00042971E+04, 4.96677010E+00] if a_high is None else a_high
    return Nasa(name=name, elements=elements, phase=phase, T_low=T_low, T_mid=T_mid, T_high=T_high,
                a_low=np.array(a_low), a_high=np.array(a_high), **kw)

def roundtrip(species, fmt='list', **kw):
    d = tempfile.mkdtemp()
    f = os.path.join(d, 'thermdat')
    write_thermdat(species, filename=f, write_date=kw.pop('write_date', False), **kw)
    return read_thermdat(f, format=fmt), open(f).read()

def sig9(x):
    return '%.8e' % x

def same(a, b):
    """the property's notion of 'the same species'"""
    return (a.name == b.name and a.phase == b.phase and dict(a.elements) == dict(b.elements)
            and all(abs(getattr(a, t) - getattr(b, t)) <= 0.1 + 1e-9 for t in ('T_low', 'T_mid', 'T_high'))
            and all(sig9(x) == sig9(y) for x, y in zip(a.a_low, b.a_low)) and len(a.a_low) == len(b.a_low) == 7
            and all(sig9(x) == sig9(y) for x, y in zip(a.a_high, b.a_high)) and len(a.a_high) == len(b.a_high) == 7)

def verdict(species, **kw):
    """'' when the collection reads back as written, else a description"""
    sp = list(species.values()) if isinstance(species, dict) else list(species)
    try:
        got, text = roundtrip(species, **kw)
    except Exception as e:
        return 'reading back raises %s: %s' % (type(e).__name__, e)
    got = list(got.values()) if isinstance(got, dict) else list(got)
    if len(got) != len(sp):
        return '%d species written, %d read back: %s' % (len(sp), len(got), [g.name for g in got])
    for a, b in zip(sp, got):
        if not same(a, b):
            return 'species %s reads back as name=%r phase=%r elements=%r T=(%r, %r, %r)' % (
                a.name, b.name, b.phase, b.elements, b.T_low, b.T_mid, b.T_high)
    return ''


bad = 0
# temperature bounds as a fit over np.linspace(300, 1000, 7) / (200, 3500, 20) gives them
cases = [mk('CH4', {'C': 1, 'H': 4}, T_low=300., T_mid=np.linspace(300, 1000, 7)[1], T_high=1000.),
         mk('H2O', {'H': 2, 'O': 1}, T_low=1000. / 3., T_mid=1000., T_high=3500.),
         mk('CO2', {'C': 1, 'O': 2}, T_low=298.15, T_mid=1052.63, T_high=6000.)]
for sp in cases:
    v = verdict([sp])
    print('%-4s T=(%r, %r, %r): %s' % (sp.name, sp.T_low, sp.T_mid, sp.T_high, v or 'ok'))
    bad += bool(v)
v = verdict(cases)
print('all three:', v or 'ok')
bad += bool(v)
print(roundtrip(cases)[1].splitlines()[2])
print(roundtrip(cases)[1].splitlines()[6])
if bad:
    print('WRONG')
    sys.exit(1)
