"""C04_A2: SurfaceReaction.get_H_act of a reaction whose transition state is a BEP relation is no longer
get_HoRT_act * R * T.  Run with PYTHONPATH=<tree>; exit 1 + WRONG on the changed tree, exit 0 on the pristine tree."""
import sys
import warnings
import numpy as np
warnings.simplefilter('ignore')
from ase.build import molecule
from pmutt import constants as c
from pmutt.statmech import StatMech, presets
from pmutt.omkm.reaction import SurfaceReaction, BEP


def gas(name, sym, nu, E, spin):
    return StatMech(name=name, atoms=molecule(name), symmetrynumber=sym, vib_wavenumbers=nu, potentialenergy=E,
                    spin=spin, **presets['idealgas'])


H2 = gas('H2', 2, [4342.], -6.7700, 0)
O2 = gas('O2', 2, [1557.], -9.8600, 1)
H2O = gas('H2O', 2, [3825.434, 3710.2642, 1582.432], -14.2209, 0)

bad = n = 0
for descriptor, slope, intercept in (('delta_H', 0.5, 10.), ('delta_H', 0.5, 40.), ('delta_E', 0.5, 40.),
                                     ('rev_delta_E', 0.3, 35.)):
    bep = BEP(name='OH_bep', slope=slope, intercept=intercept, descriptor=descriptor, elements={'H': 2, 'O': 1})
    rxn = SurfaceReaction(reactants=[H2, O2], reactants_stoich=[1., 0.5], products=[H2O], products_stoich=[1.],
                          transition_state=[bep], transition_state_stoich=[1.])
    for T in (300., 600.):
        for rev in (False, True):
            for units in ('kcal/mol', 'kJ/mol', 'eV'):
                got = rxn.get_H_act(units=units, T=T, rev=rev)
                want = rxn.get_HoRT_act(T=T, rev=rev) * c.R('{}/K'.format(units)) * T
                n += 1
                if not np.isclose(got, want, rtol=1e-10, atol=1e-12):
                    bad += 1
                    if units == 'kcal/mol' and T == 300.:
                        print('WRONG BEP(%s, slope %.1f, intercept %.0f kcal/mol): get_H_act(%r, T=%g, rev=%s) = %.4f, '
                              'get_HoRT_act * R * T = %.4f' % (descriptor, slope, intercept, units, T, rev, got, want))
print('%d of %d comparisons differ' % (bad, n))
sys.exit(1 if bad else 0)
