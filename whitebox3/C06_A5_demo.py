"""C06 A5: gas.inp / surf.inp written with other float formats than the default scientific one ('.4f' fixed point,
'.6g' general) and read back with pMuTT's own reader: the species and coefficients must be those of the model,
the rate parameters that follow the equation are not species.
Run: cd <tree> && PYTHONPATH=<tree> python C06_A5_demo.py   (exit 0 / OK on the original tree, exit 1 / WRONG with the change)"""
import os
import sys
import tempfile
import warnings
from pmutt.empirical.nasa import Nasa
from pmutt.chemkin import CatSite
from pmutt.reaction import ChemkinReaction, Reactions
from pmutt.io import chemkin as ck

warnings.simplefilter('ignore')


def nasa(name, phase, elements, h, s, cat_site=None, n_sites=None):
    a = [4., 0., 0., 0., 0., h, s]
    return Nasa(name=name, T_low=200., T_mid=1000., T_high=3000., a_low=a, a_high=a, phase=phase,
                elements=elements, cat_site=cat_site, n_sites=n_sites)


terr = CatSite(name='PT_TERRACE', site_density=2.1671e-09, density=21.45, bulk_specie='PT(B)')
species = [nasa('H2', 'G', {'H': 2}, -1000., 10.), nasa('O2', 'G', {'O': 2}, -900., 12.),
           nasa('H2O', 'G', {'H': 2, 'O': 1}, -30000., 11.),
           nasa('H(S)', 'S', {'H': 1, 'PT': 1}, -4000., 1., terr, 1),
           nasa('O(S)', 'S', {'O': 1, 'PT': 1}, -14000., 1.5, terr, 1),
           nasa('OH(S)', 'S', {'O': 1, 'H': 1, 'PT': 1}, -20000., 2., terr, 1),
           nasa('PT(S)', 'S', {'PT': 1}, 0., 0., terr, 1)]
sp = {s.name: s for s in species}
rx = [ChemkinReaction.from_string('2H2+O2=2H2O', sp),
      ChemkinReaction.from_string('H2+2PT(S)=2H(S)', sp, is_adsorption=True, sticking_coeff=0.3, beta=0),
      ChemkinReaction.from_string('H(S)+O(S)=OH(S)+PT(S)', sp)]
d = tempfile.mkdtemp()
bad = False
for ff in (' .3E', '.4f', '.6g'):
    for fname, writer, kw, rxs in (
            ('gas.inp', ck.write_gas, dict(nasa_species=species, reactions=rx), rx[:1]),
            ('surf.inp', ck.write_surf, dict(reactions=Reactions(rx)), rx[1:])):
        path = os.path.join(d, fname)
        writer(filename=path, T=500., P=1., act_method_name='get_G_act', float_format=ff, **kw)
        with open(path) as fh:
            lines = [l for l in fh.read().split('\n') if '=' in l and not l.startswith('!')]
        eqs, reac, rst, prod, pst = ck.read_reactions(path)
        for i, r in enumerate(rxs):
            want = ([s.name for s in r.reactants], [int(x) for x in r.reactants_stoich],
                    [s.name for s in r.products], [int(x) for x in r.products_stoich])
            got = (reac[i], rst[i], prod[i], pst[i]) if i < len(reac) else None
            ok = got == want
            print('float_format=%-7r %-8s %s' % (ff, fname, lines[i]))
            print('%29s read back %s   %s' % ('', got, 'ok' if ok else 'WRONG, model: %s' % (want,)))
            bad = bad or not ok
print('WRONG' if bad else 'OK')
sys.exit(1 if bad else 0)
