"""C11_A1: ConstantMode with __slots__ - the generic to_dict (dict(self.__dict__)) no longer sees the values.
Exit 1 / WRONG when the round trip loses the values, exit 0 otherwise.  Tree taken from PYTHONPATH."""
import json
import sys

from pmutt.io.json import pmuttEncoder, json_to_pmutt
from pmutt.statmech import ConstantMode, StatMech, EmptyMode
from pmutt.statmech.lsr import LSR

bad = []


def cycle(obj):
    return json.loads(json.dumps(obj, cls=pmuttEncoder), object_hook=json_to_pmutt)


# 1. the mode alone
mode = ConstantMode(q=2., Cv=1.e-4, Cp=1.2e-4, U=-1.5, H=-1.4, S=2.e-3, F=-2.1, G=-2.0, notes='CCSD(T), ref. 12')
dec = cycle(mode)
for attr in ('q', 'Cv', 'Cp', 'U', 'H', 'S', 'F', 'G', 'notes'):
    a, b = getattr(mode, attr), getattr(dec, attr)
    print('ConstantMode.%-5s %r -> %r' % (attr, a, b))
    if a != b:
        bad.append('ConstantMode.%s %r -> %r' % (attr, a, b))
for T in (300.,):
    a, b = mode.get_HoRT(T=T), dec.get_HoRT(T=T)
    print('ConstantMode.get_HoRT(T=%g) %r -> %r' % (T, a, b))
    if a != b:
        bad.append('get_HoRT %r -> %r' % (a, b))

# 2. nested: a species with a constant electronic mode, and the species an LSR builds from a number
sp = StatMech(name='OH*', elec_model=ConstantMode(U=-7.2, H=-7.2, F=-7.2, G=-7.2), elements={'O': 1, 'H': 1})
a, b = sp.get_HoRT(T=300.), cycle(sp).get_HoRT(T=300.)
print('StatMech[constant mode].get_HoRT(300) %r -> %r' % (a, b))
if a != b:
    bad.append('StatMech.get_HoRT %r -> %r' % (a, b))
lsr = LSR(slope=0.5, intercept=-10., reaction=-20., surf_species=-3., gas_species=-1.)
a, b = lsr.get_HoRT(T=300.), cycle(lsr).get_HoRT(T=300.)
print('LSR[numbers].get_HoRT(300) %r -> %r' % (a, b))
if a != b:
    bad.append('LSR.get_HoRT %r -> %r' % (a, b))

if bad:
    print('WRONG: %d value(s) lost in the round trip: %s' % (len(bad), '; '.join(bad[:4])))
    sys.exit(1)
print('OK: ConstantMode round-trips')
